"""C19 — plateau finding, collapsing and in-phase filtering.

Spec: spec/chopper/Plateaus.tla (state machine + invariants), PlateauDefs.tla (declarative
definitions), Trace_Plateaus.tla (judge of recorded executions).

1. TLC, exhaustive: the implementation-shaped running count of exceeding slopes induces exactly the
   declarative maximal runs (all series up to MaxLen over the value/step/tolerance grid);
   negative control (>= instead of >) must be rejected.
2. Conformance (code -> spec): the real find_plateaus / collapse_plateaus / filter_in_phase are
   driven with (a) every series of the exhaustive model's grid (short series, exactly-at-tolerance
   slopes included because all arithmetic is exact in floats: integer values, power-of-two steps
   and tolerances) with float / int / datetime coordinates, and (b) seeded random long series;
   every call is recorded as one NDJSON event in integers and TLC (Trace_Plateaus) decides each.
"""

from __future__ import annotations

import itertools
import math
from fractions import Fraction

import numpy as np
import scipp as sc

from ..core import MachineryError
from ..tlc import require_ok, write_ndjson

RULE = ('series = integer values x positive integer coordinate steps (scaled by powers of two so '
        'all float differences/quotients are exact), rational tolerance with power-of-two '
        'denominator; non-trivial = call returned and the series has >= 2 distinct runs or a '
        'slope exactly at the tolerance; in-phase: rational frequencies incl. 0 and negatives, '
        'cases within 1e-9 (relative) of the tolerance boundary are generated only when exact')


def _series_da(ys, dxs, coord_kind, yscale, xscale, with_var, origin=0):
    n = len(ys)
    xs_int = np.concatenate([[0], np.cumsum(dxs)]).astype('int64') if n > 1 else np.zeros(1, 'int64')
    # where the coordinate axis starts: positive, all negative, straddling zero, or ending exactly at 0
    # (times relative to a trigger are negative; "next after" the largest coordinate must work there too)
    span = int(xs_int[-1])
    shift = (0, -span - 11, -(span // 2) - 3, -span - 3)[origin % 4]
    xs_int = xs_int + shift
    yv = np.asarray(ys, dtype='float64') * yscale
    # data dtype: float64 (with IEEE negative zeros for the zeros of every other series: contents must be
    # kept bit for bit), float32, or int64 where the scaled values are integers
    ydt = ('float64', 'float32', 'int64')[(origin // 4) % 3]
    if ydt == 'int64' and (with_var or not np.all(yv == np.rint(yv))):
        ydt = 'float64'
    if ydt == 'float32' and not np.all(yv.astype('float32').astype('float64') == yv):
        ydt = 'float64'
    if ydt == 'float64' and origin % 2:
        yv = np.where(yv == 0.0, -0.0, yv)
    var = (np.arange(n, dtype='float64') + 1.0) if with_var else None
    data = sc.array(dims=['time'], values=yv.astype(ydt), variances=None if var is None else var.astype(ydt), unit='Hz')
    if coord_kind == 'float':
        x = sc.array(dims=['time'], values=(xs_int + 3) * xscale, unit='s')
    elif coord_kind == 'int':
        x = sc.array(dims=['time'], values=xs_int + 7, unit='s', dtype='int64')
    elif coord_kind == 'datetime':
        # a present-day time stamp (1.7e18 ns after the epoch: beyond what float64 resolves to 1 ns) or an early one
        t0 = 1_727_000_000_123_456_789 if origin % 2 else 10**9
        x = sc.epoch(unit='ns') + sc.array(dims=['time'], values=xs_int + t0, unit='ns', dtype='int64')
    else:
        raise MachineryError(coord_kind)
    da = sc.DataArray(data, coords={'time': x})
    da.coords['aux'] = sc.arange('time', n, unit='m') * 10
    return da, xs_int


def _atol_var(an, ad, coord_kind, yscale, xscale):
    # tolerance on dy/dx in model units; dy = model*yscale Hz, dx = model*xscale s (float) / 1 s (int)
    # / 1 ns (datetime)
    t = Fraction(an, ad) * Fraction(yscale)
    if coord_kind == 'float':
        t = t / Fraction(xscale)
        return sc.scalar(float(t), unit='Hz/s')
    if coord_kind == 'int':
        return sc.scalar(float(t), unit='Hz/s')
    return sc.scalar(float(t), unit='Hz/ns')


def _run_find(ctx, tid, ys, dxs, an, ad, minn, coord_kind, yscale=1.0, xscale=1.0, with_var=False,
              minn_as_var=False):
    origin = tid // 3   # decorrelated from the coordinate kind (tid % 3)
    from scippneutron.chopper import filtering

    da, xs_int = _series_da(ys, dxs, coord_kind, yscale, xscale, with_var, origin)
    snapshot = da.copy(deep=True)
    atol = _atol_var(an, ad, coord_kind, yscale, xscale)
    ev = {'ev': 'find', 'tid': tid, 'ys': list(map(int, ys)), 'dxs': list(map(int, dxs)), 'an': an,
          'ad': ad, 'minn': minn, 'kind': coord_kind}
    mn = sc.index(minn) if minn_as_var else minn
    try:
        pl = filtering.find_plateaus(da, atol=atol, min_n_points=mn)
    except RuntimeError as e:
        if 'dimension labels' in str(e):
            # scipp's per-process table of dimension labels is full (find_plateaus takes a fresh uuid label per
            # call): nothing this process does from now on says anything about the property
            raise MachineryError(f'scipp dimension-label table exhausted in this process: {e}') from None
        ev.update(out='raised', bins=[], same=True, col=[])
        return ev, False
    except Exception as e:  # noqa: BLE001
        ctx.violation(f'find_plateaus raised {type(e).__name__} for admissible input ({coord_kind} coord)',
                      {'event': ev, 'exc': repr(e)})
        ev.update(out='raised', bins=[], same=True, col=[])
        return ev, False
    if not sc.identical(da, snapshot):
        ctx.violation('find_plateaus modified its input', {'event': ev})
    if tid % 5 == 0:
        # the same call again (second use): the selection must not depend on an earlier call
        try:
            pl2 = filtering.find_plateaus(da, atol=atol, min_n_points=mn)
            if not sc.identical(pl2, pl):
                ctx.violation(f'find_plateaus: a second identical call returns a different result ({coord_kind} coord)',
                              {'event': ev})
        except Exception as e:  # noqa: BLE001
            ctx.violation(f'find_plateaus: a second identical call raised {type(e).__name__} ({coord_kind} coord)',
                          {'event': ev, 'exc': repr(e)})
    # map every output point back to its input index through the (unique) coordinate
    xin = da.coords['time'].values
    index_of = {xin[i].item() if hasattr(xin[i], 'item') else xin[i]: i for i in range(len(xin))}
    bins, same, col = [], True, []
    try:
        collapsed = filtering.collapse_plateaus(pl, coord='time')
        cvals = collapsed.values
        cedges = collapsed.coords['time'].values
    except Exception as e:  # noqa: BLE001
        ctx.violation(f'collapse_plateaus raised {type(e).__name__}', {'event': ev, 'exc': repr(e)})
        collapsed = None
    for k in range(pl.sizes['plateau']):
        content = pl['plateau', k].value
        xo = content.coords['time'].values
        idx = []
        for j in range(len(xo)):
            key = xo[j].item() if hasattr(xo[j], 'item') else xo[j]
            i = index_of.get(key)
            if i is None:
                same = False
                idx.append(0)
                continue
            idx.append(i + 1)
            if not sc.identical(content['time', j], snapshot['time', i]) or \
                    np.asarray(content['time', j].values).tobytes() != np.asarray(snapshot['time', i].values).tobytes():
                same = False
        bins.append(idx)
        if collapsed is not None and idx and all(idx):
            exact_mean = Fraction(sum(int(ys[i - 1]) for i in idx), len(idx)) * Fraction(yscale)
            got = float(cvals[k])
            # the mean is formed in the precision of the data: 1e-12 relative for double, 1e-6 for single
            # (sum of at most 500 terms of one sign, so no cancellation), exact to 1e-12 for integers
            rtol_mean = Fraction(1, 10**6) if da.dtype == sc.DType.float32 else Fraction(1, 10**12)
            mean_ok = math.isfinite(got) and \
                abs(Fraction(got) - exact_mean) <= abs(exact_mean) * rtol_mean + Fraction(1, 10**300)
            lo, hi = cedges[k][0], cedges[k][1]
            col.append({'mean_ok': bool(mean_ok), 'lo_le_first': bool(lo <= xin[idx[0] - 1]),
                        'hi_gt_last': bool(hi > xin[idx[-1] - 1])})
    if collapsed is not None and collapsed.sizes['plateau'] != pl.sizes['plateau']:
        col = col[:0]
    ev.update(out='ok', bins=bins, same=bool(same), col=col)
    return ev, True


def _gen_exhaustive(maxlen, vals, steps, atols):
    for n in range(2, maxlen + 1):
        for ys in itertools.product(vals, repeat=n):
            for dxs in itertools.product(steps, repeat=n - 1):
                for tol in atols:
                    yield ys, dxs, tol


def _nontrivial(ys, dxs, an, ad):
    ex = [abs(ys[i + 1] - ys[i]) * ad > an * dxs[i] for i in range(len(dxs))]
    at = any(abs(ys[i + 1] - ys[i]) * ad == an * dxs[i] for i in range(len(dxs)))
    return any(ex) or at


def _inphase_events(ctx, tid0, n_events):
    from scippneutron.chopper import filtering

    rng = ctx.rng
    evs = []
    for t in range(n_events):
        # reference = power of two (so x/ref is exact in floats), rtol = tn / 2^k
        rexp = rng.choice([-3, 0, 1, 4])
        ref = Fraction(2) ** rexp * rng.choice([1, -1])
        tden = 2 ** rng.choice([4, 7, 10])
        tn = rng.choice([1, 1, 3])
        rtol = Fraction(tn, tden)
        xs = []
        while len(xs) < 12:
            kind = rng.randrange(6)
            n = rng.randrange(1, 9)
            if kind == 0:      # exact multiple
                q = Fraction(n)
            elif kind == 1:    # exact divisor
                q = Fraction(1, n)
            elif kind == 2:    # zero
                q = Fraction(0)
            elif kind == 3:    # multiple, off by k/ (tden*4): inside, at and outside the tolerance
                q = Fraction(n) + Fraction(rng.choice([-1, 1]) * rng.choice([1, 3, 4, 4, 5, 9]) * tn, tden * 4)
            elif kind == 4:    # far from anything
                q = Fraction(n) + Fraction(rng.choice([3, 5]), 8)
                if abs(q - round(q)) < rtol:
                    continue
            else:              # near a divisor: 1/(n + d)
                d = Fraction(rng.choice([-1, 1]) * rng.choice([1, 3, 5, 9]) * tn, tden * 4)
                q = 1 / (Fraction(n) + d)
            q = q * rng.choice([1, -1])
            x = q * ref
            xf = float(x)
            if Fraction(xf) != x:
                # not exactly representable (divisor cases): keep only if safely away from boundaries
                x = Fraction(xf)
                q = x / ref
            # guard band: distances within 1e-9 relative of rtol are kept only if every float op
            # involved is exact (q dyadic and 1/q dyadic or clearly away)
            ok = True
            for val, exact in ((q, True), ((1 / q) if q != 0 else None, q != 0 and Fraction(float(1 / q)) == 1 / q)):
                if val is None:
                    continue
                dist = abs(val - round(val))
                if dist != rtol and abs(dist - rtol) < rtol * Fraction(1, 10**9):
                    ok = False
                if dist == rtol and not exact:
                    ok = False
            if not ok:
                continue
            if max(abs(x.numerator), x.denominator, abs((x / ref).numerator), (x / ref).denominator) > 2**20:
                continue
            xs.append(x)
        freq = sc.DataArray(sc.array(dims=['t'], values=[float(x) for x in xs], unit='Hz'),
                            coords={'t': sc.arange('t', len(xs), unit='s')})
        snap = freq.copy()
        use_khz = rng.random() < 0.3
        refv = sc.scalar(float(ref), unit='Hz')
        if use_khz:
            refv = sc.scalar(float(ref / 1000), unit='kHz') if Fraction(float(ref / 1000)) == ref / 1000 else refv
        try:
            res = filtering.filter_in_phase(freq, reference=refv.to(unit='Hz'), rtol=sc.scalar(float(rtol)))
        except Exception as e:  # noqa: BLE001
            ctx.violation(f'filter_in_phase raised {type(e).__name__}', {'xs': [str(x) for x in xs], 'exc': repr(e)})
            continue
        if not sc.identical(freq, snap):
            ctx.violation('filter_in_phase modified its input', {})
        kept = [int(v) + 1 for v in res.coords['t'].values]
        vals_same = all(res.values[j] == freq.values[k - 1] for j, k in enumerate(kept))
        if not vals_same:
            ctx.violation('filter_in_phase changed kept values', {'xs': [str(x) for x in xs]})
        evs.append({'ev': 'inphase', 'tid': tid0 + t, 'xs': [[x.numerator, x.denominator] for x in xs],
                    'ref': [ref.numerator, ref.denominator], 'rtol': [tn, tden], 'kept': kept})
        want = [i + 1 for i, x in enumerate(xs) if _py_inphase(x, ref, rtol)]
        ctx.case(nontrivial_id=('ip', tuple(xs), ref, rtol) if 0 < len(want) < len(xs) else None)
    return evs


def _py_inphase(x, ref, rtol):
    q = x / ref
    a = abs(q - round(q)) < rtol
    b = x != 0 and abs(1 / q - round(1 / q)) < rtol
    return a or b


class _Collector:
    """Stands in for ctx inside a worker process: what the driver reports is merged by the parent."""

    def __init__(self):
        self.violations, self.cases = [], []

    def violation(self, key, detail=None):
        self.violations.append((key, detail))

    def case(self, nontrivial_id=None):
        self.cases.append(nontrivial_id)


def _find_jobs(jobs):
    """One chunk of find_plateaus / collapse_plateaus executions in a worker process.
    job = (tid, ys, dxs, an, ad, minn, kind, yscale, xscale, with_var, minn_as_var, tag)"""
    col = _Collector()
    out = []
    try:
        for tid, ys, dxs, an, ad, minn, kind, yscale, xscale, with_var, minn_as_var, tag in jobs:
            ev, ok = _run_find(col, tid, ys, dxs, an, ad, minn, kind, yscale, xscale, with_var=with_var,
                               minn_as_var=minn_as_var)
            out.append((ev, ok, (tag if ok and _nontrivial(ys, dxs, an, ad) else None)))
    except MachineryError as e:
        return {'machinery': str(e)}
    return {'out': out, 'violations': col.violations}


def _run_jobs(ctx, jobs):
    """find_plateaus takes one of scipp's ~65 000 per-process dimension labels per call (a uuid) and never gives
    it back, so the calls are spread over forked worker processes that each make at most ~12 000 of them."""
    import multiprocessing as mp
    import os

    chunks = [jobs[i:i + 3000] for i in range(0, len(jobs), 3000)]
    nproc = max(1, min(int(os.environ.get('VERIF_PROCS', '8')), len(chunks)))
    with mp.get_context('fork').Pool(nproc, maxtasksperchild=2) as pool:
        results = pool.map(_find_jobs, chunks, chunksize=1)
    events, returned = [], 0
    for r in results:
        if 'machinery' in r:
            raise MachineryError(r['machinery'])
        for key, detail in r['violations']:
            ctx.violation(key, detail)
        for ev, ok, nid in r['out']:
            events.append(ev)
            returned += ok
            ctx.case(nontrivial_id=nid)
    return events, returned


def run(ctx):
    ctx.rule = RULE
    ctx.assume('float arithmetic on the generated inputs is exact (integers x powers of two), so the '
               'integer events handed to TLC are exactly the values the code saw')
    ctx.assume('a RuntimeError from the documented total-drift guard is an allowed outcome '
               '(the property constrains returns only)')
    ctx.assume('find_plateaus consumes one of scipp\'s ~65 000 per-process dimension labels per call (uuid label, never '
               'released: the 65 000th call in one process fails, and so does every later scipp operation with a new label); '
               'an observation outside the property (DESIGN §13) - the calls are spread over worker processes')
    # ---- 1. design: TLC exhaustive + negative control
    cfg = 'MC_Plateaus_thorough.cfg' if ctx.thorough else 'MC_Plateaus.cfg'
    res = ctx.tlc('chopper/MC_Plateaus.tla', cfg, timeout=1500, coverage=False)
    require_ok(ctx, res, 'Plateaus model')
    ctx.tlc('chopper/MC_Plateaus.tla', 'Neg_Plateaus.cfg', expect_error=True, timeout=300)

    # ---- 1b. spec -> code: TLC simulates long behaviours of the state machine (random walks of
    # AddPoint) and prints the final series with the maximal runs it expects; each is replayed.
    nsim = 1500 if ctx.thorough else 250
    sim = ctx.tlc('chopper/MC_Plateaus.tla', 'Sim_Plateaus.cfg', workers=1, simulate=f'num={nsim}', depth=14,
                  extra=['-seed', str(ctx.seed + 11)], timeout=900, count=False)
    require_ok(ctx, sim, 'Plateaus simulation')
    cases = sim.tagged('CASE')
    if len(cases) < nsim // 2:
        raise MachineryError(f'only {len(cases)} simulated behaviours exported')
    events = []
    tid = 0
    for _, ys, dxs, tol, runs in cases:
        kind = ('float', 'int', 'datetime')[tid % 3]
        ev, ok = _run_find(ctx, tid, ys, dxs, tol[0], tol[1], 1, kind, 2.0 ** ((tid % 5) - 2),
                           2.0 ** ((tid % 7) - 3) if kind == 'float' else 1.0)
        ctx.case(nontrivial_id=('s', tuple(ys), tuple(dxs), tuple(tol)) if ok and len(runs) > 1 else None)
        if ok:
            got = [[b[0], b[-1]] for b in ev['bins'] if b]
            if got != [list(r) for r in runs]:
                ctx.violation(f'find: bins differ from the runs of the simulated TLC behaviour ({kind} input)',
                              {'event': ev, 'expected_runs': runs})
        events.append(ev)   # also judged by the trace spec below
        tid += 1
    ctx.extra['tlc_simulated_behaviours_replayed'] = len(cases)

    # ---- 2. conformance: record executions, TLC judges
    returned = 0
    maxlen = 5 if ctx.thorough else 4
    vals, steps = (0, 1, 2, 3), (1, 2, 4)
    atols = ((1, 2), (1, 1), (2, 1))
    kinds = ('float', 'int', 'datetime')
    allcases = list(_gen_exhaustive(maxlen, vals, steps, atols))
    if not ctx.thorough:
        # all series up to length 3, stratified sample of length 4
        short = [c for c in allcases if len(c[0]) <= 3]
        long_ = [c for c in allcases if len(c[0]) > 3]
        allcases = short + ctx.rng.sample(long_, 1500)
    jobs = []
    for ys, dxs, (an, ad) in allcases:
        kind = kinds[tid % 3]
        n = len(ys)
        minn = 1 + (tid // 3) % n
        # float coordinates: scale by powers of two; int/datetime keep model units
        yscale = 2.0 ** ((tid % 5) - 2)
        xscale = 2.0 ** ((tid % 7) - 3) if kind == 'float' else 1.0
        jobs.append((tid, ys, dxs, an, ad, minn, kind, yscale, xscale, tid % 2 == 0, tid % 4 == 1,
                     ('f', ys, dxs, an, ad, minn, kind)))
        tid += 1
    # random long series
    nrand = 1500 if ctx.thorough else 300
    rng = ctx.rng
    for _ in range(nrand):
        n = rng.choice([2, 3, 5, 8, 13, 40, 120, 500]) if ctx.thorough else rng.choice([2, 3, 8, 40, 150, 500])
        ad = 2 ** rng.randrange(0, 5)
        an = rng.randrange(1, 40)
        level = rng.randrange(0, 1500)
        ys = []
        dxs = [2 ** rng.randrange(0, 5) if rng.random() < 0.7 else rng.randrange(1, 50) for _ in range(n - 1)]
        for i in range(n):
            if rng.random() < 0.12:
                level = rng.randrange(0, 1500)
            elif rng.random() < 0.5 and i > 0:
                # noise around and exactly at the tolerance: |dy| = floor/ceil(an*dx/ad)
                lim = an * dxs[i - 1] // ad
                prev = ys[-1]
                cand = prev + rng.choice([-1, 1]) * rng.choice([lim, lim, max(lim - 1, 0), lim + 1])
                if 0 <= cand <= 2000:
                    ys.append(cand)
                    continue
            ys.append(min(max(level + rng.randrange(-1, 2), 0), 2000))
        if rng.random() < 0.3:
            # a large common offset (rotation speeds in the thousands with a fine tolerance): the slopes, and hence
            # the plateaus, are the same - a comparison relative to the size of the data would merge small steps
            ys = [y + 2 ** 17 for y in ys]
        kind = rng.choice(kinds)
        minn = rng.choice([1, 2, 3, max(1, n // 4), n])
        jobs.append((tid, ys, dxs, an, ad, minn, kind, 2.0 ** rng.choice([-40, -8, -3, 0, 1, 5, 30]),
                     2.0 ** rng.choice([-30, -8, -1, 0, 3, 20]) if kind == 'float' else 1.0, rng.random() < 0.5, False,
                     ('r', tid)))
        tid += 1
    evs, returned = _run_jobs(ctx, jobs)
    events += evs
    events += _inphase_events(ctx, tid, 400 if ctx.thorough else 120)
    for e in events[:2] + events[-1:]:
        ctx.sample(e)
    if returned < tid // 4:
        # not a verdict about the property (which constrains returns only), but the run would be vacuous
        ctx.extra['warning'] = f'only {returned} of {tid} find_plateaus calls returned'
    ctx.extra['find_calls'] = tid
    ctx.extra['find_returned'] = returned

    tf = ctx.tmp / 'c19.ndjson'
    write_ndjson(tf, events)
    tr = ctx.tlc('chopper/Trace_Plateaus.tla', workers=1, env={'TRACE_FILE': str(tf)}, timeout=1500)
    require_ok(ctx, tr, 'Trace_Plateaus')
    done = tr.tagged('DONE')
    if not done or done[0][1] != len(events):
        raise MachineryError(f'trace validation incomplete: {done} vs {len(events)} events')
    ctx.traces(len(events))
    for rej in tr.tagged('REJECT'):
        _, line, rtid, clause = rej
        ev = events[line - 1]
        ctx.violation(f'{ev["ev"]}: {clause} ({ev.get("kind", "frequency")} input)', {'event': ev})


META = {
    'design_ref': 'DESIGN.md §5 C19',
    'technique': 'TLA+ state machine (Plateaus) model-checked by TLC; recorded executions of the real '
                 'functions validated event-by-event by TLC against the declarative definitions',
    'text': 'TLC proves, for every series within the bounds, that the cumulative-count grouping the code '
            'uses induces exactly the declarative maximal runs; the real find_plateaus/collapse_plateaus/'
            'filter_in_phase are then run on all short series of that grid and on seeded long series with '
            'float/int/datetime coordinates, and TLC judges every recorded call against the declarative '
            'operators (exact integer arithmetic, slopes exactly at the tolerance included).',
    'note': 'Trusted: TLC, scipp, the index mapping through unique coordinates; inputs are restricted to '
            'values for which float arithmetic is exact; a RuntimeError from the total-drift guard is allowed.',
}
