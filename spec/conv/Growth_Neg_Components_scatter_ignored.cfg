SPECIFICATION Spec
CONSTANTS
  Bug = "scatter_ignored"
  Order = "any"
INVARIANT AnswerIsTable
INVARIANT GivenReturnedAsIs
INVARIANT OnlyGivenInputsUsed
INVARIANT CallerUntouched
INVARIANT WorkOnlyGrows
INVARIANT NoScatterIsStraightDistance
INVARIANT ScatterIsSumOfLegs
INVARIANT SampleIrrelevantWithoutScatter
CHECK_DEADLOCK FALSE
