"""C04 — gravity-corrected scattering angles follow the documented construction on every path.

Spec: spec/conv/GravityDefs.tla (the documented raised-beam construction in exact rational
arithmetic: basis e_y = -g/|g|, e_z, e_x; b2' = b2 + delta e_y with delta = q |b2|^2; 2theta / phi /
reflectometry gamma as exact classes; the general and the optimised formula; dispatch and refusal
tables), Gravity.tla (state machine: Tilt / MoveDetector / Lift / Lower / Reorient, each followed by
the implementation-shaped Dispatch), GravityCases.tla (export), Trace_Gravity.tla (judge).

1. TLC, exhaustive on lattice setups with rational drop parameter: Raised (b2'-b2 antiparallel to g,
   length delta), IsConstruction (whatever path: the documented angles), PathsAgree (general =
   optimised on perpendicular setups), Limit (q = 0), Larger (detector above a horizontal beam:
   larger for forward detectors), ReflTable (refusal iff not perpendicular; gamma = 2theta in the
   y-z plane), Monotone and RotationInvariant (action properties).  Negative controls: drop along
   +g on the general path, optimised formula without x, reflectometry that never refuses.
2. spec -> code (M1a): every exported lattice setup is realised physically (lengths x 128 m, gravity
   64/32/16/8 x lattice vector, wavelength solved from q) and fed to scattering_angles_with_gravity /
   scattering_angle_in_yz_plane; the harness' own rational classes are re-derived by TLC.
3. physical grid (M1b): tilt family {0, +-2^-40, 2^-34, 2^-33 (just below / above the dispatch
   threshold for unit beams), 2^-20, 1e-3, 0.1, -0.1, 1 rad} x detectors in all octants x wavelength
   {0, 0.5, 1, 10, 100 angstrom} x |g| {2^-30, 9.80665, 100 m/s^2} x lattice orientations x dense /
   binned wavelength x float64 / float32, plus continuity pairs across the threshold.
4. Every evaluated element becomes one NDJSON event judged by TLC (Trace_Gravity).

Oracle (never the code under test): the construction evaluated with mpmath (60 digits) on the exact
rational values of the floats passed in; delta = |g| m_n^2 lambda^2 L2^2 / (2 h^2) with the floats
scipp exposes for h and m_n taken as exact rationals (refmap.check_constants).

Tolerance (float64): 1e-12 rad absolute.  Derivation: delta is computed with <= 6 roundings
(|g|, m_n^2/(2h^2), unit conversion, lambda^2, L2^2, products), the frame vectors and the three
components with <= 4 eps each, so the raised beam is perturbed by <= 16 eps (|b2| + delta); the angle
to a fixed direction changes by at most |perturbation| / |b2'|.  With the condition number
cond = (|b2| + delta)/|b2'| <= 64 this is 16 * 2.2e-16 * 64 = 2.3e-13, plus a few eps from
atan2/Kahan: < 1e-12.  Cases with cond > 64 (raised beam nearly vanishing; phi: projected beam
nearly on the axis) are not judged.  float32 wavelength: 1e-5 rad with cond <= 8
(16 * 6e-8 * 8 = 7.7e-6).
Interpretation (reported as deviation): an incident beam within the documented dispatch threshold of
perpendicular (0 < |g.b1| <= 1e-10 |g|) may be treated as perpendicular; this moves 2theta by at
most the tilt tau <= 1e-10/|b1| (triangle inequality on the sphere), which is added to the bound
for exactly those cases.  g = 0 has no direction (e_y undefined) and is not tested; |g| = 2^-30
probes the limit.
"""

from __future__ import annotations

import json
import math
import os
from fractions import Fraction

import mpmath
import numpy as np
import scipp as sc

from .. import lib_geom as G
from .. import refmap
from ..core import MachineryError
from ..tlc import require_ok, write_ndjson

WORKERS = min(8, int(os.environ.get('VERIF_TLC_WORKERS', '8') or 8))
TOL = 1000  # in units: 1e-15 rad (float64) / 1e-8 rad (float32)
UNIT64, UNIT32 = 1e-15, 1e-8
COND64, COND32 = 64, 8
ANGSTROM = Fraction(1, 10**10)
C_DROP = refmap.MN ** 2 / (2 * refmap.H ** 2)  # m_n^2 / (2 h^2), exact rational of the floats

RULE = ('(a) lattice setups (gravity direction with integer norm, incident beam, detector, rational drop '
        'parameter) exported by TLC and realised physically; (b) tilt x detector x wavelength x |g| x '
        'orientation x dense/binned x float32/64 grid; non-trivial = the call returned and the case is '
        'well conditioned (cond <= 64 / 8); identity = (family, integers / grid indices, variant)')

KEY_LOWERED = 'general (non-perpendicular) path: beam lowered instead of raised'


# ------------------------------------------------------------------------------ oracle
def _delta(gn, lam_m: Fraction, l2sq_m2: Fraction):
    """delta in metres (mpf): |g| * m_n^2 lambda^2 L2^2 / (2 h^2)."""
    return gn * G.to_mpf(C_DROP * lam_m * lam_m * l2sq_m2)


def _rat_classes(g, b1, b2, q: Fraction, ng: int):
    """The harness' own exact evaluation of the documented construction on a lattice setup."""
    ey = tuple(Fraction(-x, ng) for x in g)
    b1f, b2f = G.fvec(b1), G.fvec(b2)
    delta = q * G.norm2(b2f)
    raised = G.vadd(b2f, G.vscale(delta, ey))

    def cls(u, v):
        d = G.dot(u, v)
        return [G.sgn(d), G.reduce_frac(d * d, G.norm2(u) * G.norm2(v))]

    zp = G.vsub(b1f, G.vscale(G.dot(b1f, ey), ey))
    z2 = G.norm2(zp)
    ex = G.cross(ey, zp)  # |ex|^2 = z2
    y = G.dot(raised, ey)
    x2 = G.dot(raised, ex) ** 2 / z2
    zz = G.dot(raised, zp) ** 2 / z2
    sx = G.sgn(G.dot(raised, ex))
    phi = [G.sgn(y), 0, [0, 1]] if sx == 0 else [G.sgn(y), sx, G.reduce_frac(y * y, x2)]
    if G.dot(G.fvec(g), b1f) != 0:
        refl = ['refused', [0, [0, 1]]]
    elif y * y + zz == 0:
        refl = ['angle', [0, [0, 1]]]
    else:
        refl = ['angle', [G.sgn(G.dot(raised, zp)), G.reduce_frac(zz, y * y + zz)]]
    return {'tt': cls(b1f, raised), 'free': cls(b1f, b2f), 'phi': phi, 'refl': refl}


def _phi_of_class(c):
    sy, sx, (p, q) = c
    if sx == 0:
        return sy * mpmath.pi / 2
    return mpmath.atan2(sy * mpmath.sqrt(G.mpf(p)), sx * mpmath.sqrt(G.mpf(q)))


# ------------------------------------------------------------------------------ calling the code
def _call(b1, unit_b, dets, lams, lam_dtype, gvec, binned):
    """Returns dict with arrays shaped [n_det, n_lam] (tt, phi, refl or None), outcome strings."""
    from scippneutron.conversion import beamline as bl

    nd, nl = len(dets), len(lams)
    ib = sc.vector(np.asarray(b1, dtype='float64'), unit=unit_b)
    sb = sc.vectors(dims=['det'], values=np.asarray(dets, dtype='float64'), unit=unit_b)
    gv = sc.vector(np.asarray(gvec, dtype='float64'), unit='m/s^2')
    if binned:
        flat = sc.array(dims=['event'], values=np.tile(np.asarray(lams, dtype=lam_dtype), nd), unit='angstrom',
                        dtype=lam_dtype)
        begin = sc.array(dims=['det'], values=np.arange(nd) * nl, unit=None, dtype='int64')
        wl = sc.bins(dim='event', data=flat, begin=begin, end=begin + sc.index(nl))
    else:
        wl = sc.array(dims=['wavelength'], values=np.asarray(lams, dtype=lam_dtype), unit='angstrom', dtype=lam_dtype)

    def grid(v):
        if binned:
            d = v.bins.constituents['data']
            return d.values.reshape(nd, nl), d.dtype, d.unit
        return v.transpose(['det', 'wavelength']).values, v.dtype, v.unit

    out = {'returned': True, 'exc': None}
    want_dt = sc.DType.float32 if lam_dtype == 'float32' else sc.DType.float64
    try:
        r = bl.scattering_angles_with_gravity(incident_beam=ib, scattered_beam=sb, wavelength=wl, gravity=gv)
        out['tt'], dt1, u1 = grid(r['two_theta'])
        out['phi'], dt2, u2 = grid(r['phi'])
        out['dtype_ok'] = bool(dt1 == want_dt and dt2 == want_dt and u1 == sc.Unit('rad') and u2 == sc.Unit('rad'))
    except Exception as e:  # noqa: BLE001
        out.update(returned=False, exc=repr(e), dtype_ok=False)
    try:
        rr = bl.scattering_angle_in_yz_plane(incident_beam=ib, scattered_beam=sb, wavelength=wl, gravity=gv)
        out['refl'], _, _ = grid(rr)
        out['refl_kind'] = 'angle'
    except ValueError:
        out['refl'], out['refl_kind'] = None, 'refused'
    except Exception as e:  # noqa: BLE001
        out['refl'], out['refl_kind'], out['refl_exc'] = None, 'error', repr(e)
    try:
        out['free'] = bl.two_theta(incident_beam=ib, scattered_beam=sb).values
    except Exception as e:  # noqa: BLE001
        out['free'] = None
    return out


def _units(err, f32):
    return G.units_of(err, UNIT32 if f32 else UNIT64)


def _observe(res, i, j, ref, ref_low, free_ref, f32):
    """Project one element (detector i, wavelength j) to the integer observation record."""
    cond_max = COND32 if f32 else COND64
    o = {'returned': bool(res['returned']), 'dtype_ok': bool(res['dtype_ok']), 'e_tt': 0, 'e_phi': 0,
         'phi_checked': False, 'lowered': False, 'refl': res['refl_kind'], 'refl_checked': False, 'e_refl': 0,
         'cmp': 0, 'cmp_sig': False, 'e_free': 0, 'judged': False}
    if not res['returned']:
        return o
    tt, phi = float(res['tt'][i][j]), float(res['phi'][i][j])
    tol_abs = TOL * (UNIT32 if f32 else UNIT64)
    if ref['cond'] <= cond_max:
        o['judged'] = True
        o['e_tt'] = _units(G.mpf(tt) - ref['tt'], f32) if math.isfinite(tt) else 2**30
        if o['e_tt'] > TOL and math.isfinite(tt):
            # diagnosis only (selects the violation key): the result equals the construction with the
            # beam LOWERED, b2 - delta e_y, although it differs from the documented one
            o['lowered'] = bool(abs(G.mpf(tt) - ref_low['tt']) <= tol_abs)
        o['e_free'] = _units(G.mpf(tt) - free_ref, f32) if math.isfinite(tt) else 2**30
    if ref['cond_phi'] <= cond_max:
        o['phi_checked'] = True
        o['e_phi'] = _units(G.circ_dist(G.mpf(phi), ref['phi']), f32) if math.isfinite(phi) else 2**30
    if res['refl'] is not None and ref['cond_refl'] <= cond_max:
        rv = float(res['refl'][i][j])
        o['refl_checked'] = True
        o['e_refl'] = _units(G.mpf(rv) - ref['refl'], f32) if math.isfinite(rv) else 2**30
    if res['free'] is not None and math.isfinite(tt):
        d = tt - float(res['free'][i])
        o['cmp'] = 0 if abs(d) <= 4 * tol_abs else (1 if d > 0 else -1)
        o['cmp_sig'] = bool(abs(ref['tt'] - free_ref) > 16 * tol_abs) or bool(ref['tt'] == free_ref)
    return o


# ------------------------------------------------------------------------------ (a) rational lattice cases
def _replay_rational(ctx, cases, events, stats):
    S = 128  # metres per lattice unit
    groups = {}
    for c in cases:
        groups.setdefault((tuple(c['g']), tuple(c['b1'])), []).append(c)
    for (g, b1), items in sorted(groups.items()):
        ng = items[0]['ng']
        fg = {1: 64, 3: 32, 5: 16, 7: 8}[ng]
        gvec = [x * fg for x in g]
        gn_exact = fg * ng  # |g| in m/s^2 (integer)
        dets = sorted({tuple(c['b2']) for c in items})
        qs = sorted({Fraction(c['q'][0], c['q'][1]) for c in items})
        # wavelength realising q: q = |g| c lambda^2 S  (lattice units)  ->  lambda in angstrom
        lams = []
        for q in qs:
            lam_m = mpmath.sqrt(G.to_mpf(q / (gn_exact * C_DROP * S)))
            lams.append(float(lam_m * G.mpf(10) ** 10))
        if max(lams) > 100.0:
            raise MachineryError(f'wavelength outside the quantifier: {lams}')
        b1r = [x * S for x in b1]
        detr = [[x * S for x in d] for d in dets]
        res = _call(b1r, 'm', detr, lams, 'float64', gvec, binned=False)
        frame = G.gravity_frame(G.fvec(b1r), G.fvec(gvec))
        bykey = {(tuple(c['b2']), Fraction(c['q'][0], c['q'][1])): c for c in items}
        for i, d in enumerate(dets):
            l2sq = Fraction(S * S * sum(x * x for x in d))
            free_ref = G.mp_angle(frame['b1'], G.mp_vec(detr[i]))
            for j, q in enumerate(qs):
                c = bykey.get((d, q))
                if c is None:
                    continue
                lam_m = Fraction(lams[j]) * ANGSTROM
                delta = _delta(frame['gn'], lam_m, l2sq)
                ref = G.gravity_angles(frame, G.fvec(detr[i]), delta)
                ref_low = G.gravity_angles(frame, G.fvec(detr[i]), -delta)
                mine = _rat_classes(g, b1, d, q, ng)
                # the multiprecision oracle (actual floats) against the exact class (spec's q): they
                # differ only by the rounding of lambda (relative 1e-16 in delta)
                ok = abs(ref['tt'] - G.angle_of_class(mine['tt'])) < 1e-13
                if ref['cond_phi'] <= COND64:
                    ok = ok and G.circ_dist(ref['phi'], _phi_of_class(mine['phi'])) < 1e-13
                if mine['refl'][0] == 'angle' and ref['cond_refl'] <= COND64:
                    ok = ok and abs(ref['refl'] - G.angle_of_class(mine['refl'][1])) < 1e-13
                o = _observe(res, i, j, ref, ref_low, free_ref, f32=False)
                stats['worst64'] = max(stats['worst64'], o['e_tt'] if (o['judged'] and c['path'] == 'optimised') else 0)
                events.append({'ev': 'rat', 'tid': len(events), 'g': list(g), 'b1': list(b1), 'b2': list(d),
                               'q': [q.numerator, q.denominator], 'cls_tt': mine['tt'], 'cls_phi': mine['phi'],
                               'cls_free': mine['free'], 'cls_refl': mine['refl'], 'oracle_ok': bool(ok), 'o': o,
                               'in': {'incident_beam_m': b1r, 'scattered_beam_m': detr[i], 'gravity': gvec,
                                      'wavelength_angstrom': lams[j], 'got_two_theta': float(res['tt'][i][j]) if res['returned'] else None,
                                      'want_two_theta': float(ref['tt']), 'exc': res.get('exc')}})
                ctx.case(nontrivial_id=repr(('rat', g, b1, d, q)) if (o['returned'] and o['judged']) else None)


# ------------------------------------------------------------------------------ (b) physical grid
TILTS = [('0', 0.0, 1.0), ('2^-40', 2.0 ** -40, 1.0), ('-2^-40', -(2.0 ** -40), 1.0), ('2^-34', 2.0 ** -34, 1.0),
         ('2^-33', 2.0 ** -33, 1.0), ('2^-20', 2.0 ** -20, 1.0), ('1e-3', math.sin(1e-3), math.cos(1e-3)),
         ('0.1', math.sin(0.1), math.cos(0.1)), ('-0.1', -math.sin(0.1), math.cos(0.1)),
         ('1', math.sin(1.0), math.cos(1.0))]
LAMS = [0.0, 0.5, 1.0, 10.0, 100.0]  # exactly representable in float32 as well
GMAGS = [2.0 ** -30, 9.80665, 100.0]


def _tclass(b1, gvec):
    """Dispatch class by the documented rule |g.b1| > 1e-10 |g| (in the unit of b1), decided exactly."""
    gb = G.dot(G.fvec(gvec), G.fvec(b1))
    if gb == 0:
        return 'zero', G.mpf(0)
    g2, b2 = G.norm2(G.fvec(gvec)), G.norm2(G.fvec(b1))
    r = abs(G.to_mpf(gb)) / mpmath.sqrt(G.to_mpf(g2))
    tau = mpmath.asin(min(G.mpf(1), r / mpmath.sqrt(G.to_mpf(b2))))
    thr = G.mpf(10) ** -10
    if r < thr * G.mpf('0.99'):
        return 'sub', tau
    if r <= thr * G.mpf('1.01'):
        return 'band', tau
    return 'above', tau


def _replay_physical(ctx, events, stats, thorough):
    rots = G.rot24()
    if not thorough:
        rots = rots[::4]
    box = [(x, y, z) for x in (-1, 0, 1) for y in (-1, 0, 1) for z in (-1, 0, 1) if (x, y, z) != (0, 0, 0)]
    dets_l = box if thorough else [d for d in box if sum(map(abs, d)) in (1, 3)] + [(0, 1, 1), (1, -1, 0), (-1, 0, 1)]
    variants = [('float64', False), ('float32', False), ('float64', True)] + ([('float32', True)] if thorough else [])
    ldet = 2.0
    for ri, R in enumerate(rots):
        glat = G.matvec(R, (0, -1, 0))
        b1lat = G.matvec(R, (0, 0, 1))
        dets_rot = [G.matvec(R, d) for d in dets_l]
        for gi, gm in enumerate(GMAGS):
            cont = {}
            for (tname, ty, tz) in TILTS:
                unit_b, scale_b = ('m', 1.0)
                if tname == '1e-3' and ri % 2 == 1:
                    unit_b, scale_b = ('mm', 1000.0)  # same geometry expressed in millimetres
                b1 = [float(x) for x in G.matvec(R, (0.0, ty * scale_b, tz * scale_b))]
                gvec = [float(x) * gm for x in glat]
                detr = [[float(x) * ldet * scale_b for x in d] for d in dets_rot]
                tclass, tau = _tclass(b1, gvec)
                to_m = Fraction(1, 1000) if unit_b == 'mm' else Fraction(1)
                frame = G.gravity_frame(tuple(Fraction(x) * to_m for x in b1), G.fvec(gvec))
                refs = {}
                for i in range(len(detr)):
                    dm = tuple(Fraction(x) * to_m for x in detr[i])
                    l2sq = G.norm2(dm)
                    free_ref = G.mp_angle(frame['b1'], G.mp_vec(dm))
                    for j, lam in enumerate(LAMS):
                        delta = _delta(frame['gn'], Fraction(lam) * ANGSTROM, l2sq)
                        refs[i, j] = (G.gravity_angles(frame, dm, delta), G.gravity_angles(frame, dm, -delta), free_ref)
                for (ldt, binned) in variants:
                    f32 = ldt == 'float32'
                    res = _call(b1, unit_b, detr, LAMS, ldt, gvec, binned)
                    if not res['returned']:
                        ctx.violation(f'scattering_angles_with_gravity raised for tilt class {tclass}',
                                      {'exc': res['exc'], 'incident_beam': b1, 'gravity': gvec, 'unit': unit_b})
                    if res['refl_kind'] == 'error':
                        ctx.violation('scattering_angle_in_yz_plane raised an exception other than ValueError',
                                      {'exc': res.get('refl_exc'), 'incident_beam': b1, 'gravity': gvec})
                    allow = _units(tau, f32) + 1
                    for i in range(len(detr)):
                        for j, lam in enumerate(LAMS):
                            ref, ref_low, free_ref = refs[i, j]
                            o = _observe(res, i, j, ref, ref_low, free_ref, f32)
                            if o['judged'] and tclass == 'zero':
                                k = 'worst32' if f32 else 'worst64'
                                stats[k] = max(stats[k], o['e_tt'])
                            events.append({'ev': 'phys', 'tid': len(events), 'glat': list(glat), 'b1lat': list(b1lat),
                                           'det': list(dets_rot[i]), 'tilt': tname, 'tclass': tclass, 'lam_pos': lam > 0,
                                           'f32': f32, 'binned': binned, 'allow': allow, 'o': o,
                                           'in': {'incident_beam': b1, 'unit': unit_b, 'scattered_beam': detr[i],
                                                  'gravity_m_s2': gvec, 'wavelength_angstrom': lam,
                                                  'got_two_theta': float(res['tt'][i][j]) if res['returned'] else None,
                                                  'want_two_theta': float(ref['tt']), 'gravity_free': float(free_ref)}})
                            ctx.case(nontrivial_id=repr(('phys', ri, gi, tname, i, j, ldt, binned))
                                     if (o['returned'] and o['judged']) else None)
                    if ldt == 'float64' and not binned and tname in ('2^-34', '2^-33') and res['returned']:
                        cont[tname] = (res['tt'], tau)
            if len(cont) == 2:
                (below, _), (above, tau_a) = cont['2^-34'], cont['2^-33']
                for i in range(len(dets_rot)):
                    for j, lam in enumerate(LAMS):
                        d = abs(float(below[i][j]) - float(above[i][j]))
                        events.append({'ev': 'cont', 'tid': len(events), 'd': G.units_of(d, UNIT64) if math.isfinite(d) else 2**30,
                                       'tau_above': G.units_of(tau_a, UNIT64) + 1, 'glat': list(glat),
                                       'det': list(dets_rot[i]),
                                       'in': {'below': float(below[i][j]), 'above': float(above[i][j]),
                                              'wavelength_angstrom': lam, 'g_m_s2': gm}})
                        ctx.case(nontrivial_id=repr(('cont', ri, gi, i, j)))


# ------------------------------------------------------------------------------ main
def _key(ev, clause):
    if clause == 'general_path_two_theta_is_that_of_a_beam_lowered_along_gravity':
        return KEY_LOWERED
    if ev['ev'] == 'cont':
        return 'two_theta jumps between tilts just below and just above the dispatch threshold'
    if ev['ev'] == 'rat':
        path = 'perpendicular beam (optimised path)' if G.dot(ev['g'], ev['b1']) == 0 else 'tilted beam (general path)'
        return f'lattice setup, {path}: {clause}'
    var = ('float32' if ev['f32'] else 'float64') + (' binned' if ev['binned'] else ' dense')
    return f'tilt class {ev["tclass"]}, {var} wavelength: {clause}'


def run(ctx):
    ctx.rule = RULE
    refmap.check_constants()
    ctx.assume('h and m_n are the floats scipp.constants exposes, taken as exact rationals')
    ctx.assume('0 < |g.b1| <= 1e-10 |g| (documented dispatch threshold) may be treated as perpendicular: '
               'the bound is widened by the tilt angle for exactly those cases; within 1% of the threshold '
               'either path/refusal is accepted')
    ctx.assume('cases with condition number (|b2|+delta)/|b2\'| > 64 (float32: 8) are evaluated but not judged')
    ctx.assume('"larger than the gravity-free angle for detectors above a horizontal beam" is read for forward '
               'detectors (z_d > 0); for z_d = 0 the angle is unchanged and for z_d < 0 it is smaller '
               '(proved on the model, invariant Larger)')
    thorough = ctx.thorough

    # ---- 1. design
    cfg = 'MC_Gravity_thorough.cfg' if thorough else 'MC_Gravity.cfg'
    res = ctx.tlc('conv/MC_Gravity.tla', cfg, workers=WORKERS, timeout=2400)
    require_ok(ctx, res, 'Gravity model')
    for neg in ('plus_g', 'opt_no_x', 'refl_accepts'):
        ctx.tlc('conv/MC_Gravity.tla', f'Neg_Gravity_{neg}.cfg', workers=WORKERS, expect_error=True, timeout=300)

    # ---- 2. cases enumerated by TLC
    out = ctx.tmp / 'c04-cases.ndjson'
    ccfg = 'GravityCases_thorough.cfg' if thorough else 'GravityCases.cfg'
    cres = ctx.tlc('conv/GravityCases.tla', ccfg, workers=1, env={'OUT_FILE': str(out)}, timeout=900, count=False)
    require_ok(ctx, cres, 'GravityCases export')
    cases = [json.loads(line) for line in open(out)]
    tag = cres.tagged('CASES')
    if not tag or tag[0][1] != len(cases):
        raise MachineryError(f'case export incomplete: {tag} vs {len(cases)}')
    ctx.extra['cases_exported'] = len(cases)

    events = []
    stats = {'worst64': 0, 'worst32': 0}
    _replay_rational(ctx, cases, events, stats)
    n_rat = len(events)
    _replay_physical(ctx, events, stats, thorough)
    ctx.extra['worst_two_theta_error_perpendicular'] = {'float64_1e-15rad': stats['worst64'],
                                                         'float32_1e-8rad': stats['worst32'], 'tolerance': TOL}
    for e in (events[0], events[n_rat], events[-1]):
        ctx.sample(e)

    # ---- 3. TLC judges every event
    tf = ctx.tmp / 'c04.ndjson'
    write_ndjson(tf, [{k: v for k, v in e.items() if k != 'in'} for e in events])
    tr = ctx.tlc('conv/Trace_Gravity.tla', workers=1, env={'TRACE_FILE': str(tf)}, timeout=2400)
    require_ok(ctx, tr, 'Trace_Gravity')
    done = tr.tagged('DONE')
    if not done or done[0][1] != len(events):
        raise MachineryError(f'trace validation incomplete: {done} vs {len(events)} events')
    ctx.traces(len(events))
    for rej in tr.tagged('REJECT'):
        _, line, _tid, clause = rej
        ev = events[line - 1]
        if clause in ('harness_reference_differs_from_spec', 'multiprecision_oracle_differs_from_exact_class',
                      'invalid_setup', 'unknown_event'):
            raise MachineryError(f'harness and specification disagree ({clause}) on event {ev}')
        ctx.violation(_key(ev, clause), {'event': ev})


META = {
    'design_ref': 'DESIGN.md §5 C04',
    'technique': 'TLA+ model of the documented raised-beam construction in exact rational arithmetic with the two '
                 'dispatch paths as implementation-shaped operators (Gravity), model-checked by TLC; lattice setups '
                 'exported by TLC and a physical tilt/detector/wavelength/gravity grid replayed into the real '
                 'functions; every evaluation recorded and judged by TLC (Trace_Gravity)',
    'text': 'TLC proves that both the general and the optimised formula equal the raised-beam construction, the '
            'q -> 0 limit, monotonicity, rotation invariance and the refusal table of the reflectometry variant. '
            'The real scattering_angles_with_gravity / scattering_angle_in_yz_plane are evaluated on every exported '
            'lattice setup (realised physically) and on a grid of tilts straddling the dispatch threshold; the '
            'reference is the construction evaluated by mpmath on the exact inputs, the bound 1e-12 rad '
            '(1e-5 for float32 wavelengths); TLC re-derives the harness\' exact classes and judges every event.',
    'note': 'Trusted: TLC, mpmath, scipp. Numeric closeness is decided on finitely many points. Sub-threshold tilts '
            'are allowed an error of one tilt angle (documented dispatch).',
}
