--------------------------- MODULE Growth_Components ---------------------------
(* Growth module G06, part B: the accessor functions of scippneutron.beamline_components       *)
(*   position, source_position, sample_position, incident_beam, scattered_beam,                 *)
(*   L1, L2, Ltotal(scatter), two_theta                                                          *)
(* which "get or compute" one coordinate of a data array or dataset through the straight-       *)
(* beamline graph.  Two layers, written from the documentation of the accessors and of          *)
(* scippneutron.conversion.beamline (not from the code):                                         *)
(*  (a) an order-free DECISION TABLE: for the set of coordinates that are present, the target    *)
(*      and the scatter flag - is the answer the coordinate as given, derived (and by which      *)
(*      formula from which given coordinates), or refused;                                        *)
(*  (b) a small STATE MACHINE of the lookup: a working copy of the coordinates is completed rule *)
(*      by rule, in any order, until the target is known or nothing more can be computed; the    *)
(*      caller's object is a separate variable.                                                   *)
(* TLC checks that (b) always arrives at (a), whatever the order, and never touches the caller's *)
(* object.  Values are symbolic terms                                                             *)
(*     <<"given", c>> | <<"sub", a, b>> | <<"norm", a>> | <<"add", a, b>> | <<"angle", a, b>>     *)
(* which the harness evaluates in exact arithmetic on lattice geometries.                         *)
EXTENDS Integers, Sequences, FiniteSets, TLC

CONSTANTS Bug,      \* "none" | "keep_on_input" | "scatter_ignored" | "recompute"
          Order     \* "any": every enabled rule may fire next; "fixed": the first enabled rule in table order

Positions == {"position", "source_position", "sample_position"}
Coords == Positions \cup {"incident_beam", "scattered_beam", "L1", "L2", "Ltotal", "two_theta"}

(* the straight beamline (scippneutron.conversion.beamline):                                    *)
(*   incident_beam = sample_position - source_position,  scattered_beam = position - sample_position *)
(*   L1 = |incident_beam|, L2 = |scattered_beam|, Ltotal = L1 + L2,                                  *)
(*   two_theta = angle between incident_beam and scattered_beam                                       *)
(* without scattering: Ltotal = |position - source_position|, the straight distance                  *)
ScatterRules == <<
    [out |-> "incident_beam",  op |-> "sub",   in |-> <<"sample_position", "source_position">>],
    [out |-> "scattered_beam", op |-> "sub",   in |-> <<"position", "sample_position">>],
    [out |-> "L1",             op |-> "norm",  in |-> <<"incident_beam">>],
    [out |-> "L2",             op |-> "norm",  in |-> <<"scattered_beam">>],
    [out |-> "two_theta",      op |-> "angle", in |-> <<"incident_beam", "scattered_beam">>],
    [out |-> "Ltotal",         op |-> "add",   in |-> <<"L1", "L2">>] >>
NoScatterRules == <<
    [out |-> "Ltotal",         op |-> "dist",  in |-> <<"position", "source_position">>] >>

Rules(scatter) == IF scatter \/ Bug = "scatter_ignored" THEN ScatterRules ELSE NoScatterRules
RuleFor(x, scatter) == { i \in 1..Len(Rules(scatter)) : Rules(scatter)[i].out = x }
HasRule(x, scatter) == RuleFor(x, scatter) # {}
TheRule(x, scatter) == Rules(scatter)[CHOOSE i \in RuleFor(x, scatter) : TRUE]

Term(r, args) == IF r.op = "dist" THEN <<"norm", <<"sub", args[1], args[2]>>>>
                 ELSE IF Len(args) = 1 THEN <<r.op, args[1]>> ELSE <<r.op, args[1], args[2]>>

-----------------------------------------------------------------------------
(* (a) decision table.  The graphs are acyclic with depth <= 3, the recursion ends. *)
RECURSIVE Derivable(_, _, _)
Derivable(x, P, scatter) ==
    \/ x \in P
    \/ /\ HasRule(x, scatter)
       /\ \A k \in 1..Len(TheRule(x, scatter).in) : Derivable(TheRule(x, scatter).in[k], P, scatter)

RECURSIVE Value(_, _, _)
Value(x, P, scatter) ==        \* only for Derivable(x, P, scatter)
    IF x \in P THEN <<"given", x>>
    ELSE LET r == TheRule(x, scatter)
         IN Term(r, [k \in 1..Len(r.in) |-> Value(r.in[k], P, scatter)])

RECURSIVE Leaves(_)
Leaves(t) == IF t[1] = "given" THEN {t[2]}
             ELSE UNION { Leaves(t[k]) : k \in 2..Len(t) }

Outcome(x, P, scatter) == IF x \in P THEN "given" ELSE IF Derivable(x, P, scatter) THEN "derived" ELSE "refused"
Refused == <<"refused">>
Table(x, P, scatter) == IF Derivable(x, P, scatter) THEN Value(x, P, scatter) ELSE Refused

(* properties of the table alone (constant level) *)
ASSUME NothingFromNothing == \A x \in Coords : \A s \in BOOLEAN : Outcome(x, {}, s) = "refused"
ASSUME Monotone ==             \* one more coordinate never turns an answer into a refusal
    \A x \in Coords : \A s \in BOOLEAN : \A P \in SUBSET Coords : \A c \in Coords :
        Derivable(x, P, s) => Derivable(x, P \cup {c}, s)
ASSUME PositionsAreNeverComputed ==
    \A x \in Positions : \A s \in BOOLEAN : \A P \in SUBSET Coords : Outcome(x, P, s) \in {"given", "refused"}
ASSUME EverythingFromPositions ==
    \A x \in Coords : Derivable(x, Positions, TRUE)

-----------------------------------------------------------------------------
(* (b) the lookup as a state machine *)
VARIABLES present,   \* coordinates on the object handed in
          target, scatter,
          caller,    \* coordinates on the caller's object (must stay = present)
          work,      \* working copy: coordinate -> term
          phase, answer
vars == <<present, target, scatter, caller, work, phase, answer>>

Init == /\ present \in SUBSET Coords
        /\ target \in Coords
        /\ scatter \in (IF target = "Ltotal" THEN BOOLEAN ELSE {TRUE})     \* only Ltotal takes the flag
        /\ caller = present
        /\ work = [c \in (IF Bug = "recompute" /\ HasRule(target, scatter) THEN present \ {target} ELSE present)
                     |-> <<"given", c>>]
        /\ phase = "resolving"
        /\ answer = <<>>

Enabled(i) == LET r == Rules(scatter)[i]
              IN /\ r.out \notin DOMAIN work
                 /\ \A k \in 1..Len(r.in) : r.in[k] \in DOMAIN work
EnabledRules == { i \in 1..Len(Rules(scatter)) : Enabled(i) }

Fire(i) == LET r == Rules(scatter)[i]
           IN /\ phase = "resolving"
              /\ target \notin DOMAIN work
              /\ Enabled(i)
              /\ Order = "fixed" => \A j \in EnabledRules : i <= j
              /\ work' = [c \in DOMAIN work \cup {r.out} |->
                            IF c = r.out THEN Term(r, [k \in 1..Len(r.in) |-> work[r.in[k]]]) ELSE work[c]]
              /\ caller' = IF Bug = "keep_on_input" THEN caller \cup {r.out} ELSE caller
              /\ UNCHANGED <<present, target, scatter, phase, answer>>

Finish == /\ phase = "resolving"
          /\ target \in DOMAIN work \/ EnabledRules = {}
          /\ answer' = IF target \in DOMAIN work THEN work[target] ELSE Refused
          /\ phase' = "answered"
          /\ UNCHANGED <<present, target, scatter, caller, work>>

FireAny == \E i \in 1..Len(ScatterRules) : i <= Len(Rules(scatter)) /\ Fire(i)
Next == FireAny \/ Finish
Spec == Init /\ [][Next]_vars

-----------------------------------------------------------------------------
Answered == phase = "answered"

AnswerIsTable == Answered => answer = Table(target, present, scatter)           \* whatever the order
GivenReturnedAsIs == (Answered /\ target \in present) => answer = <<"given", target>>
OnlyGivenInputsUsed == (Answered /\ answer # Refused) => Leaves(answer) \subseteq present
CallerUntouched == caller = present
WorkOnlyGrows == present \ {target} \subseteq DOMAIN work
NoScatterIsStraightDistance ==
    (Answered /\ target = "Ltotal" /\ ~scatter /\ "Ltotal" \notin present) =>
        /\ (answer # Refused) <=> ({"position", "source_position"} \subseteq present)     \* no sample needed
        /\ answer # Refused =>
              answer = <<"norm", <<"sub", <<"given", "position">>, <<"given", "source_position">>>>>>
ScatterIsSumOfLegs ==
    (Answered /\ target = "Ltotal" /\ scatter /\ "Ltotal" \notin present /\ answer # Refused) =>
        /\ answer[1] = "add"
        /\ answer[2] = Table("L1", present, TRUE) /\ answer[3] = Table("L2", present, TRUE)
SampleIrrelevantWithoutScatter ==
    (Answered /\ target = "Ltotal" /\ ~scatter) =>
        answer = Table(target, present \ {"sample_position"}, FALSE)

(* export for the replay (workers = 1, Order = "fixed"): present coordinates, call, expected class and term *)
Emit == Answered => PrintT(<<"COMP", present, target, scatter, Outcome(target, present, scatter), answer>>)
=============================================================================
