INIT Init
NEXT Next
