---------------------------- MODULE Trace_Gravity ----------------------------
(* Judges recorded executions of scattering_angles_with_gravity and                       *)
(* scattering_angle_in_yz_plane (C04).  One NDJSON line per evaluated element.             *)
(*                                                                                         *)
(*  "rat"  : a lattice setup with rational drop parameter (from GravityCases), realised    *)
(*           physically by the harness.  The event carries the exact classes the harness   *)
(*           computed with its own rational implementation of the construction; TLC        *)
(*           recomputes them with GravityDefs and rejects a harness that differs.          *)
(*  "phys" : the physical grid (tilt family x detector x wavelength x gravity x            *)
(*           orientation x dense/binned x float32/64).  glat/b1lat/det are the lattice     *)
(*           vectors of gravity, of the UNTILTED incident beam and of the detector after   *)
(*           the lattice rotation; tclass is the dispatch class of the tilt.               *)
(*  "cont" : a pair of tilts just below / just above the dispatch threshold.               *)
(* Errors are integers in tolerance-relative units: 1e-15 rad for float64 results, 1e-8    *)
(* rad for float32 results, so the property's bound is Tol = 1000 in both.                 *)
EXTENDS GravityDefs, TLC, Json, IOUtils

Tr == ndJsonDeserialize(IOEnv.TRACE_FILE)
Tol == 1000

VARIABLES l, nbad
tvars == <<l, nbad>>

Setup(e) == [g |-> e.g, b1 |-> e.b1, b2 |-> e.b2, q |-> e.q]

(* numeric part common to all events; allow = extra allowance (same units) *)
Numeric(o, allow, general) ==
    IF ~o.returned THEN "raised_an_exception"
    ELSE IF ~o.dtype_ok THEN "unit_or_dtype_of_result"
    ELSE IF o.e_tt > Tol + allow /\ general /\ o.lowered
         THEN "general_path_two_theta_is_that_of_a_beam_lowered_along_gravity"
    ELSE IF o.e_tt > Tol + allow THEN "two_theta_differs_from_construction"
    ELSE IF o.phi_checked /\ o.e_phi > Tol THEN "phi_differs_from_construction"
    ELSE IF ~o.inputs_kept THEN "operand_modified_in_place"
    ELSE "ok"

ReflJudge(o, outcomes) ==
    IF o.refl \notin outcomes
    THEN (IF o.refl = "refused" THEN "reflectometry_refused_a_perpendicular_beam"
          ELSE IF o.refl = "angle" THEN "reflectometry_accepted_a_non_perpendicular_beam"
          ELSE "reflectometry_raised_another_exception")
    ELSE IF o.refl = "angle" /\ o.refl_checked /\ o.e_refl > Tol THEN "reflectometry_angle_differs"
    ELSE "ok"

CmpJudge(o, expected) ==
    IF expected \in {-1, 0, 1} /\ o.cmp_sig /\ o.cmp # expected
    THEN (IF expected = 1 THEN "not_larger_than_gravity_free_for_detector_above_horizontal_beam"
          ELSE "wrong_order_relative_to_gravity_free_angle")
    ELSE "ok"

First(a, b, c) == IF a # "ok" THEN a ELSE IF b # "ok" THEN b ELSE c

JudgeRat(e) ==
    LET s == Setup(e) IN
    IF ~ValidSetup(s) THEN "invalid_setup"
    ELSE IF e.cls_tt # TwoThetaClass(s) \/ e.cls_phi # PhiClass(s) \/ e.cls_free # FreeClass(s)
            \/ e.cls_refl # Refl(s)
         THEN "harness_reference_differs_from_spec"
    ELSE IF ~e.oracle_ok THEN "multiprecision_oracle_differs_from_exact_class"
    ELSE First(Numeric(e.o, 0, ~Perpendicular(s)),
               ReflJudge(e.o, {Refl(s)[1]}),
               CmpJudge(e.o, ExpectedCmp(s)))

(* e.tclass: dispatch class of this element's own incident beam (decides the allowance and *)
(* the expected order); e.bclass: class of the whole call = BatchClass of its pixels        *)
(* (decides the path taken and the refusal); e.form: the operand form; e.extra: allowance   *)
(* for operands re-expressed in another unit (derived in the driver).                       *)
JudgePhys(e) ==
    LET s == [g |-> e.glat, b1 |-> e.b1lat, b2 |-> e.det, q |-> IF e.lam_pos THEN <<1, 1>> ELSE <<0, 1>>]
        allow == (IF e.tclass \in {"sub", "band"} THEN e.allow ELSE 0) + e.extra
    IN  IF ~ValidGeometry(s) \/ ~Perpendicular(s) \/ ~ValidForm(e.form) THEN "invalid_setup"
        ELSE IF e.bclass # BatchClass({e.tclass} \cup (IF e.form.ib = "per_pixel_mixed" THEN {e.other_class} ELSE {}))
             THEN "invalid_setup"
        ELSE IF ~e.lam_pos /\ e.o.returned /\ e.o.e_free > Tol + allow THEN "no_gravity_free_limit_at_zero_wavelength"
        ELSE First(Numeric(e.o, allow, "general" \in PathOf(e.bclass)),
                   ReflJudge(e.o, ReflOutcomes(e.bclass)),
                   IF e.tclass = "zero" THEN CmpJudge(e.o, ExpectedCmp(s)) ELSE "ok")

(* |result(tilt just above) - result(tilt just below)| <= tilt_above + 2 Tol:            *)
(* rotating b1 by an angle t changes the angle to any fixed vector by at most t           *)
JudgeCont(e) == IF e.d > e.tau_above + 2 * Tol THEN "discontinuous_at_the_dispatch_threshold" ELSE "ok"

(* beam_aligned_unit_vectors against the frame of the specification: for a lattice setup   *)
(* TLC recomputes the integer numerators (EyN, ZpN, ExN) the harness normalised; e_frame is *)
(* the largest component error in units of 1e-16, ortho the same for the six inner products *)
FrameTol == 100    \* 1e-14: normalisations and one projection, a few eps each
JudgeFrame(e) ==
    LET s == [g |-> e.g, b1 |-> e.b1, b2 |-> <<0, 0, 1>>, q |-> <<0, 1>>] IN
    IF e.lattice /\ (Cross(e.g, e.b1) = Zero3 \/ e.want # [ey |-> EyN(s), zp |-> ZpN(s), ex |-> ExN(s)])
    THEN "harness_reference_differs_from_spec"
    ELSE IF ~e.returned THEN "beam_aligned_unit_vectors_raised"
    ELSE IF ~e.unit_ok THEN "frame_unit_or_dtype"
    ELSE IF e.e_frame > FrameTol THEN "frame_differs_from_documented_basis"
    ELSE IF e.ortho > FrameTol THEN "frame_not_orthonormal"
    ELSE "ok"

Judge(e) == CASE e.ev = "rat"  -> JudgeRat(e)
              [] e.ev = "frame" -> JudgeFrame(e)
              [] e.ev = "phys" -> JudgePhys(e)
              [] e.ev = "cont" -> JudgeCont(e)
              [] OTHER -> "unknown_event"

TInit == l = 1 /\ nbad = 0
TNext == /\ l <= Len(Tr)
         /\ l' = l + 1
         /\ LET v == Judge(Tr[l]) IN
            /\ nbad' = IF v = "ok" THEN nbad ELSE nbad + 1
            /\ (v = "ok" \/ PrintT(<<"REJECT", l, Tr[l].tid, v>>))
TSpec == TInit /\ [][TNext]_tvars
Done == (l = Len(Tr) + 1) => PrintT(<<"DONE", l - 1, nbad>>)
=============================================================================
