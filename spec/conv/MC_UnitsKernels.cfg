SPECIFICATION Spec
CONSTANTS
  TimeUnits = {"us", "s"}
  LengthUnits = {"angstrom", "m", "km"}
  EnergyUnits = {"meV", "J"}
  AngleUnits = {"rad", "deg"}
  AccelUnits <- MC_AccelQuick
  InvLengthUnits <- MC_InvQuick
  DTypeSet = {"float64", "float32", "int64"}
  Kernels <- MC_AllKernels
  WithShapes = FALSE
  Bug = "none"
INVARIANT TypeOK
INVARIANT DimensionOK
INVARIANT UnitEquivariance
INVARIANT OutUnitRule
INVARIANT DTypeRule
PROPERTY OutUnitStep
PROPERTY DTypeStep
CHECK_DEADLOCK FALSE
