SPECIFICATION Spec
CONSTANTS
  Universe <- UQ
  ArgSeq <- ArgsQ
  MaxSteps = 3
  LibKnown <- LibQ
  Bug = "tz_dropped"
  Export = FALSE
INVARIANT Admitted
CHECK_DEADLOCK FALSE
