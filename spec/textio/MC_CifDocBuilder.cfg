SPECIFICATION Spec
CONSTANTS
  MaxCalls = 3
  Bug = "none"
INVARIANT TypeOK
INVARIANT SavedReadsBack
INVARIANT NoAuthorLostOrMerged
INVARIANT EveryRoleHasOneAuthor
INVARIANT ContentInCallOrder
INVARIANT NameIsLastGiven
CHECK_DEADLOCK FALSE
