"""C11 — chopper-cascade frames are exactly the set of transmitted neutrons.

Spec: spec/chopper/ChopperCascadeDefs.tla (neutron layer + polygon layer), ChopperCascade.tla (state
machine Chop / PropagateTo holding both layers, invariants Agree, AliveIsTransmitted, Band, Regular,
OrderIndependent, TwoStepEqualsOneStep, SplitPropagation), Emit_ChopperCascade.tla (spec -> code),
Trace_ChopperCascade.tla (code -> spec).

1. TLC, exhaustive: all cascades of <= 2 (quick) / <= 3 (thorough) choppers at distances {2,4,6} with 1..2
   windows over an edge grid that makes windows cut, contain, miss and exactly touch the frames, for 2..3
   pulse rectangles, with intermediate propagations: a grid neutron is alive iff strictly inside a polygon
   of the clipping algorithm; polygons stay in the wavelength band and are regular; listing order and
   one-step/two-step evaluation do not matter.  Thorough adds random deep walks (-simulate: 5 distances,
   <= 5 choppers, <= 3 windows).  Seven negative controls (clip orientation, absolute instead of relative
   shear, windows applied to the first subframe only, unsorted choppers, tie-breaking interpolation,
   extrapolating interpolation, absolute propagation) must be rejected.
2. spec -> code (M1): every Stride-th cascade of that model is replayed into FrameSequence.from_source_pulse /
   chop (whole list in shuffled order; one chopper per call; with a propagate_to in between) / propagate_to /
   __getitem__ in physical units.  Each observed frame becomes one NDJSON event: the reported vertices mapped
   onto the integer lattice of the model, and for *every* grid neutron of the pulse whether it lies strictly
   inside a reported polygon.  TLC (Trace_ChopperCascade) decides: neutron layer for the membership, polygon
   layer for the vertices (as convex regions), flags for band / regularity / bounds.
3. code -> spec (M2): seeded random physical cascades (0..5 choppers at any even distance up to 100 units,
   also equal distances, 1..4 windows each, cutting / containing / missing / exactly touching, random programs
   of chop / propagate_to / __getitem__ calls), sampled grid neutrons (random + next to every reported vertex),
   judged by the neutron layer only.

Numeric steps outside TLC (stated once): times are divided by the tick tau = D0*lam0*m_n/h (exact rational
from the floats scipp exposes), wavelengths by lam0.  A reported vertex counts as a lattice point if it is
within 1e-9 of the largest coordinate of the frame (float error of the code: < 1e-13 relative).  Membership
of a grid neutron in the reported polygons is computed in exact integer arithmetic on the reported floats
(scaled by 2^32) after merging vertices closer than 1e-7 ticks (distinct vertices of a cascade with
distances <= 100 are >= 1e-4 ticks apart; grid neutrons are >= 0.5/sqrt(1+d^2) >= 0.005 ticks from every
edge, so rounding cannot change the answer).  Band: wavelengths within 1e-9 relative of the source band.
Regular / bounds: exact float comparisons on the reported vertices, as the property states.
Chopper window times are handed over in seconds (DESIGN 3.4).
"""

from __future__ import annotations

import json
import os
import time
from fractions import Fraction

import numpy as np
import scipp as sc

from ..core import MachineryError
from ..refmap import H, MN, check_constants
from ..tlc import require_actions, require_ok, write_ndjson
from ..lib_chopper import Background, Collector, chunked, merge_results, run_chunks

W = int(os.environ.get('VERIF_TLC_WORKERS', '16'))
PROCS = int(os.environ.get('VERIF_PROCS', '6'))

RULE = ('cascade = pulse rectangle x 0..5 choppers (even distances in model units, 1..4 disjoint windows each) x '
        'program of chop / propagate_to / __getitem__ calls x physical scale (distance unit, wavelength unit); '
        'non-trivial = some but not all grid neutrons are transmitted, or a window exactly touches the frame')

FIX = 1 << 32          # fine integer lattice for exact membership tests
MERGE = 1e-7           # ticks: vertices closer than this are one vertex
LATTICE_TOL = 1e-9     # relative to the largest coordinate of the frame
BAND_TOL = 1e-9


class Scale:
    """Physical meaning of the model units: distance D0 [m], wavelength lam0 [angstrom], time tau [s]."""

    def __init__(self, d0: Fraction, lam0: Fraction):
        self.d0, self.lam0 = d0, lam0
        self.tau = d0 * lam0 * Fraction(1, 10**10) * MN / H      # seconds per tick
        self.tau_f = float(self.tau)
        self.lam0_f = float(lam0)

    def time(self, ticks, unit='s'):
        f = {'s': 1, 'ms': 1000, 'us': 10**6}[unit]
        return sc.scalar(float(ticks * self.tau * f), unit=unit)

    def wavelength(self, w, unit='angstrom'):
        f = {'angstrom': Fraction(1), 'nm': Fraction(1, 10)}[unit]
        return sc.scalar(float(w * self.lam0 * f), unit=unit)

    def distance(self, d):
        return sc.scalar(float(d * self.d0), unit='m')


def listed(win, mode):
    """The windows of one chopper in the order they are listed in the Chopper object: the API does not
    ask for sorted windows (from_disk_chopper lists an anticlockwise multi-slit disk in decreasing
    order within a rotation), and which neutrons pass does not depend on the listing order."""
    win = list(win)
    if mode % 3 == 1:
        win.reverse()
    elif mode % 3 == 2 and len(win) > 1:
        win = win[1:] + win[:1]
    return win


def make_chopper(cc, sc_, d, win, mode=0):
    win = listed(win, mode)
    return cc.Chopper(
        distance=sc_.distance(d),
        time_open=sc.array(dims=['cutout'], values=[float(o * sc_.tau) for o, _ in win], unit='s'),
        time_close=sc.array(dims=['cutout'], values=[float(c * sc_.tau) for _, c in win], unit='s'),
    )


def source(cc, sc_, pulse, i=0):
    t0, t1, w0, w1 = pulse
    tu = ('s', 'ms', 'us')[i % 3]
    wu = ('angstrom', 'nm')[i % 2]
    return cc.FrameSequence.from_source_pulse(
        time_min=sc_.time(t0, tu), time_max=sc_.time(t1, tu),
        wavelength_min=sc_.wavelength(w0, wu), wavelength_max=sc_.wavelength(w1, wu))


# --------------------------------------------------------------------------- observation of a frame
def _vertices(frame, sc_):
    """[(t_ticks ndarray, w_ticks ndarray)] per subframe, from the reported floats."""
    out = []
    for sub in frame.subframes:
        t = np.asarray(sub.time.to(unit='s', copy=False).values, dtype='float64').ravel() / sc_.tau_f
        w = np.asarray(sub.wavelength.to(unit='angstrom', copy=False).values, dtype='float64').ravel() / sc_.lam0_f
        out.append((t, w))
    return out


def _fixed_polys(verts):
    """Vertices on the fine integer lattice, consecutive near-duplicates merged."""
    polys = []
    for t, w in verts:
        pts = []
        for a, b in zip(t, w):
            if pts and abs(a - pts[-1][2]) < MERGE and abs(b - pts[-1][3]) < MERGE:
                continue
            pts.append((int(round(a * FIX)), int(round(b * FIX)), a, b))
        while len(pts) > 1 and abs(pts[0][2] - pts[-1][2]) < MERGE and abs(pts[0][3] - pts[-1][3]) < MERGE:
            pts.pop()
        polys.append([(p[0], p[1]) for p in pts])
    return polys


def _inside(polys, te2, w2, d):
    """Grid neutron strictly inside one of the convex polygons? exact integers (doubled coordinates)."""
    px = (te2 + d * w2) * FIX      # 2 * t * FIX
    py = w2 * FIX
    for poly in polys:
        m = len(poly)
        if m < 3:
            continue
        pos = neg = False
        for i in range(m):
            ax, ay = poly[i]
            bx, by = poly[(i + 1) % m]
            cr = (2 * bx - 2 * ax) * (py - 2 * ay) - (2 * by - 2 * ay) * (px - 2 * ax)
            if cr > 0:
                pos = True
            elif cr < 0:
                neg = True
            else:
                pos = neg = True
                break
            if pos and neg:
                break
        if pos != neg:
            return True
    return False


def observe(frame, sc_, pulse, choppers, dist, L, pts, verts_wanted):
    """Event for one frame reported by the code. `choppers`: [(d, win)] applied so far (listed order)."""
    t0, t1, w0, w1 = pulse
    verts = _vertices(frame, sc_)
    fixed = _fixed_polys(verts)
    ev = {'ev': 'frame', 'L': L, 'pulse': list(pulse), 'dist': dist,
          'choppers': [{'d': d, 'win': [list(x) for x in win]} for d, win in choppers],
          'pts': [[a, b, _inside(fixed, a, b, dist)] for a, b in pts]}
    # -- vertices on the model lattice
    ev['verts'] = bool(verts_wanted)
    onl, polys = True, []
    if verts_wanted:
        big = max([1.0] + [float(np.max(np.abs(t))) for t, _ in verts] + [float(np.max(np.abs(w))) for _, w in verts])
        for t, w in verts:
            x, y = t * L, w * L
            rx, ry = np.rint(x), np.rint(y)
            if np.any(np.abs(x - rx) > LATTICE_TOL * big * L) or np.any(np.abs(y - ry) > LATTICE_TOL * big * L):
                onl = False
            polys.append([[int(a), int(b)] for a, b in zip(rx, ry)])
    ev['onlattice'], ev['polys'] = onl, polys
    # -- band (up to rounding)
    tol = BAND_TOL * max(1.0, float(w1))
    ev['band'] = all(bool(np.all(w >= w0 - tol) and np.all(w <= w1 + tol)) for _, w in verts)
    # -- regular: extreme time and extreme wavelength at the same vertex (exact, as the property says)
    reg = True
    for sub in frame.subframes:
        t = np.asarray(sub.time.values).ravel()
        w = np.asarray(sub.wavelength.values).ravel()
        reg &= bool(np.any((t == t.min()) & (w == w.min())) and np.any((t == t.max()) & (w == w.max())))
    ev['regular'] = reg
    # -- bounds available and equal to the extremes of the reported vertices
    ok = True
    detail = None
    if frame.subframes:
        try:
            b = frame.bounds()
            sb = frame.subbounds()
            ts = [np.asarray(s.time.values).ravel() for s in frame.subframes]
            ws = [np.asarray(s.wavelength.values).ravel() for s in frame.subframes]
            ok &= bool(b['time'].values[0] == min(t.min() for t in ts) and b['time'].values[1] == max(t.max() for t in ts))
            ok &= bool(b['wavelength'].values[0] == min(w.min() for w in ws)
                       and b['wavelength'].values[1] == max(w.max() for w in ws))
            st, sw = np.asarray(sb['time'].values), np.asarray(sb['wavelength'].values)
            ok &= st.shape == (len(ts), 2) and sw.shape == (len(ws), 2)
            if ok:
                for k in range(len(ts)):
                    ok &= bool(st[k, 0] == ts[k].min() and st[k, 1] == ts[k].max()
                               and sw[k, 0] == ws[k].min() and sw[k, 1] == ws[k].max())
        except Exception as e:  # noqa: BLE001
            ok = False
            detail = repr(e)
    ev['bounds'] = bool(ok)
    return ev, detail, verts


def grid_neutrons(pulse):
    t0, t1, w0, w1 = pulse
    return [(a, b) for a in range(2 * t0 + 1, 2 * t1, 2) for b in range(2 * w0 + 1, 2 * w1, 2)]


def transmitted(n, choppers):
    """Input generation only (which cascades are interesting) - never used as an oracle."""
    return all(any(2 * o < n[0] + d * n[1] < 2 * c for o, c in win) for d, win in choppers)


def _guard(ctx, shape, desc, fn):
    try:
        return fn()
    except Exception as e:  # noqa: BLE001
        ctx.violation(f'{shape}: raised {type(e).__name__} on an admissible cascade', {**desc, 'exc': repr(e)})
        return None


# --------------------------------------------------------------------------- M1: enumerated cascades
def replay_enumerated(ctx, rec, cc, case, idx, rng):
    pulse = case['pulse']
    chs = [(c['d'], [tuple(w) for w in c['win']]) for c in case['choppers']]
    L, dfin = case['L'], case['dfinal']
    sc_ = Scale(*[(Fraction(1), Fraction(1)), (Fraction(1, 2), Fraction(2)), (Fraction(5, 2), Fraction(1, 2)),
                  (Fraction(3), Fraction(1, 10))][idx % 4])
    pts = grid_neutrons(pulse)
    desc = {'pulse': pulse, 'choppers': case['choppers'], 'distance_unit_m': str(sc_.d0),
            'wavelength_unit_angstrom': str(sc_.lam0), 'expected_polygons_at_dfinal_scaled_by_L': case['expect']}
    real = [make_chopper(cc, sc_, d, win, idx + j) for j, (d, win) in enumerate(chs)]
    n = len(chs)

    def obs(frame, k, dist, shape, extra=None):
        ev, bdetail, verts = observe(frame, sc_, pulse, chs[:k], dist, L, pts, True)
        rec.add(ev, {'shape': shape, 'desc': {**desc, **(extra or {}), 'bounds_exception': bdetail,
                                              'reported_vertices_ticks': [[t.tolist(), w.tolist()] for t, w in verts]}})

    # shape A: whole list at once, in shuffled order
    order = list(range(n))
    rng.shuffle(order)
    fs0 = _guard(ctx, 'from_source_pulse', desc, lambda: source(cc, sc_, pulse, idx))
    if fs0 is None:
        return
    fsA = _guard(ctx, 'chop(list)', desc, lambda: fs0.chop([real[i] for i in order]))
    if fsA is not None:
        if len(fsA) != n + 1:
            ctx.violation('chop(list): number of frames is not number of choppers + 1', desc)
        else:
            for k in range(n + 1):
                obs(fsA[k], k, chs[k - 1][0] if k else 0, 'chop(list)', {'listed_order': order, 'frame': k})
            fin = _guard(ctx, 'propagate_to', desc, lambda: fsA.propagate_to(sc_.distance(dfin)))
            if fin is not None:
                obs(fin[-1], n, dfin, 'chop(list);propagate_to')
            # __getitem__ by distance: between the choppers and beyond the last
            stops = [0] + [d for d, _ in chs]
            for k in range(n + 1):
                dq = stops[k] + 1 if k < n else stops[k] + 3
                fr = _guard(ctx, '__getitem__(distance)', desc, lambda dq=dq: fsA[sc_.distance(dq)])
                if fr is not None:
                    obs(fr, k, dq, '__getitem__(distance)', {'asked_distance': dq})
    # shape B: one chopper per call; shape C: a propagation in between
    if n >= 1:
        def stepwise(with_prop):
            fs = fs0
            for k in range(n):
                if with_prop and chs[k][0] - (chs[k - 1][0] if k else 0) >= 2:
                    fs = fs.propagate_to(sc_.distance(chs[k][0] - 1))
                fs = fs.chop([real[k]])
            return fs.propagate_to(sc_.distance(dfin))
        fsB = _guard(ctx, 'chop;chop', desc, lambda: stepwise(False))
        if fsB is not None:
            obs(fsB[-1], n, dfin, 'chop;chop;propagate_to')
        if idx % 2 == 0:
            fsC = _guard(ctx, 'propagate_to;chop', desc, lambda: stepwise(True))
            if fsC is not None:
                obs(fsC[-1], n, dfin, 'propagate_to;chop;propagate_to')
    alive = sum(transmitted(p, chs) for p in pts)
    touch = any(o in _corner_times(pulse, d) or c in _corner_times(pulse, d) for d, win in chs for o, c in win)
    ctx.case(nontrivial_id=('e', idx) if 0 < alive < len(pts) or touch else None)


def _corner_times(pulse, d):
    t0, t1, w0, w1 = pulse
    return {t0 + d * w0, t1 + d * w0, t1 + d * w1, t0 + d * w1}


# --------------------------------------------------------------------------- M2: random physical cascades
def random_cascade(rng):
    t0 = rng.randrange(0, 200)
    t1 = t0 + rng.choice([1, 2, 7, 40, 300, 1500, 3000])
    w0 = rng.choice([0, 0, 1, 5, 40, 200])
    w1 = w0 + rng.choice([1, 2, 9, 60, 400, 700])
    pulse = (t0, t1, w0, w1)
    # a sample of neutrons to steer the windows (input generation only)
    samp = [(2 * rng.randrange(t0, t1) + 1, 2 * rng.randrange(w0, w1) + 1) for _ in range(60)]
    n = rng.choice([0, 1, 1, 2, 2, 3, 3, 4, 5])
    dists = sorted(2 * rng.randrange(1, 51) for _ in range(n))
    if n >= 2 and rng.random() < 0.15:
        dists[1] = dists[0]                       # two choppers at the same distance
    chs = []
    touching = False
    for d in dists:
        lo, hi = t0 + d * w0, t1 + d * w1
        arr = sorted((a + d * b) // 2 for a, b in samp) or [lo, hi]
        span = max(hi - lo, 4)
        nwin = rng.randrange(1, 5)
        edges = set()
        kind = rng.random()
        if kind < 0.2:                            # containing everything that is left
            cand = [(min(arr[0], lo) - rng.randrange(0, 5), max(arr[-1], hi) + 1 + rng.randrange(0, 5))]
        elif kind < 0.3:                          # missing
            cand = [(hi + 1 + rng.randrange(0, 9), hi + 10 + rng.randrange(1, 50))]
            if rng.random() < 0.5:
                cand = [(lo - 60, lo - 1 - rng.randrange(0, 9))]
        else:                                     # cutting, with exactly touching edges mixed in
            special = [lo, hi, t0 + d * w1, t1 + d * w0] + [e for pd, pw in chs for w in pw for e in w]
            while len(edges) < 2 * nwin:
                r = rng.random()
                if r < 0.25:
                    edges.add(rng.choice(special))
                    touching = True
                elif r < 0.8:
                    edges.add(rng.choice(arr) + rng.randrange(-2, 3))
                else:
                    edges.add(lo + rng.randrange(-span // 4 - 2, span + span // 4 + 3))
            es = sorted(edges)
            cand = [(es[2 * i], es[2 * i + 1]) for i in range(nwin)]
        chs.append((d, cand))
        samp = [p for p in samp if transmitted(p, [(d, cand)])]
    dfin = (dists[-1] if dists else 0) + rng.choice([0, 1, 2, 7, 30, 111])
    return pulse, chs, dfin, touching


def run_program(ctx, rng, cc, sc_, pulse, chs, dfin, desc):
    """Random program of chop / propagate_to calls over the sorted cascade.  Returns the FrameSequence and
    for each of its frames (distance, number of choppers applied)."""
    fs = source(cc, sc_, pulse, rng.randrange(6))
    meta = [(0, 0)]
    k = 0
    n = len(chs)
    calls = []
    while k < n:
        take = rng.randrange(1, n - k + 1)
        # equal distances must stay in one call or in listed order: both are fine, the sort is stable
        group = list(range(k, k + take))
        rng.shuffle(group)
        if rng.random() < 0.35 and chs[k][0] > meta[-1][0]:
            dmid = rng.randrange(meta[-1][0], chs[k][0] + 1)
            if dmid > meta[-1][0] or rng.random() < 0.3:
                fs = fs.propagate_to(sc_.distance(dmid))
                meta.append((dmid, meta[-1][1]))
                calls.append(['propagate_to', dmid])
        fs = fs.chop([make_chopper(cc, sc_, *chs[i], mode=rng.randrange(3)) for i in group])
        calls.append(['chop', group])
        for j in range(k, k + take):
            meta.append((chs[j][0], j + 1))
        k += take
    return fs, meta, calls


def replay_random(ctx, rec, cc, t, rng):
    pulse, chs, dfin, touching = random_cascade(rng)
    sc_ = Scale(rng.choice([Fraction(1, 4), Fraction(1, 2), Fraction(1)]),
                rng.choice([Fraction(1, 64), Fraction(1, 32), Fraction(1, 100)]))
    desc = {'pulse': pulse, 'choppers': [{'d': d, 'win': w} for d, w in chs], 'dfinal': dfin,
            'distance_unit_m': str(sc_.d0), 'wavelength_unit_angstrom': str(sc_.lam0)}
    out = _guard(ctx, 'random program of chop/propagate_to', desc, lambda: run_program(ctx, rng, cc, sc_, pulse, chs, dfin, desc))
    if out is None:
        return
    fs, meta, calls = out
    desc['calls'] = calls
    if len(fs) != len(meta):
        ctx.violation('random program: unexpected number of frames', desc)
        return
    t0, t1, w0, w1 = pulse
    base = [(2 * rng.randrange(t0, t1) + 1, 2 * rng.randrange(w0, w1) + 1) for _ in range(120)]

    def pts_for(frame, dist):
        pts = set(base)
        for tt, ww in _vertices(frame, sc_):          # the grid neutrons next to every reported vertex
            for a, b in zip(tt, ww):
                wb = int(np.floor(b))
                for w2 in (2 * wb - 1, 2 * wb + 1, 2 * wb + 3):
                    te = a - dist * (w2 / 2.0)
                    tb = int(np.floor(te))
                    for te2 in (2 * tb - 1, 2 * tb + 1, 2 * tb + 3):
                        if 2 * t0 < te2 < 2 * t1 and 2 * w0 < w2 < 2 * w1:
                            pts.add((te2, w2))
        lst = sorted(pts)
        return lst[::len(lst) // 400 + 1]

    observed = []
    last = _guard(ctx, 'propagate_to', desc, lambda: fs.propagate_to(sc_.distance(dfin))[-1])
    if last is not None:
        observed.append((last, len(chs), dfin, 'program;propagate_to'))
    # a stored frame (not one between two choppers at the same distance: which of the two the code applies first
    # is not determined by the property)
    unamb = [j for j, (_, k) in enumerate(meta) if not (0 < k < len(chs) and chs[k - 1][0] == chs[k][0])]
    j = rng.choice(unamb)
    observed.append((fs[j], meta[j][1], meta[j][0], 'program;frames[k]'))
    # __getitem__ by distance (the frame in force at that distance)
    dq = 2 * rng.randrange(0, dfin // 2 + 2) + 1      # odd: never exactly at a chopper (even distances)
    kq = max(i for i, (d, _) in enumerate(meta) if d <= dq)
    fr = _guard(ctx, '__getitem__(distance)', desc, lambda: fs[sc_.distance(dq)])
    if fr is not None:
        observed.append((fr, meta[kq][1], dq, 'program;__getitem__(distance)'))
    nt = False
    for frame, k, dist, shape in observed:
        pts = pts_for(frame, dist)
        ev, bdetail, verts = observe(frame, sc_, pulse, chs[:k], dist, 1, pts, False)
        rec.add(ev, {'shape': shape, 'desc': {**desc, 'observed_distance': dist, 'bounds_exception': bdetail,
                                              'reported_vertices_ticks': [[t_.tolist(), w_.tolist()] for t_, w_ in verts]}})
        ins = sum(1 for p in ev['pts'] if p[2])
        nt |= 0 < ins < len(pts)
    ctx.case(nontrivial_id=('r', t) if nt or touching else None)


def _count_simulated(ctx, res):
    """States checked by a -simulate run (tlc.py only parses the summary line of exhaustive runs)."""
    import re

    m = re.findall(r'The number of states generated: (\d+)', res.out)
    if m:
        ctx.extra['simulated_states'] = ctx.extra.get('simulated_states', 0) + int(m[-1])
        ctx.states += int(m[-1])
        ctx.transitions += int(m[-1])


def worker(tasks):
    """Replay a chunk of tasks in this process."""
    import random

    from scippneutron.tof import chopper_cascade as cc

    col = Collector()
    for kind, case, i, seed in tasks:
        if kind == 'enum':
            replay_enumerated(col, col, cc, case, i, random.Random(seed))
        else:
            replay_random(col, col, cc, i, random.Random(seed))
    return col.export()


def run(ctx):
    check_constants()
    ctx.rule = RULE
    ctx.assume('chopper window times are passed in seconds and chopper distances in metres (unit handling of '
               'Chopper is not part of the property)')
    ctx.assume('grid neutrons (half-integer emission time and wavelength, even distances) are at least 0.005 ticks '
               'away from every polygon edge, so float rounding of the reported vertices cannot change membership')
    ctx.assume('windows of one chopper are disjoint; frames without subframes are not asked for bounds')
    th = ctx.thorough
    # ------------------------------------------------------------------ 1. design (runs while 2. and 3. replay)
    def design():
        res = ctx.tlc('chopper/MC_ChopperCascade.tla', 'MC_ChopperCascade.cfg', workers=W, timeout=1800,
                      coverage=True)
        require_ok(ctx, res, 'ChopperCascade model')
        require_actions(res, ['ChopAny', 'PropagateTo'])
        if th:
            res = ctx.tlc('chopper/MC_ChopperCascade.tla', 'MC_ChopperCascade_thorough.cfg', workers=W, timeout=2400)
            require_ok(ctx, res, 'ChopperCascade model (thorough bounds)')
        for bug in ('orientation', 'absdist', 'firstonly', 'nosort', 'tiebreak', 'interpsign', 'propabs'):
            ctx.tlc('chopper/MC_ChopperCascade.tla', f'Neg_ChopperCascade_{bug}.cfg', workers=4, expect_error=True,
                    timeout=600)
        if th:
            sim = ctx.tlc('chopper/MC_ChopperCascade.tla', 'MC_ChopperCascade_sim.cfg', workers=W, timeout=900,
                          simulate='num=2000', depth=9, extra=['-seed', str(ctx.seed + 11)])
            require_ok(ctx, sim, 'ChopperCascade deep random walks')
            _count_simulated(ctx, sim)

    with Background(design):
        time.sleep(0.3)   # distinct scratch directory names for the two TLC processes
        # ------------------------------------------------------------------ 2. spec -> code
        out = str(ctx.tmp / 'c11-cases.ndjson')
        em = ctx.tlc('chopper/MC_Emit_ChopperCascade.tla',
                     'MC_Emit_ChopperCascade_thorough.cfg' if th else 'MC_Emit_ChopperCascade.cfg',
                     workers=2, env={'OUT_CASES': out}, timeout=900, count=False)
        require_ok(ctx, em, 'Emit_ChopperCascade')
        cases = [json.loads(line) for line in open(out) if line.strip()]
        emitted = em.tagged('EMITTED')
        if not emitted or emitted[0][1] != len(cases):
            raise MachineryError(f'emitted cases incomplete: {emitted} vs {len(cases)}')
        ctx.extra['emitted_cascades'] = len(cases)
        rng = ctx.rng
        tasks = [('enum', case, i, rng.getrandbits(48)) for i, case in enumerate(cases)]
        n_enum = len(tasks)
        # -------------------------------------------------------------- 3. code -> spec, random physical cascades
        tasks += [('random', None, t, rng.getrandbits(48)) for t in range(2500 if th else 400)]
        results = run_chunks(worker, chunked(tasks[:n_enum], 60) + chunked(tasks[n_enum:], 50), PROCS)
        events, info, _ = merge_results(ctx, results)
        n_m1 = sum(len(r['events']) for r in results[:len(chunked(tasks[:n_enum], 60))])
    ctx.extra['events_enumerated'] = n_m1
    ctx.extra['events_random'] = len(events) - n_m1
    for e in events[5:6] + events[n_m1 // 2:n_m1 // 2 + 1] + events[-1:]:
        ctx.sample(e)
    # ------------------------------------------------------------------ 4. TLC judges every observed frame
    tf = ctx.tmp / 'c11.ndjson'
    write_ndjson(tf, events)
    tr = ctx.tlc('chopper/Trace_ChopperCascade.tla', workers=1, env={'TRACE_FILE': str(tf)}, timeout=2400)
    require_ok(ctx, tr, 'Trace_ChopperCascade')
    done = tr.tagged('DONE')
    if not done or done[0][1] != len(events):
        raise MachineryError(f'trace validation incomplete: {done} vs {len(events)} events')
    ctx.traces(len(events))
    for _, line, _tid, clause in tr.tagged('REJECT'):
        ev, inf = events[line - 1], info[line - 1]
        if clause.startswith('driver_error') or clause == 'unknown_event':
            raise MachineryError(f'bad event {ev}: {clause}')
        if clause in ('subframe_not_regular', 'bounds_unavailable_or_wrong', 'polygon_leaves_wavelength_band'):
            key = f'{clause} (frame produced by FrameSequence.chop)'
        else:
            key = f'{inf["shape"]}: {clause}'
        ctx.violation(key, {'event': ev, 'shape': inf['shape'], **inf['desc']})
    # ------------------------------------------------------------------ 5. the judge is sensitive
    rejected = {line for _, line, _t, _c in tr.tagged('REJECT')}
    good = [e for i, e in enumerate(events[:n_m1]) if (i + 1) not in rejected and e['pts']
            and any(len({tuple(v) for v in p}) >= 3 for p in e['polys'])]
    if good:
        import copy
        a, b = copy.deepcopy(good[0]), copy.deepcopy(good[len(good) // 2])
        a['pts'][len(a['pts']) // 2][2] = not a['pts'][len(a['pts']) // 2][2]
        k = next(i for i, p in enumerate(b['polys']) if len({tuple(v) for v in p}) >= 3)
        b['polys'][k][0][0] += 5 * b['L']
        tf2 = ctx.tmp / 'c11-corrupted.ndjson'
        write_ndjson(tf2, [good[0], a, b])
        tr2 = ctx.tlc('chopper/Trace_ChopperCascade.tla', workers=1, env={'TRACE_FILE': str(tf2)}, timeout=600,
                      count=False)
        bad = sorted(r[1] for r in tr2.tagged('REJECT'))
        if bad != [2, 3]:
            raise MachineryError(f'trace specification is not sensitive: corrupted events 2, 3 -> rejected {bad}')
        ctx.extra['corrupted_events_rejected'] = [r[3] for r in tr2.tagged('REJECT')]

    # ---------------------------------------------------------------- growth: NeXus chopper field validation
    # (extract_chopper_from_nexus / DiskChopper.from_nexus), derived quantities of cascade frames (bounds,
    # subbounds, start/end times, propagate_by, acceptance diagram) on the cascade model of this check, SVG slit
    # geometry (spec/chopper/Growth_*.tla; deviations are GROWTH-FINDINGs, not violations of C11)
    from .. import lib_growth_chopper
    lib_growth_chopper.run(ctx)


META = {
    'design_ref': 'DESIGN.md §5 C11',
    'technique': 'TLA+ state machine (ChopperCascade) holding a neutron-by-neutron transmission model and the '
                 'polygon-clipping procedure side by side, model-checked by TLC; TLC-enumerated cascades replayed '
                 'into FrameSequence / Frame and every observed frame judged by a TLC trace specification',
    'text': 'TLC proves, for all cascades of up to 3 choppers with 1..2 windows on an edge grid that cuts, contains, '
            'misses and exactly touches the frames (plus random deep walks up to 5 choppers), that a grid neutron is '
            'transmitted iff it is strictly inside a polygon of the shear-and-clip procedure, that the polygons stay in '
            'the wavelength band and are regular, and that listing order and one-step/two-step evaluation do not '
            'matter; seven wrong variants are rejected.  The real FrameSequence API is driven with the enumerated '
            'cascades (several call shapes, physical units) and with seeded random physical cascades of 0..5 choppers '
            'and random programs; for each observed frame TLC decides the membership of grid neutrons (neutron layer), '
            'the vertices as convex regions on the model lattice (polygon layer), band, regularity and bounds.',
    'note': 'Trusted: TLC, the exact-integer point-in-polygon test of the harness on the reported floats, the mapping '
            'of vertices onto the model lattice within 1e-9 relative.  Chopper times in seconds, distances in metres; '
            'windows of one chopper disjoint; empty frames are not asked for bounds.',
}
