--------------------------- MODULE KinematicsDefs ---------------------------
(* State-free definitions of elastic time-of-flight kinematics (property C01), written from *)
(* the physics and the documentation of scippneutron.conversion.tof / .graph.tof, in        *)
(* natural units h = m_n = 1 and exact rational arithmetic.                                  *)
(*                                                                                            *)
(* A neutron is described by a grid point (t, L, s): time of flight t, flight path L and      *)
(* s = sin(theta), theta = half the scattering angle (theta in (0, pi/2]).  Quantities:       *)
(*    tof          t                                                                          *)
(*    wavelength   lambda = h t / (m_n L)                 = t / L                             *)
(*    energy       E = m_n L^2 / (2 t^2) = h^2/(2 m_n lambda^2)   = L^2 / (2 t^2)            *)
(*    dspacing     d = lambda / (2 sin theta)             = t / (2 s L)                       *)
(*    Q            Q = 4 pi sin theta / lambda            = pi * (4 s L / t)                  *)
(* Q is carried as its rational coefficient of pi.                                            *)
EXTENDS KinRat, Sequences

Kinds   == {"tof", "wavelength", "energy", "Q", "dspacing"}
Origins == {"energy", "tof", "Q", "wavelength"}

(* ---- the physics: canonical value of every quantity at a grid point -------------------- *)
Canon(kind, t, L, s) ==
    CASE kind = "tof"        -> RInt(t)
      [] kind = "wavelength" -> Norm(<<t, L>>)
      [] kind = "energy"     -> Norm(<<L * L, 2 * t * t>>)
      [] kind = "dspacing"   -> RDiv(<<t, L>>, RMul(RInt(2), s))
      [] kind = "Q"          -> RDiv(RMul(RInt(4), s), <<t, L>>)

(* ---- the documented kernels (one formula each, as in the docstrings) --------------------- *)
(* Bug selects a wrong variant of one kernel (negative controls).                            *)
KEval(ker, x, L, s, Bug) ==
    CASE ker = "wavelength_from_tof"      -> RDiv(x, RInt(L))
      [] ker = "dspacing_from_tof"        -> RDiv(x, RMul(RInt(2 * L), s))
      [] ker = "energy_from_tof"          -> RDiv(RInt(L * L), RMul(RInt(2), RSq(x)))
      [] ker = "energy_from_wavelength"   ->
             IF Bug = "efactor" THEN RInv(RSq(x))                  \* h^2/(m lambda^2): factor 1/2 lost
             ELSE RInv(RMul(RInt(2), RSq(x)))
      [] ker = "wavelength_from_energy"   -> ExactSqrt(RInv(RMul(RInt(2), x)))
      [] ker = "Q_from_wavelength"        -> RDiv(RMul(RInt(4), s), x)
      [] ker = "wavelength_from_Q"        ->
             IF Bug = "qtwopi" THEN RDiv(RMul(RInt(2), s), x)      \* 2 pi instead of 4 pi
             ELSE RDiv(RMul(RInt(4), s), x)
      [] ker = "dspacing_from_wavelength" -> RDiv(x, RMul(RInt(2), s))
      [] ker = "dspacing_from_energy"     -> RDiv(ExactSqrt(RInv(RMul(RInt(8), x))), s)

(* data input / output quantity and auxiliary operands of each scalar kernel *)
KernelSig ==
    [ wavelength_from_tof      |-> [in |-> "tof",        out |-> "wavelength", aux |-> {"Ltotal"}],
      dspacing_from_tof        |-> [in |-> "tof",        out |-> "dspacing",   aux |-> {"Ltotal", "two_theta"}],
      energy_from_tof          |-> [in |-> "tof",        out |-> "energy",     aux |-> {"Ltotal"}],
      energy_from_wavelength   |-> [in |-> "wavelength", out |-> "energy",     aux |-> {}],
      wavelength_from_energy   |-> [in |-> "energy",     out |-> "wavelength", aux |-> {}],
      Q_from_wavelength        |-> [in |-> "wavelength", out |-> "Q",          aux |-> {"two_theta"}],
      wavelength_from_Q        |-> [in |-> "Q",          out |-> "wavelength", aux |-> {"two_theta"}],
      dspacing_from_wavelength |-> [in |-> "wavelength", out |-> "dspacing",   aux |-> {"two_theta"}],
      dspacing_from_energy     |-> [in |-> "energy",     out |-> "dspacing",   aux |-> {"two_theta"}] ]
ScalarKernels == DOMAIN KernelSig

(* ---- the conversion graph per origin, transcribed from the module documentation --------- *)
(* target |-> kernel.  The scalar part (used by the walk) and the vector / hkl part (only    *)
(* compared as names with the real tables).                                                  *)
EdgeTable ==
    [ energy     |-> [dspacing |-> "dspacing_from_energy", wavelength |-> "wavelength_from_energy"],
      tof        |-> [dspacing |-> "dspacing_from_tof", energy |-> "energy_from_tof",
                      Q |-> "Q_from_wavelength", wavelength |-> "wavelength_from_tof"],
      Q          |-> [wavelength |-> "wavelength_from_Q"],
      wavelength |-> [dspacing |-> "dspacing_from_wavelength", energy |-> "energy_from_wavelength",
                      Q |-> "Q_from_wavelength"] ]

(* non-scalar entries: <<key, kernel>>, key written as the names joined with ","            *)
VectorEdges(o) ==
    LET common == { <<"hkl_vec", "hkl_vec_from_Q_vec">>, <<"h,k,l", "hkl_elements_from_hkl_vec">>,
                    <<"ub_matrix", "ub_matrix_from_u_and_b">>, <<"Q_vec", "Q_vec_from_Q_elements">>,
                    <<"Qx,Qy,Qz", "Q_elements_from_wavelength">> }
    IN CASE o = "tof"        -> common \cup { <<"time_at_sample", "time_at_sample_from_tof">> }
         [] o = "wavelength" -> common
         [] OTHER            -> {}

AllEdges(o) == { <<k, EdgeTable[o][k]>> : k \in DOMAIN EdgeTable[o] } \cup VectorEdges(o)

(* ---- documented output units ------------------------------------------------------------ *)
(* wavelength, dspacing: angstrom; energy: meV; Q: inverse of the unit of the wavelength     *)
(* supplied.  Unit names are the harness' canonical names.                                   *)
OutUnit(target, unitIn) ==
    CASE target = "wavelength" -> "angstrom"
      [] target = "dspacing"   -> "angstrom"
      [] target = "energy"     -> "meV"
      [] target = "Q"          -> "1/" \o unitIn

(* precision class: single iff the data operand is single *)
OutDType(dtIn) == IF dtIn = "float32" THEN "float32" ELSE "float64"

(* ---- refinement mapping data: physical value = rational * Lambda^a * H^b * MN^c * pi^d --- *)
(* Lambda is the free wavelength scale of a physical scenario (lambda_phys = Lambda * t/L).  *)
PhysDim ==
    [ wavelength |-> <<1, 0, 0, 0>>,
      dspacing   |-> <<1, 0, 0, 0>>,
      energy     |-> <<-2, 2, -1, 0>>,
      Q          |-> <<-1, 0, 0, 1>> ]
(* exponent of s = sin(theta) in each quantity (the angle handed to the code is a float) *)
SinExp == [ wavelength |-> 0, energy |-> 0, dspacing |-> -1, Q |-> 1, tof |-> 0 ]
=============================================================================
