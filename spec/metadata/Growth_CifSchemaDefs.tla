------------------------ MODULE Growth_CifSchemaDefs ------------------------
(* GROWTH: which dictionaries a written CIF data block declares in its                      *)
(* _audit_conform.dict_{name,version,location} loop.                                        *)
(* From the documentation of cif.Chunk / Loop / Block ("schema: CIF schemas used for the     *)
(* chunk/loop/block.  Content is not checked against the schema, but the schema is written   *)
(* to the file"), the `schema` properties ("CIF schemas used for the object") and the        *)
(* comment "core is needed to encode schema itself":                                        *)
(*   - every object declares a SET of schemas: nothing (schema=None), one schema, or any     *)
(*     non-empty iterable of schemas (duplicates collapse);                                  *)
(*   - an object that declares anything also declares coreCIF;                               *)
(*   - a block uses its own schemas and those of all its items; copies are independent;      *)
(*   - the written loop has exactly one row per used schema, each row the (name, version,    *)
(*     location) of that schema, and is absent when no schema is used;                       *)
(*   - the high-level builder always writes an audit chunk (coreCIF) and uses pdCIF exactly   *)
(*     when reduced powder data or a powder calibration was added.                           *)
EXTENDS Integers, Sequences, FiniteSets

CONSTANT Bug     \* "none" | "copy_shares_items" | "core_not_added"   (negative controls)

Schemas == {"core", "pd", "x", "y"}
NoDecl == [declared |-> FALSE, set |-> {}]
Decl(S) == [declared |-> TRUE, set |-> S]
Decls == {NoDecl} \cup {Decl(S) : S \in (SUBSET Schemas) \ {{}}}

(* the schemas an object with declaration d uses *)
Eff(d) == IF ~d.declared THEN {}
          ELSE IF Bug = "core_not_added" THEN d.set ELSE d.set \cup {"core"}

(* a block = [own |-> declaration, items |-> sequence of declarations] *)
BlockSchema(b) == Eff(b.own) \cup UNION {Eff(b.items[j]) : j \in 1..Len(b.items)}

(* rows of the conformance loop as a bag: exactly one row per schema *)
RowsOk(rows, want) == /\ {rows[i] : i \in 1..Len(rows)} = want
                      /\ Len(rows) = Cardinality(want)

(* high-level builder: npd = number of powder data / calibration items added.  The file     *)
(* always uses coreCIF (audit chunk, written on save) and pdCIF iff npd > 0; the builder's    *)
(* `schema` property ("CIF schemas used for the file") may leave out coreCIF before the audit *)
(* chunk exists but must tell whether pdCIF is used.                                         *)
BuilderSchema(npd) == IF npd > 0 THEN {"core", "pd"} ELSE {"core"}
BuilderPropOk(prop, npd) == prop \subseteq BuilderSchema(npd) /\ (("pd" \in prop) = (npd > 0))
=============================================================================
