#!/bin/sh
# tools/selftest_benign.sh [file.diff ...] — false-alarm self-test: every patch under mutants/benign/ is a
# property-PRESERVING change (refactoring, equivalent formula, permitted freedom of the output format);
# the quick checks of the properties it touches (mutants/benign/index.json) must stay silent (exit 0).
cd "$(dirname "$0")/.."
files="$*"
[ -n "$files" ] || files=$(ls mutants/benign/*.diff)
for f in $files; do
  ids=$(python3 - "$f" <<'PY'
import json,sys,os
idx=json.load(open('/verif/mutants/benign/index.json'))
b=os.path.basename(sys.argv[1])
for e in idx:
    if e['file']==b: print(' '.join(e['properties_touched']))
PY
)
  for id in $ids; do
    out=$(tools/mutant_run.sh "$f" "$id" quick 2>&1)
    rc=$(echo "$out" | grep -o 'exit=[0-9]*' | tail -1)
    case "$rc" in
      exit=0) echo "$id $f silent";;
      exit=1) echo "$id $f ALARM: $(echo "$out" | grep -m2 'key=' | tr '\n' ' ' | cut -c1-300)";;
      *) echo "$id $f $rc (machinery or patch does not apply)";;
    esac
  done
done
