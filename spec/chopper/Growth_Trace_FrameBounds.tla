------------------------ MODULE Growth_Trace_FrameBounds ------------------------
(* Code -> spec.  Judges derived quantities observed on the real scippneutron API for seeded   *)
(* random PHYSICAL cascades far beyond the exhaustive bounds (one NDJSON line per observed     *)
(* frame, written by harness/lib_growth_chopper.py; integers and booleans only) with the       *)
(* NEUTRON layer of ChopperCascadeDefs alone.  An event says which cascade was applied (pulse, *)
(* choppers in listed order, distance of the observed frame) and, for sampled grid neutrons    *)
(* <<te2, w2, inbounds, insub, inacc>>, what the code's numbers say about the neutron:         *)
(*   inbounds  arrival time and wavelength strictly inside Frame.bounds()                       *)
(*   insub     ... strictly inside the box of one row of Frame.subbounds()                      *)
(*   inacc     (emission time, wavelength) strictly inside a polygon of the frame propagated    *)
(*             back to the source (what acceptance_diagram draws)                               *)
(* and flags measured on the reported floats (meaning in the harness docstring):                *)
(*   nonempty, extremes, insource, linear, inverse                                              *)
EXTENDS Growth_FrameBoundsDefs, TLC, Json, IOUtils

Tr == ndJsonDeserialize(IOEnv.TRACE_FILE)

VARIABLES l, nbad
tvars == <<l, nbad>>

JudgeBounds(e) ==
    LET cs == e.choppers
        P  == 1..Len(e.pts)
        T(i) == Transmitted(<<e.pts[i][1], e.pts[i][2]>>, cs)
    IN  IF \E i \in P : e.pts[i][1] % 2 = 0 \/ e.pts[i][2] % 2 = 0
             \/ \E k \in 1..Len(cs) : cs[k].d % 2 # 0
          THEN "driver_error_grid"
        ELSE IF ~e.nonempty /\ \E i \in P : T(i) THEN "transmitted_neutron_but_frame_without_subframes"
        ELSE IF \E i \in P : T(i) /\ ~e.pts[i][3] THEN "transmitted_neutron_outside_frame_bounds"
        ELSE IF \E i \in P : T(i) /\ ~e.pts[i][4] THEN "transmitted_neutron_outside_every_subframe_box"
        ELSE IF \E i \in P : T(i) /\ ~e.pts[i][5] THEN "transmitted_neutron_outside_acceptance_polygons"
        ELSE IF \E i \in P : ~T(i) /\ e.pts[i][5] THEN "blocked_neutron_inside_an_acceptance_polygon"
        ELSE IF ~e.extremes THEN "bounds_are_not_the_extremes_of_the_vertices"
        ELSE IF ~e.insource THEN "acceptance_polygon_leaves_the_source_pulse"
        ELSE IF ~e.linear THEN "start_or_end_time_not_linear_in_distance"
        ELSE IF ~e.inverse THEN "propagate_by_minus_delta_does_not_invert"
        ELSE "ok"

Judge(e) == IF e.ev = "bounds" THEN JudgeBounds(e) ELSE "unknown_event"

TInit == l = 1 /\ nbad = 0
TNext == /\ l <= Len(Tr)
         /\ l' = l + 1
         /\ LET v == Judge(Tr[l]) IN
            /\ nbad' = IF v = "ok" THEN nbad ELSE nbad + 1
            /\ (v = "ok" \/ PrintT(<<"REJECT", l, Tr[l].tid, v>>))
TSpec == TInit /\ [][TNext]_tvars
Done == (l = Len(Tr) + 1) => PrintT(<<"DONE", l - 1, nbad>>)
=============================================================================
