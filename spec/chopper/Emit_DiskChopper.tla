-------------------------- MODULE Emit_DiskChopper --------------------------
(* Spec -> code (conformance mode M1).  TLC evaluates, at constant level, the bounded set   *)
(* of configurations of the DiskChopper model together with the exact expected answers and  *)
(* writes them as NDJSON; harness/drivers/c10.py replays each line into the real            *)
(* scippneutron API.  Three files:                                                           *)
(*   OUT_SLITS   slit sets (valid and invalid, one offending slit) + declarative verdict     *)
(*   OUT_CASES   valid configurations + reported pairs by the documented formulas            *)
(*   OUT_RATIOS  frequency ratios num/den + in-phase verdict                                 *)
EXTENDS DiskChopperDefs, TLC, Json, IOUtils, SequencesExt

CONSTANTS K, MaxSlits, BeamPos, Phases, Ratios, MaxPulses,
          Stride,       \* every Stride-th (slit set, setup) combination is emitted
          SlitStride    \* every SlitStride-th invalid slit set with > 2 slits is emitted

VARIABLE dummy

Slit == { s \in (0..(K-1)) \X (1..(2*K-1)) : s[1] < s[2] /\ s[2] - s[1] < K }

(* all slit sequences (begin non-decreasing) whose proper prefixes are valid                *)
RECURSIVE SlitSeqs(_)
SlitSeqs(n) ==
    IF n = 1 THEN { <<s>> : s \in Slit }
    ELSE LET P == { p \in SlitSeqs(n-1) : ValidSlits(p, K) }
         IN { Append(ps[1], ps[2]) : ps \in { q \in P \X Slit : q[2][1] >= q[1][Len(q[1])][1] } }

AllSeqs   == UNION { SlitSeqs(n) : n \in 1..MaxSlits }
ValidSeqs == { p \in AllSeqs : ValidSlits(p, K) }

WrapOnly(p) == ~ValidSlits(p, K) /\ ProcValid(p, K, "nowrap")

SlitRecords ==
    LET all == SetToSeq(AllSeqs)
    IN SelectSeq([ i \in 1..Len(all) |->
                     [ slits |-> all[i], K |-> K, valid |-> ValidSlits(all[i], K),
                       wraponly |-> WrapOnly(all[i]),
                       keep |-> (Len(all[i]) <= 2 \/ ValidSlits(all[i], K) \/ WrapOnly(all[i])
                                 \/ i % SlitStride = 0) ] ],
                 LAMBDA r : r.keep)

InPhaseRatios == { r \in Ratios : InPhaseDecl(r[1], r[2]) }
Setups == SetToSeq(BeamPos \X Phases \X BOOLEAN \X InPhaseRatios)

CaseOf(p, s) ==
    LET c == [K |-> K, slits |-> p, bp |-> s[1], ph |-> s[2], cw |-> s[3],
              num |-> s[4][1], den |-> s[4][2]]
    IN [ K |-> K, slits |-> p, bp |-> c.bp, ph |-> c.ph, cw |-> c.cw, num |-> c.num, den |-> c.den,
         direct |-> ReportedDirect(c, "none"),
         exp |-> [ np \in 1..MaxPulses |-> Expanded(c, np, "none") ] ]

CaseRecords ==
    LET vs == SetToSeq(ValidSeqs)
        idx == { ij \in (1..Len(vs)) \X (1..Len(Setups)) : (ij[1] * 7 + ij[2]) % Stride = 0 }
    IN SetToSeq({ CaseOf(vs[ij[1]], Setups[ij[2]]) : ij \in idx })

RatioRecords ==
    SetToSeq({ [ num |-> n, den |-> d, inphase |-> InPhaseDecl(n, d) ] : n \in 1..9, d \in 1..9 })

ASSUME ndJsonSerialize(IOEnv.OUT_SLITS, SlitRecords)
ASSUME ndJsonSerialize(IOEnv.OUT_CASES, CaseRecords)
ASSUME ndJsonSerialize(IOEnv.OUT_RATIOS, RatioRecords)
ASSUME PrintT(<<"EMITTED", Len(SlitRecords), Len(CaseRecords), Len(RatioRecords)>>)

EInit == dummy = 0
ENext == UNCHANGED dummy
ESpec == EInit /\ [][ENext]_dummy
=============================================================================
