SPECIFICATION ESpec
CONSTANTS
  KTicks = 8
  TableLists <- TableT
  TableDev = 2
  GeoLists <- GeoT
  GeoDev = 2
  TableStride = 1
  GeoStride = 7
