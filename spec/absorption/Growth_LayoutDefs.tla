--------------------------- MODULE Growth_LayoutDefs ---------------------------
(* Growth module (beyond property C18): the data layout of                                    *)
(* scippneutron.absorption.compute_transmission_map - not the integral.                       *)
(*                                                                                          *)
(* Documented contract: the result is "the transmission fraction as a function of            *)
(* detector_position and wavelength": one value for every pair (detector position,           *)
(* wavelength), in an array labelled by the dimensions of detector_position and the          *)
(* dimension of wavelength, carrying both inputs as coordinates, dimensionless.               *)
(* scipp arrays are labelled: the ORDER of the dimensions is not part of the contract, the    *)
(* association label -> input index is.                                                       *)
(*                                                                                          *)
(* Model of a dense labelled array (what a scipp Variable is):                                *)
(*     [order |-> sequence of distinct labels (outermost first), size |-> label -> extent,    *)
(*      buf |-> row-major sequence of values]                                                 *)
(* A value is its provenance <<detector id, wavelength index>>: which pair of inputs the      *)
(* number was computed from.                                                                  *)
EXTENDS Integers, Sequences, FiniteSets

RangeOf(s) == {s[k] : k \in 1..Len(s)}
Distinct(s) == \A i, j \in 1..Len(s) : s[i] = s[j] => i = j
RECURSIVE ProdSeq(_)
ProdSeq(s) == IF s = <<>> THEN 1 ELSE Head(s) * ProdSeq(Tail(s))
Without(s, x) == SelectSeq(s, LAMBDA y : y # x)

Extents(A) == [k \in 1..Len(A.order) |-> A.size[A.order[k]]]
Volume(A) == ProdSeq(Extents(A))
(* indices: functions label -> 1..extent *)
IndexSpace(labels, size) == {f \in [labels -> 1..10] : \A l \in labels : f[l] <= size[l]}
RECURSIVE FlatFrom(_, _, _, _)
FlatFrom(order, size, f, k) ==      \* row-major offset of index f, dims k..Len(order)
    IF k > Len(order) THEN 0
    ELSE (f[order[k]] - 1) * ProdSeq([m \in 1..(Len(order) - k) |-> size[order[k + m]]]) + FlatFrom(order, size, f, k + 1)
At(A, f) == A.buf[FlatFrom(A.order, A.size, f, 1) + 1]
WellFormed(A) == /\ Distinct(A.order) /\ DOMAIN A.size = RangeOf(A.order) /\ Len(A.buf) = Volume(A)
(* the labelled content: what scipp's label-based operations (and the user) see *)
Content(A) == [f \in IndexSpace(RangeOf(A.order), A.size) |-> At(A, f)]
SameLabelled(A, B) == RangeOf(A.order) = RangeOf(B.order) /\ A.size = B.size /\ Content(A) = Content(B)

(* array from a labelled function, stored in the given order *)
RECURSIVE Unflat(_, _, _, _)
Unflat(order, size, n, k) ==        \* inverse of FlatFrom: index function of offset n (as a set of <<label, i>> pairs)
    IF k > Len(order) THEN {}
    ELSE LET stride == ProdSeq([m \in 1..(Len(order) - k) |-> size[order[k + m]]])
         IN {<<order[k], (n \div stride) + 1>>} \cup Unflat(order, size, n % stride, k + 1)
IndexOfOffset(order, size, n) ==
    LET pairs == Unflat(order, size, n, 1)
    IN [l \in RangeOf(order) |-> (CHOOSE p \in pairs : p[1] = l)[2]]
Materialise(order, size, F(_)) ==
    [order |-> order, size |-> size,
     buf |-> [n \in 1..ProdSeq([k \in 1..Len(order) |-> size[order[k]]]) |-> F(IndexOfOffset(order, size, n - 1))]]

(* x[label, i]: the label disappears *)
SliceAt(A, label, i) ==
    LET order == Without(A.order, label)
        size == [l \in RangeOf(order) |-> A.size[l]]
    IN Materialise(order, size, LAMBDA f : At(A, [l \in RangeOf(A.order) |-> IF l = label THEN i ELSE f[l]]))
(* sc.concat(list, dim) of equally laid out arrays that do not have `label`: new outermost dimension *)
Stack(arrs, label) ==
    LET first == arrs[1]
        RECURSIVE Cat(_)
        Cat(k) == IF k = 0 THEN <<>> ELSE Cat(k - 1) \o arrs[k].buf
    IN [order |-> <<label>> \o first.order,
        size |-> [l \in RangeOf(first.order) \cup {label} |-> IF l = label THEN Len(arrs) ELSE first.size[l]],
        buf |-> Cat(Len(arrs))]

-----------------------------------------------------------------------------
(* Inputs.                                                                                   *)
(*   det: labelled array of detector ids (0 to 2 dimensions in the model)                    *)
(*   wl : [mode |-> "array" | "scalar", dim |-> label, n |-> extent, vals |-> abstract values]*)
(*   mat: "flat" (attenuation independent of the wavelength) | "absorbing"                   *)
DetInput(order, size) ==
    Materialise(order, size, LAMBDA f : FlatFrom(order, size, f, 1) + 1)       \* id = row-major position in the input

Outcome(det, wl) ==
    IF wl.mode = "scalar" \/ wl.n = 0 THEN "undefined"      \* documented input is a (non-empty) array of wavelengths
    ELSE IF wl.dim \in RangeOf(det.order)
         THEN (IF det.size[wl.dim] = 1 /\ wl.n = 1 THEN "undefined" ELSE "refuse")   \* one label, two roles
    ELSE "map"

(* declarative: the value at labelled index f belongs to detector det[f restricted] and wavelength f[wl.dim] *)
ResultLabels(det, wl) == RangeOf(det.order) \cup {wl.dim}
ResultSize(det, wl) == [l \in ResultLabels(det, wl) |-> IF l = wl.dim THEN wl.n ELSE det.size[l]]
Declared(det, wl, order) ==
    Materialise(order, ResultSize(det, wl),
                LAMBDA f : <<At(det, [l \in RangeOf(det.order) |-> f[l]]), f[wl.dim]>>)

(* operational, as a vectorised implementation does it: one array over the detector          *)
(* dimensions per wavelength, concatenated along the wavelength dimension ...                *)
PerWavelength(det, k) == [order |-> det.order, size |-> det.size, buf |-> [n \in 1..Len(det.buf) |-> <<det.buf[n], k>>]]
Direct(det, wl) == Stack([k \in 1..wl.n |-> PerWavelength(det, k)], wl.dim)
(* ... or, to bound memory, detector slice by detector slice along the first detector         *)
(* dimension, concatenated along that dimension                                               *)
Chunked(det, wl) ==
    LET d0 == det.order[1]
    IN Stack([i \in 1..det.size[d0] |-> Direct(SliceAt(det, d0, i), wl)], d0)
(* the slip this guards against: chunks glued together but labelled as if laid out like Direct *)
ChunkedMislabelled(det, wl) ==
    LET c == Chunked(det, wl)
    IN [order |-> <<wl.dim>> \o det.order, size |-> c.size, buf |-> c.buf]

(* which <<detector id, wavelength index>> pairs produce the same number as the pair pr *)
Mu(mat, v) == IF mat = "flat" THEN 0 ELSE v
SameValue(mat, wl, pr) == {<<pr[1], k>> : k \in {k \in 1..wl.n : Mu(mat, wl.vals[k]) = Mu(mat, wl.vals[pr[2]])}}
=============================================================================
