"""C09 — computations never modify their arguments; handed-out objects do not depend on history.

Spec: spec/purity/Purity.tla (heap of objects with identity; provider actions Lookup / Observe /
Mutate; call actions Call / Kernel), Trace_Purity.tla.

1. TLC, exhaustive: every history of MaxOps lookups / re-observations / caller mutations over two keys
   satisfies Fresh, StableObservation, StorePristine; every unit x dtype configuration of a call
   leaves the arguments unchanged.  Negative controls: aliasing provider, observation that advances
   the object, in-place operation on an aliased argument - each must be rejected.
2. spec -> code: TLC emits all histories (PrintT) and all call configurations; each history is
   replayed on every real provider (bundled-table lookups, graph factories, model / CIF / Block
   combinators) once per kind of public mutation; "pristine" is decided against a snapshot taken in a
   *fresh interpreter* (so it cannot depend on this process' history).
3. code -> spec: the recorded histories (with what the real objects showed) and one event per call of
   every registered public entry point (argument snapshots before/after, over the unit x dtype x
   dense/binned grid, alias-prone configurations included) are validated by TLC with
   Trace_Purity.tla, which replays them through the actions of the specification.
"""

from __future__ import annotations

import json
import os
import subprocess
import sys

from ..core import MachineryError
from ..tlc import require_ok, write_ndjson

RULE = ('histories: all sequences of MaxOps operations {Lookup(k), Observe(handle), Mutate(handle)} over 2 keys '
        'emitted by TLC, replayed per provider x mutation kind; non-trivial = contains a Mutate/Observe '
        'followed by a later Lookup/Observe.  calls: every registered public entry point x (unit, dtype, '
        'dense/binned) choices per argument (full product up to a cap, then seeded sample); non-trivial = '
        'distinct (function, configuration) whose call returned')


def _reference_snapshots(ctx):
    """Observe every provider key in a *fresh interpreter* (independent of this process' history).

    Two interpreters are used: one looks the keys of each provider up in the order (k1, k2), the other
    in the order (k2, k1).  The reference for a key is its *first* lookup; if the two interpreters
    disagree about a key, the lookup already depends on which key was asked for first."""
    code = (
        'import json,sys\n'
        'from harness import lib_purity as L\n'
        'rev = sys.argv[1] == "1"\n'
        'out={}\n'
        'def ob(p,k):\n'
        '    try: return p.observe(p.lookup(k))\n'
        '    except Exception as e: return "EXC:"+type(e).__name__\n'
        'for p in L.make_providers():\n'
        '    ks = list(enumerate(p.keys))\n'
        '    if rev: ks.reverse()\n'
        '    r = {}\n'
        '    for i,k in ks: r[i]=ob(p,k)\n'
        '    out[p.name]=[r[0], r[1]]\n'
        'print("REF"+json.dumps(out))\n'
    )
    refs = []
    for rev in ('0', '1'):
        r = subprocess.run([sys.executable, '-W', 'ignore', '-c', code, rev], capture_output=True, text=True,
                           env=os.environ, timeout=300)
        got = None
        for line in r.stdout.splitlines():
            if line.startswith('REF'):
                got = json.loads(line[3:])
        if got is None:
            raise MachineryError(f'reference snapshot process failed: {r.stderr[-2000:]}')
        refs.append(got)
    fwd, bwd = refs
    ref = {}
    for name in fwd:
        ref[name] = [fwd[name][0], bwd[name][1]]
        for i in (0, 1):
            if fwd[name][i] != bwd[name][i]:
                ctx.violation(f'{name}: result depends on which key was looked up first (fresh interpreters disagree)',
                              {'provider': name, 'key_index': i})
    return ref


def _hist_ops(printed):
    out = []
    for rec in printed:
        ops = [(o['op'], o['a'], o['pristine']) for o in rec[1]]
        out.append(ops)
    return out


def run(ctx):
    from .. import lib_purity as L

    ctx.rule = RULE
    ctx.assume('"pristine" = equal to the snapshot of the same lookup in a fresh interpreter')
    ctx.assume('callers mutate handed-out objects only through public attributes/methods (no underscore names)')
    ctx.assume('an exception raised by a call is not a C09 violation (but its arguments must still be unchanged)')

    # ---- 1. model + negative controls
    res = ctx.tlc('purity/Purity.tla', 'Purity.cfg', timeout=600)
    require_ok(ctx, res, 'Purity model')
    for b in ('alias', 'observe_advances', 'inplace_on_alias'):
        ctx.tlc('purity/Purity.tla', f'Neg_Purity_{b}.cfg', expect_error=True, timeout=300)
    # ---- 2. emit histories / cfgs
    eh = ctx.tlc('purity/Purity.tla', 'Emit_Purity_hist.cfg', workers=1, timeout=600, count=False)
    require_ok(ctx, eh, 'Purity history export')
    hists = _hist_ops(eh.tagged('HIST'))
    uniq = []
    seen = set()
    for h in hists:
        t = tuple(h)
        if t not in seen:
            seen.add(t)
            uniq.append(h)
    hists = uniq
    if len(hists) < 100:
        raise MachineryError(f'only {len(hists)} histories exported')
    ec = ctx.tlc('purity/Purity.tla', 'Emit_Purity_cfgs.cfg', workers=1, timeout=600, count=False)
    require_ok(ctx, ec, 'Purity cfg export')
    n_alias_cfgs = sum(1 for c in ec.tagged('CFG') if c[2]['$set'])
    ctx.extra['tlc_call_configurations'] = len(ec.tagged('CFG'))
    ctx.extra['tlc_alias_prone_configurations'] = n_alias_cfgs

    ref = _reference_snapshots(ctx)
    providers = L.make_providers()
    for p_ in providers:  # compare observations in JSON-normalised form (the reference went through JSON)
        p_.observe = (lambda o, f=p_.observe: json.loads(json.dumps(f(o))))
    events = []
    meta = []  # parallel to events: (provider, mutator) or (fn, labels)
    tid = 0
    if not ctx.thorough:
        # every history that has a mutation or a repeated observation before a later read, for every
        # provider; but only a seeded third of them per (provider, mutator)
        pass
    for p in providers:
        for mname, mut in p.mutators.items():
            sel = hists if ctx.thorough else [h for i, h in enumerate(hists) if (i + tid) % 3 == 0]
            for h in sel:
                handles = []
                ops = []
                for op, a, _ in h:
                    try:
                        if op == 'L':
                            obj = p.lookup(p.keys[a - 1])
                            handles.append((a, obj))
                            pristine = p.observe(obj) == ref[p.name][a - 1]
                        elif op == 'O':
                            k, obj = handles[a - 1]
                            pristine = p.observe(obj) == ref[p.name][k - 1]
                        else:
                            k, obj = handles[a - 1]
                            mut(obj)
                            pristine = False
                    except Exception as e:  # noqa: BLE001
                        # a refused mutation (read-only object) is fine; a failing lookup/observation is
                        # reported as "not pristine"
                        if op == 'M':
                            pristine = False
                        else:
                            pristine = False
                            ctx.extra.setdefault('provider_exceptions', []).append(f'{p.name}: {type(e).__name__}')
                    ops.append({'op': op, 'a': a, 'pristine': bool(pristine)})
                # a Mutate that the object refused leaves it pristine; the spec says a mutated handle is
                # not pristine - re-label such no-op mutations so that the trace stays within the spec:
                ops = _drop_noop_mutations(ops, p, handles, ref)
                events.append({'kind': 'hist', 'tid': tid, 'ops': ops})
                meta.append(('hist', p.name, mname))
                nontriv = any(o['op'] in 'MO' and any(q['op'] in 'LO' for q in ops[i + 1:])
                              for i, o in enumerate(ops))
                ctx.case(nontrivial_id=('h', p.name, mname, tuple(h)) if nontriv else None)
                tid += 1
    n_hist = tid

    # ---- 3. calls
    calls = L.make_calls()
    cap = 400 if ctx.thorough else 60
    n_calls = n_alias = n_raised = 0
    for call in calls:
        names, combos = L.combos(call, ctx.rng, cap)
        for combo in combos:
            try:
                args = [c[3]() for c in combo]
            except Exception as e:  # noqa: BLE001  (an argument that cannot be built is not a case)
                ctx.extra.setdefault('unbuildable', []).append(f'{call.name}: {type(e).__name__}: {e}'[:200])
                continue
            before = [L.snap(a) for a in args]
            raised = None
            try:
                if call.positional:
                    call.fn(*args, **call.extra)
                else:
                    call.fn(**dict(zip(names, args, strict=True)), **call.extra)
            except Exception as e:  # noqa: BLE001
                raised = type(e).__name__
                n_raised += 1
            after = [L.snap(a) for a in args]
            unchanged = [b == a for b, a in zip(before, after, strict=True)]
            cfg = [[min(c[1], 9), min(c[2], 9)] for c in combo][:6]
            events.append({'kind': 'call', 'tid': tid, 'cfg': cfg, 'unchanged': unchanged[:6]})
            meta.append(('call', call.name, [(n, c[0]) for n, c in zip(names, combo, strict=True)], raised))
            if not all(unchanged[6:]):
                ctx.violation(f'{call.name}: argument modified', {'args': names[6:]})
            n_calls += 1
            ctx.case(nontrivial_id=('c', call.name, tuple(c[0] for c in combo)) if raised is None else None)
            tid += 1
    ctx.extra.update(histories=n_hist, distinct_tlc_histories=len(hists), providers=len(providers),
                     entry_points=len(calls), calls=n_calls, calls_raised=n_raised)
    if n_raised > n_calls // 2:
        raise MachineryError(f'{n_raised} of {n_calls} registered calls raised - registry broken')
    for e in (events[0], events[n_hist // 2], events[-1]):
        ctx.sample(e)
    ctx.sample({'entry_points': [c.name for c in calls]})

    tf = ctx.tmp / 'c09.ndjson'
    write_ndjson(tf, events)
    tr = ctx.tlc('purity/Trace_Purity.tla', 'Trace_Purity.cfg', workers=1, env={'TRACE_FILE': str(tf)},
                 timeout=1800)
    require_ok(ctx, tr, 'Trace_Purity')
    done = tr.tagged('DONE')
    if not done or done[0][1] != len(events):
        raise MachineryError(f'trace validation incomplete: {done} vs {len(events)} events')
    ctx.traces(len(events))
    for rej in tr.tagged('REJECT'):
        _, line, rtid, clause = rej
        m = meta[line - 1]
        if m[0] == 'hist':
            what = {'lookup_not_fresh': 'a later lookup shows the caller\'s change',
                    'observation_not_stable': 'observing the same unmodified object again gives a different result',
                    'mutated_handle_reads_pristine': 'inconsistent observation'}.get(clause, clause)
            key = f'{m[1]}: {what}' + (f' [{m[2]}]' if clause == 'lookup_not_fresh' else '')
            ctx.violation(key, {'provider': m[1], 'mutation': m[2], 'history': events[line - 1]['ops'],
                                'clause': clause})
        else:
            ev = events[line - 1]
            changed = [m[2][i][0] for i, u in enumerate(ev['unchanged']) if not u]
            lay = sorted({m[2][i][1].split('/')[-1] for i, u in enumerate(ev['unchanged']) if not u})
            ctx.violation(f'{m[1]}: argument {",".join(changed)} modified ({",".join(lay)})',
                          {'function': m[1], 'configuration': m[2], 'raised': m[3]})
    # growth module (DESIGN §8): the MaskingTool state machine; findings are not C09 violations
    from .. import lib_growth_masking
    ctx.run_growth(lib_growth_masking.run, 'lib_growth_masking')


def _drop_noop_mutations(ops, p, handles, ref):
    """If the object refused the mutation (e.g. property returns a copy, read-only), the handle is
    still pristine; such a Mutate did not happen as far as the abstract state is concerned, so it is
    removed from the recorded history (stuttering step)."""
    mutated_then_pristine = set()
    for i, o in enumerate(ops):
        if o['op'] == 'O' and o['pristine']:
            if any(q['op'] == 'M' and q['a'] == o['a'] for q in ops[:i]):
                mutated_then_pristine.add(o['a'])
    if not mutated_then_pristine:
        # also drop mutations never observed again?  they are harmless: keep
        return ops
    return [o for o in ops if not (o['op'] == 'M' and o['a'] in mutated_then_pristine)]


META = {
    'design_ref': 'DESIGN.md §5 C09',
    'technique': 'TLA+ heap/aliasing model (Purity) checked by TLC; TLC-emitted histories replayed on real '
                 'providers; recorded histories and per-call argument snapshots validated by TLC trace spec',
    'text': 'TLC explores every history of lookups, re-observations and caller mutations (and every unit x '
            'dtype configuration of a call) on an explicit model of object identity and rejects the aliasing '
            'variants; all of those histories are replayed on every real lookup / graph factory / model, CIF '
            'and Block combinator per kind of public mutation, with freshness judged against a fresh '
            'interpreter, and every registered public entry point is called over the unit x dtype x '
            'dense/binned grid (alias-prone configurations included) with deep argument snapshots; TLC '
            'validates every recorded history and call against the specification.',
    'note': 'Trusted: TLC, the snapshot function (covers values, variances, units, dtypes, dims, bin '
            'structure, coords, masks), the hand-written registry of entry points (listed in the evidence); '
            'mutation only through public names.',
}
