-------------------------------- MODULE Orcid --------------------------------
(* ORCID iD check character (ISO 7064 MOD 11-2) as scippneutron.metadata.ORCIDiD computes  *)
(* it, and the error-detection guarantees that make it worth checking.                     *)
(*                                                                                          *)
(* State machine: the base digits are consumed one at a time (action Feed); `total` is the  *)
(* implementation's unreduced accumulator  total' = (total + d) * 2,  `red` the same        *)
(* recurrence reduced modulo 11 at every step.  After NDigits digits the check value is     *)
(* (12 - total % 11) % 11, written 'X' when it is 10.                                        *)
EXTENDS Integers, Sequences, TLC

CONSTANTS NDigits,   \* number of base digits (15 for a real ORCID iD; small for exhaustive runs)
          Bug        \* "none" | "plain_sum" (negative control: unweighted digit sum)

VARIABLES digits, total, red
vars == <<digits, total, red>>

Digit == 0..9

Init == digits = <<>> /\ total = 0 /\ red = 0

Feed(d) ==
    /\ Len(digits) < NDigits
    /\ digits' = Append(digits, d)
    /\ total' = IF Bug = "plain_sum" THEN total + d ELSE (total + d) * 2
    /\ red' = IF Bug = "plain_sum" THEN (red + d) % 11 ELSE ((red + d) * 2) % 11

Next == \E d \in Digit : Feed(d)
Spec == Init /\ [][Next]_vars

CheckOfTotal(t) == (12 - (t % 11)) % 11
Check == CheckOfTotal(total)

(* declarative definition: weighted sum, weight of digit i (1-based) is 2^(NDigits+1-i) *)
RECURSIVE Pow2(_)
Pow2(n) == IF n = 0 THEN 1 ELSE 2 * Pow2(n - 1)
RECURSIVE WSum(_, _)
WSum(ds, n) == IF ds = <<>> THEN 0
               ELSE Head(ds) * Pow2(n) + WSum(Tail(ds), n - 1)
\* with k digits consumed, digit i carries weight 2^(k+1-i)
DeclTotal == WSum(digits, Len(digits))
CheckOfDigits(ds) == CheckOfTotal(WSum(ds, Len(ds)))

-----------------------------------------------------------------------------
(* Invariants *)
AccumulatorIsWeightedSum == total = DeclTotal
ReducedAgrees == red = total % 11
CheckInRange == Check \in 0..10

(* A complete id is valid iff digits ++ <<check>> satisfies sum = 1 (mod 11) in the MOD 11-2 *)
(* sense: (total + check) % 11 = 1.                                                          *)
ValidityEquation == Len(digits) = NDigits => (total + Check) % 11 = 1

(* Error detection on complete ids: any single wrong digit and any transposition of two     *)
(* adjacent different digits changes the check value.                                        *)
Subst(ds, i, d) == [ds EXCEPT ![i] = d]
Swap(ds, i) == [ds EXCEPT ![i] = ds[i+1], ![i+1] = ds[i]]

DetectsSubstitution ==
    Len(digits) = NDigits =>
      \A i \in 1..NDigits : \A d \in Digit \ {digits[i]} :
          CheckOfDigits(Subst(digits, i, d)) # Check
DetectsTransposition ==
    Len(digits) = NDigits =>
      \A i \in 1..(NDigits - 1) :
          digits[i] # digits[i+1] => CheckOfDigits(Swap(digits, i)) # Check
(* transposing the last base digit with the check digit (when the check is a digit) *)
DetectsLastTransposition ==
    (Len(digits) = NDigits /\ Check <= 9 /\ Check # digits[NDigits]) =>
        CheckOfDigits(Subst(digits, NDigits, Check)) # digits[NDigits]

(* export for replay into the implementation (-simulate, -workers 1) *)
EmitId == (Len(digits) = NDigits) => PrintT(<<"ID", digits, Check>>)
=============================================================================
