---------------------------- MODULE MC_CifLexer ----------------------------
EXTENDS CifLexer, TLC
(*  _  #  $  ;  [  ]  '  "  SP  HT  LF  CR  a  *)
MC_Alphabet == {95, 35, 36, 59, 91, 93, 39, 34, 32, 9, 10, 13, 97}

(* constant-level checks that the 13-symbol alphabet cannot reach: reserved words *)
Words == { KwData, KwData \o <<120>>, <<68, 65, 84, 65, 95, 120>>, KwSave, KwSave \o <<120>>,
           KwLoop, <<76, 79, 79, 80, 95>>, KwStop, KwGlobal, <<71, 108, 111, 98, 97, 108, 95>> }
ASSUME \A w \in Words :
         LET r == Lex(TagT \o <<SP>> \o SafeQuote(w).txt \o <<LF>>) IN
         r.e = "" /\ r.t = << [k |-> "tag", s |-> <<116>>], [k |-> "val", s |-> w] >>
ASSUME \A w \in Words :
         LET r == Lex(TagT \o <<SP>> \o w \o <<LF>>) IN
         ~(Len(r.t) = 2 /\ r.t[2].k = "val")
(* bare ? and . are ordinary unquoted strings *)
ASSUME Lex(<<63, SP, 46>>) = [t |-> << [k |-> "val", s |-> <<63>>], [k |-> "val", s |-> <<46>>] >>, e |-> ""]
(* a bare CR ends a comment: text behind it is data; written line by line (CommentLinesAnyBreak) it stays comment *)
ASSUME Lex(<<HASH, SP, 97, CR, 98, LF>>).t = << [k |-> "val", s |-> <<98>>] >>
ASSUME Lex(<<HASH, SP, 97, CR, LF, US, 98, SP, 99, LF>>).t = << [k |-> "tag", s |-> <<98>>], [k |-> "val", s |-> <<99>>] >>
ASSUME \A c \in { <<97, CR, 98>>, <<97, CR, LF, US, 98, SP, 99>>, <<CR>>, <<97, CR, CR, 98, LF>>, <<CR, LF, 108, 111, 111, 112, 95>> } :
         LET r == Lex(CommentLinesAnyBreak(c) \o TagT \o <<SP>> \o ValZ \o <<LF>>) IN
         r.e = "" /\ r.t = << [k |-> "tag", s |-> <<116>>], [k |-> "val", s |-> ValZ] >>
(* a CR is a line terminator everywhere: it ends an unquoted value, breaks a quoted string, is a line break of a
   text field (read as LF, CR LF counted once) and CR ';' closes a text field *)
ASSUME Lex(<<US, 116, SP, 97, CR, US, 117, SP, 98>>).t = << [k |-> "tag", s |-> <<116>>], [k |-> "val", s |-> <<97>>], [k |-> "tag", s |-> <<117>>], [k |-> "val", s |-> <<98>>] >>
ASSUME Lex(<<SQ, 97, CR, 98, SQ>>).e = "eol_in_quoted_string"
ASSUME Lex(<<SEMI, 97, CR, LF, 98, CR, SEMI, LF>>) = [t |-> << [k |-> "val", s |-> <<97, LF, 98>>] >>, e |-> ""]
ASSUME Lex(<<SEMI, 97, CR, 98, LF, SEMI, LF>>).t = << [k |-> "val", s |-> <<97, LF, 98>>] >>
(* non-ASCII and the other control characters are errors *)
ASSUME Lex(<<97, 181>>).e = "non_ascii_character" /\ Lex(<<97, 7>>).e = "control_character"
=============================================================================
