SPECIFICATION Spec
CONSTANTS
  MaxCalls = 4
  Bug = "none"
INVARIANT TypeOK
INVARIANT SavedReadsBack
INVARIANT NoAuthorLostOrMerged
INVARIANT EveryRoleHasOneAuthor
INVARIANT ContentInCallOrder
CHECK_DEADLOCK FALSE
