----------------------------- MODULE GravityDefs -----------------------------
(* Gravity-corrected scattering angles (scippneutron.conversion.beamline), state-free   *)
(* part, written from the documentation in exact arithmetic.                             *)
(*                                                                                       *)
(* A setup is a record [g, b1, b2, q]:                                                   *)
(*   g   integer gravity direction whose norm is an integer (axis aligned or a           *)
(*       Pythagorean quadruple), so that e_y = -g/|g| is rational                        *)
(*   b1  integer incident beam, not parallel to g;  b2 integer scattered beam, non-zero  *)
(*   q   rational <<qn, qd>> >= 0 :  q = |g| m_n^2 lambda^2 / (2 h^2)  in 1/length,      *)
(*       so that the drop is   delta = q * |b2|^2     (L2 = |b2|)                        *)
(*                                                                                       *)
(* Documented construction:  e_y = -g/|g|,  z_proj = b1 - (b1.e_y) e_y,                  *)
(*   e_z = z_proj/|z_proj|,  e_x = e_y x e_z;   b2' = b2 + delta e_y;                    *)
(*   2theta = angle(b1, b2'),  tan(phi) = (y_d + delta)/x_d,                             *)
(*   reflectometry:  tan(gamma) = |y_d + delta| / z_d, only for g.b1 = 0.                *)
(* Vectors are kept as integer numerators over explicit positive denominators; angles    *)
(* are classes modulo positive scaling (Lattice!AngleClass), so no square root is        *)
(* needed.                                                                               *)
EXTENDS Lattice

GNorm(g) == CHOOSE n \in 1..8 : n * n = Norm2(g)           \* |g| (integer by assumption, <= 8)
ValidGeometry(s) ==
    /\ \E n \in 1..8 : n * n = Norm2(s.g)
    /\ Cross(s.g, s.b1) # Zero3                             \* b1 not parallel to gravity
    /\ s.b2 # Zero3
    /\ s.q[1] >= 0 /\ s.q[2] > 0
ValidSetup(s) ==
    /\ ValidGeometry(s)
    \* the raised beam must not vanish (detector straight below the sample with delta = L2):
    \* no angle is defined there
    /\ VAdd(VScale(s.q[2] * GNorm(s.g), s.b2), VScale(s.q[1] * Norm2(s.b2), VNeg(s.g))) # Zero3

(* ---- basis, as integer numerators:  e_y = EyN/ng, e_z = ZpN/|ZpN|, e_x = ExN/|ExN|  *)
EyN(s) == VNeg(s.g)
ZpN(s) == Primitive(VSub(VScale(Norm2(s.g), s.b1), VScale(Dot(s.b1, EyN(s)), EyN(s))))
ExN(s) == Primitive(Cross(EyN(s), ZpN(s)))

(* ---- the drop and the raised beam  b2' = RaisedN / RaisedD                            *)
N2(s)      == Norm2(s.b2)
RaisedD(s) == s.q[2] * GNorm(s.g)
RaisedN(s) == VAdd(VScale(RaisedD(s), s.b2), VScale(s.q[1] * N2(s), EyN(s)))
FreeN(s)   == s.b2                                           \* without gravity

(* ---- documented results *)
TwoThetaClass(s) == AngleClass(s.b1, RaisedN(s))
FreeClass(s)     == AngleClass(s.b1, s.b2)

(* components of a vector v in the basis, as rationals of squares (signs separately):    *)
(*   y = (v.EyN)/ng ,  x = (v.ExN)/|ExN| ,  z = (v.ZpN)/|ZpN|                            *)
YNum(s, v) == Dot(v, EyN(s))       \* times 1/ng
XNum(s, v) == Dot(v, ExN(s))       \* times 1/|ExN|
ZNum(s, v) == Dot(v, ZpN(s))       \* times 1/|ZpN|
Y2(s, v) == Reduce(YNum(s, v) * YNum(s, v), Norm2(s.g))
X2(s, v) == Reduce(XNum(s, v) * XNum(s, v), Norm2(ExN(s)))
Z2(s, v) == Reduce(ZNum(s, v) * ZNum(s, v), Norm2(ZpN(s)))

(* azimuth class: quadrant signs and tan^2(phi) = y'^2/x^2 (or "axis" when x = 0);       *)
(* y' and x are components of the raised beam, which is RaisedN/RaisedD: the common       *)
(* positive factor 1/RaisedD cancels in the ratio                                        *)
PhiClassOf(s, v) ==
    LET sy == Sgn(YNum(s, v))  sx == Sgn(XNum(s, v)) IN
    IF sx = 0 THEN <<sy, 0, <<0, 1>>>>
    ELSE <<sy, sx, RatDiv(Y2(s, v), X2(s, v))>>
PhiClass(s)     == PhiClassOf(s, RaisedN(s))
FreePhiClass(s) == PhiClassOf(s, s.b2)

(* ---- the two implementation paths, as documented                                      *)
(* general:   the raised beam is fed to the angle between two vectors.  `dir` is the      *)
(*            integer direction (times 1/ng) along which the drop is added.              *)
GeneralRaisedN(s, dir) == VAdd(VScale(RaisedD(s), s.b2), VScale(s.q[1] * N2(s), dir))
GeneralClass(s, dir)   == AngleClass(s.b1, GeneralRaisedN(s, dir))
(* optimised: tan(2theta) = sqrt(x^2 + y'^2)/z  on the components of the raised beam,    *)
(*            i.e. cos^2 = z^2/(x^2+y'^2+z^2), sign(cos) = sign(z)                       *)
OptimisedClass(s) ==
    LET v  == RaisedN(s)
        z2 == Z2(s, v)
        r2 == RatAdd(RatAdd(X2(s, v), Y2(s, v)), z2)
    IN  IF r2[1] = 0 THEN ClassUndefined ELSE <<Sgn(ZNum(s, v)), RatDiv(z2, r2)>>

(* ---- reflectometry variant *)
Perpendicular(s) == Dot(s.g, s.b1) = 0
ReflClass(s) ==                                  \* gamma = atan2(|y'|, z)
    LET v  == RaisedN(s)
        z2 == Z2(s, v)
        r2 == RatAdd(Y2(s, v), z2)
    IN  IF r2[1] = 0 THEN <<0, <<0, 1>>>> ELSE <<Sgn(ZNum(s, v)), RatDiv(z2, r2)>>
Refl(s) == IF Perpendicular(s) THEN <<"angle", ReflClass(s)>> ELSE <<"refused", <<0, <<0, 1>>>>>>

(* ---- dispatch of the implementation (documented: |g.b1| > 1e-10 |g|); on lattice       *)
(* setups |g.b1| is 0 or >= 1.  The classes of real-valued tilts used by the harness:    *)
(*   "zero"  g.b1 = 0 exactly            -> optimised path, reflectometry accepts         *)
(*   "sub"   0 < |g.b1| <= 1e-10 |g|      -> optimised path (treated as perpendicular)    *)
(*   "above" |g.b1| > 1e-10 |g|           -> general path,   reflectometry refuses        *)
(*   "band"  within 1% of the threshold   -> either                                       *)
PathOf(tclass) == CASE tclass = "zero"  -> {"optimised"}
                    [] tclass = "sub"   -> {"optimised"}
                    [] tclass = "above" -> {"general"}
                    [] tclass = "band"  -> {"optimised", "general"}
ReflOutcomes(tclass) == CASE tclass = "zero"  -> {"angle"}
                          [] tclass = "sub"   -> {"angle", "refused"}
                          [] tclass = "above" -> {"refused"}
                          [] tclass = "band"  -> {"angle", "refused"}

(* ---- operand forms of one call (how the same mathematical setup may be supplied)        *)
(* The result for detector i and wavelength j is the construction for (b1_i, b2_i,         *)
(* lambda_ij, g) whatever the form of the operands:                                        *)
(*   wavelength: "outer" 1-d along its own dim (result = outer product with the detectors),*)
(*     "grid" 2-d (det, wavelength), "grid_transposed" 2-d (wavelength, det), "strided"    *)
(*     1-d non-contiguous, "per_detector" 1-d along the detector dim (lambda_i for          *)
(*     detector i), "scalar" 0-d, "binned" events in detector bins;                         *)
(*   incident beam: "one" 0-d, "per_pixel" along the detector dim - possibly a different   *)
(*     beam for every pixel ("per_pixel_mixed": every other pixel has the untilted beam);  *)
(*   units: wavelength in angstrom / nm / m, gravity in m/s^2 / cm/s^2, the two beams in    *)
(*     the same or in different length units.                                              *)
WlForms   == {"outer", "grid", "grid_transposed", "strided", "per_detector", "scalar", "binned"}
IbForms   == {"one", "per_pixel", "per_pixel_mixed"}
WlUnits   == {"angstrom", "nm", "m"}
GUnits    == {"m/s^2", "cm/s^2"}
BeamUnits == {"m", "mm"}
ValidForm(f) == /\ f.wl \in WlForms /\ f.ib \in IbForms /\ f.wl_unit \in WlUnits
                /\ f.g_unit \in GUnits /\ f.ib_unit \in BeamUnits /\ f.sb_unit \in BeamUnits
(* with a per-pixel incident beam the documented dispatch looks at ALL pixels: the general  *)
(* path is taken (and the reflectometry variant refuses) as soon as ANY pixel is above the  *)
(* threshold.  Class of a batch from the classes of its pixels:                             *)
BatchClass(classes) == IF "above" \in classes THEN "above"
                       ELSE IF "band" \in classes THEN "band"
                       ELSE IF "sub" \in classes THEN "sub" ELSE "zero"

(* sign of (2theta with gravity - 2theta without) for a beam perpendicular to gravity    *)
(* and a detector not below it (y_d >= 0), delta > 0:  larger for forward detectors,     *)
(* equal at z_d = 0, smaller for backward detectors; 2 = not determined by signs alone   *)
ExpectedCmp(s) ==
    IF ~Perpendicular(s) \/ YNum(s, s.b2) < 0 THEN 2
    ELSE IF s.q[1] = 0 THEN 0
    ELSE Sgn(ZNum(s, s.b2))
=============================================================================
