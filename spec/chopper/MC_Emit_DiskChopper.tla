------------------------- MODULE MC_Emit_DiskChopper -------------------------
EXTENDS Emit_DiskChopper
MC_Phases12 == {-17, -12, -5, 0, 1, 7, 12, 30}
(* beam positions before top-dead-centre and beyond one turn (thorough)                      *)
MC_BeamT    == {-7, 0, 5, 17}
MC_Ratios   == {<<1,4>>, <<1,3>>, <<1,2>>, <<1,1>>, <<2,1>>, <<3,1>>, <<4,1>>, <<8,1>>}
=============================================================================
