SPECIFICATION Spec
CONSTANTS
  Universe <- UT
  ArgSeq <- ArgsT
  MaxSteps = 14
  LibKnown <- LibT
  Bug = "none"
  Export = TRUE
  Scale = "thorough"
INVARIANT Admitted
INVARIANT OrderFree
CHECK_DEADLOCK FALSE
