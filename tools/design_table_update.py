#!/usr/bin/env python3
"""Rewrite the numeric columns of the DESIGN.md §10 table from the evidence files (run after a full quick pass)."""
import json, re
p = '/verif/DESIGN.md'
s = open(p).read()
out = []
for line in s.split('\n'):
    m = re.match(r'^\| (C\d\d) \| ([^|]*) \| ([^|]*) \| ([^|]*) \| ([^|]*) \| ([^|]*) \|$', line)
    if m and 'spec' not in m.group(2)[:4]:
        pid = m.group(1)
        try:
            e = json.load(open(f'/verif/evidence/{pid}.json'))
        except OSError:
            out.append(line); continue
        if e.get('tier') != 'quick':
            out.append(line); continue
        c = e['coverage']
        neg = sum(1 for r in c['tlc_runs'] if r.get('negative_control'))
        states = f"{c['states']:,}".replace(',', ' ')
        old_states = m.group(3)
        par = re.search(r'\(.*\)', old_states)
        ev_old = m.group(5)
        par2 = re.search(r'\(.*\)', ev_old)
        ev = f"{c['traces_validated_against_impl']:,}".replace(',', ' ') + (' ' + par2.group(0) if par2 else '')
        line = f"| {pid} | {m.group(2)} | {states}{' ' + par.group(0) if par else ''} | {neg} | {ev} | {e['wall_s']:.0f} s |"
    out.append(line)
open(p, 'w').write('\n'.join(out))
