SPECIFICATION Spec
CONSTANTS
  Pulses <- MC_Pulses
  Choppers <- MC_ChoppersQ
  PropDists = {4, 8}
  MaxChops = 1
  Pick = 0
  SimEdges = {}
  SimMaxDist = 0
  L = 12
  Bug = "none"
  GBug = "firstsub"
  Deltas <- MC_Deltas
INVARIANT NeutronsInsideBounds
CHECK_DEADLOCK FALSE
