------------------------ MODULE Growth_MC_ChopperSvg ------------------------
EXTENDS Growth_ChopperSvg
(* all valid slit sets of up to three slits on a disk of 8 ticks, in every listing order        *)
AllSlits == { s \in (0..7) \X (1..11) : s[1] < s[2] /\ s[2] - s[1] < 8 }
Valid1 == { <<a>> : a \in AllSlits }
Valid2 == { sl \in { <<a, b>> : a \in AllSlits, b \in AllSlits } : ValidSlits(sl, 8) }
Valid3 == { sl \in { Append(p, c) : p \in Valid2, c \in AllSlits } : ValidSlits(sl, 8) }
MC_SlitSets  == { <<>> } \cup Valid1 \cup Valid2 \cup Valid3
MC_SlitSetsQ == { <<>> } \cup Valid1 \cup Valid2
(* for the negative controls: three slits listed out of order, and one slit wider than half a turn *)
MC_NegSets == { << <<0, 1>>, <<4, 5>>, <<2, 3>> >>, << <<0, 6>> >> }
=============================================================================
