----------------------------- MODULE SqwBuilder -----------------------------
(* The SQW builder as a state machine.                                                      *)
(*                                                                                          *)
(* Build phase: the public calls AddPixelData(npix), AddEmptyDetectorParams,                *)
(* AddEmptyDndData(shape), AddDefaultInstrument, AddDefaultSample in any order, each at most *)
(* once (any subset).  Create(chunk, byteorder) then runs the documented steps:             *)
(*   WriteHeader, SerializeBlocks (sizes known: regular blocks from their buffers, pixel    *)
(*   and histogram blocks *computed* from the shapes), WriteBAT (fixed order, positions     *)
(*   patched), WriteBlock(i) for each block, the pixel block in chunks (PixChunk).          *)
(* The file is modelled by the sequence of writes <<tag, position, length>>, the write        *)
(* position and the length of the file at the target.  The target may hold something before  *)
(* the first create() (Prev: an earlier, shorter or longer file at the same path) and         *)
(* create() may be called again on the same builder (MaxGen = 2): every file produced must    *)
(* satisfy the layout properties, nothing of the earlier content may survive and the second   *)
(* file lists the blocks of ALL calls again.                                                   *)
(* Regular block sizes are a model parameter (RegSize): the layout properties hold for any. *)
EXTENDS SqwBuilderDefs

CONSTANTS NPix,      \* set of pixel counts
          Chunks,    \* set of chunk sizes
          Shapes,    \* set of histogram shapes (sequences of extents)
          RegSize,   \* function: regular block name -> size in bytes
          ByteOrders,\* set of byte orders create() is asked for
          Prev,      \* set of lengths of what exists at the target before create() (0 = nothing)
          MaxGen,    \* how often create() may be called on one builder (1 or 2)
          Bug        \* "none" | "rows" | "callorder" | "nopatch" | "notrunc" | "release"   (negative controls)

VARIABLES reg,      \* set of items registered so far (history of the public calls)
          held,     \* set of items whose data the builder holds (what create() serialises)
          order,    \* the builder calls in the order they were made (history)
          npix, shape, chunk, bo,
          prev,     \* length of the content found at the target by the first create()
          gen,      \* number of create() calls made so far
          phase,    \* "build" | "header" | "serialize" | "bat" | "blocks" | "pix" | "done"
          blocks,   \* sequence of [name, kind, size] in table order (after SerializeBlocks)
          bat,      \* sequence of [name, kind, pos, size]       (after WriteBAT)
          cur,      \* index of the block being written
          pixoff, pixrem,   \* pixel loop: offset and remaining pixel count
          writes,   \* sequence of <<tag, pos, len>> of the current create()
          flen,     \* write position = number of bytes written by the current create()
          fsize     \* length of the file at the target (what a reader finds)

callvars == <<reg, order, npix, shape>>
argvars  == <<chunk, bo, prev, gen>>
tabvars  == <<blocks, bat>>
loopvars == <<pixoff, pixrem>>
vars == <<reg, held, order, npix, shape, chunk, bo, prev, gen, phase, blocks, bat, cur, pixoff, pixrem,
          writes, flen, fsize>>

Max(a, b) == IF a > b THEN a ELSE b

(* a write at the current position; the file grows only when the position passes its end *)
Write(tag, n) == /\ writes' = Append(writes, <<tag, flen, n>>)
                 /\ flen' = flen + n
                 /\ fsize' = Max(fsize, flen + n)

Init == /\ reg = {} /\ held = {} /\ order = <<>> /\ npix = 0 /\ shape = <<>> /\ chunk = 0 /\ bo = "little"
        /\ prev = 0 /\ gen = 0
        /\ phase = "build" /\ blocks = <<>> /\ bat = <<>> /\ cur = 0 /\ pixoff = 0 /\ pixrem = 0
        /\ writes = <<>> /\ flen = 0 /\ fsize = 0

Call(it) == /\ phase = "build" /\ it \notin reg
            /\ reg' = reg \cup {it} /\ held' = held \cup {it} /\ order' = Append(order, it)

AddPixelData(n) == /\ Call("pix") /\ npix' = n
                   /\ UNCHANGED <<shape, argvars, phase, tabvars, cur, loopvars, writes, flen, fsize>>
AddEmptyDndData(sh) == /\ Call("dnd") /\ shape' = sh
                       /\ UNCHANGED <<npix, argvars, phase, tabvars, cur, loopvars, writes, flen, fsize>>
AddSimple(it) == /\ it \in {"det", "inst", "samp"} /\ Call(it)
                 /\ UNCHANGED <<npix, shape, argvars, phase, tabvars, cur, loopvars, writes, flen, fsize>>

(* create(): the target is opened for writing, which discards whatever it held (the negative    *)
(* control keeps it)                                                                             *)
Opened(existing) == IF Bug = "notrunc" THEN existing ELSE 0

Create(c, b, pv) == /\ phase = "build" /\ gen = 0
                    /\ phase' = "header" /\ chunk' = c /\ bo' = b /\ prev' = pv /\ gen' = 1
                    /\ fsize' = Opened(pv)
                    /\ UNCHANGED <<callvars, held, tabvars, cur, loopvars, writes, flen>>

(* create() once more on the same builder: the target now holds the file of the previous call *)
CreateAgain == /\ phase = "done" /\ gen < MaxGen
               /\ phase' = "header" /\ gen' = gen + 1
               /\ fsize' = Opened(fsize)
               /\ writes' = <<>> /\ flen' = 0 /\ blocks' = <<>> /\ bat' = <<>> /\ cur' = 0
               /\ pixoff' = 0 /\ pixrem' = 0
               /\ UNCHANGED <<callvars, held, chunk, bo, prev>>

WriteHeader == /\ phase = "header" /\ Write("header", HeaderLen) /\ phase' = "serialize"
               /\ UNCHANGED <<callvars, held, argvars, tabvars, cur, loopvars>>

SizeOf(name) == CASE Kind(name) = "pix" -> PixSize(npix)
                  [] Kind(name) = "dnd" -> DndSize(shape)
                  [] OTHER              -> RegSize[name]

(* blocks registered by a call, in the order in which that call registers them *)
CallBlocks(it) == CASE it = "pix"  -> <<ExpData, PixMeta, PixData>>
                    [] it = "det"  -> <<DetPar>>
                    [] it = "dnd"  -> <<DndMeta, DndData>>
                    [] it = "inst" -> <<Instruments>>
                    [] it = "samp" -> <<Samples>>
RECURSIVE InCallOrder(_)
InCallOrder(o) == IF o = <<>> THEN <<>> ELSE CallBlocks(Head(o)) \o InCallOrder(Tail(o))

(* the table lists what the builder holds *)
TableOrder == IF Bug = "callorder" THEN <<MainHeader>> \o InCallOrder(order)
              ELSE SelectSeq(Canon, LAMBDA n : n \in ExpectedNames(held))

SerializeBlocks ==
    /\ phase = "serialize" /\ phase' = "bat"
    /\ blocks' = [i \in 1..Len(TableOrder) |->
                    [name |-> TableOrder[i], kind |-> Kind(TableOrder[i]), size |-> SizeOf(TableOrder[i])]]
    /\ UNCHANGED <<callvars, held, argvars, bat, cur, loopvars, writes, flen, fsize>>

WriteBAT ==
    /\ phase = "bat" /\ phase' = "blocks" /\ cur' = 1
    /\ LET names == [i \in 1..Len(blocks) |-> blocks[i].name]
           sizes == [i \in 1..Len(blocks) |-> blocks[i].size]
           first == flen + BatLen(names)
           pos   == IF Bug = "nopatch" THEN [i \in 1..Len(blocks) |-> 0] ELSE Positions(sizes, first)
       IN /\ bat' = [i \in 1..Len(blocks) |->
                        [name |-> blocks[i].name, kind |-> blocks[i].kind, pos |-> pos[i], size |-> blocks[i].size]]
          /\ Write("bat", BatLen(names))
    /\ UNCHANGED <<callvars, held, argvars, blocks, loopvars>>

NextBlock == IF cur = Len(bat) THEN phase' = "done" /\ cur' = cur ELSE phase' = "blocks" /\ cur' = cur + 1

WriteRegular == /\ phase = "blocks" /\ cur <= Len(bat) /\ bat[cur].kind = "regular"
                /\ Write("regular", bat[cur].size) /\ NextBlock
                /\ UNCHANGED <<callvars, held, argvars, tabvars, loopvars>>

(* histogram: rank and extents, then values, errors (f64) and counts (u64), all zero *)
WriteDnd == /\ phase = "blocks" /\ cur <= Len(bat) /\ bat[cur].kind = "dnd"
            /\ writes' = writes \o << <<"dndshape", flen, 4 + 4 * Len(shape)>>,
                                       <<"dndarr", flen + 4 + 4 * Len(shape), 8 * Prod(shape)>>,
                                       <<"dndarr", flen + 4 + 4 * Len(shape) + 8 * Prod(shape), 8 * Prod(shape)>>,
                                       <<"dndarr", flen + 4 + 4 * Len(shape) + 16 * Prod(shape), 8 * Prod(shape)>> >>
            /\ flen' = flen + 4 + 4 * Len(shape) + 24 * Prod(shape)
            /\ fsize' = Max(fsize, flen + 4 + 4 * Len(shape) + 24 * Prod(shape))
            /\ NextBlock
            /\ UNCHANGED <<callvars, held, argvars, tabvars, loopvars>>

(* pixel block: u32 row count, u64 pixel count, then the chunk loop *)
WritePixHead == /\ phase = "blocks" /\ cur <= Len(bat) /\ bat[cur].kind = "pix"
                /\ Write("pixhead", 4 + 8) /\ phase' = "pix" /\ pixoff' = 0 /\ pixrem' = npix
                /\ UNCHANGED <<callvars, held, argvars, tabvars, cur>>

(* the loop runs over the PIXELS in steps of `chunk`; the negative control bounds it by the  *)
(* number of rows instead                                                                     *)
LoopBound == IF Bug = "rows" THEN NRows ELSE npix

PixChunk == /\ phase = "pix" /\ pixoff < LoopBound
            /\ LET n == Min(chunk, pixrem)
               IN /\ Write("pixchunk", NRows * 4 * n) /\ pixrem' = pixrem - n
            /\ pixoff' = pixoff + chunk
            /\ UNCHANGED <<callvars, held, argvars, phase, tabvars, cur>>

(* writing the file does not use up the builder (the negative control lets go of the pixels) *)
PixDone == /\ phase = "pix" /\ pixoff >= LoopBound
           /\ NextBlock
           /\ held' = IF Bug = "release" THEN held \ {"pix"} ELSE held
           /\ UNCHANGED <<callvars, argvars, tabvars, loopvars, writes, flen, fsize>>

Next == \/ \E n \in NPix : AddPixelData(n)
        \/ \E sh \in Shapes : AddEmptyDndData(sh)
        \/ \E it \in {"det", "inst", "samp"} : AddSimple(it)
        \/ \E c \in Chunks, b \in ByteOrders, pv \in Prev : Create(c, b, pv)
        \/ CreateAgain
        \/ WriteHeader \/ SerializeBlocks \/ WriteBAT
        \/ WriteRegular \/ WriteDnd \/ WritePixHead \/ PixChunk \/ PixDone

Spec == Init /\ [][Next]_vars

-----------------------------------------------------------------------------
(* Properties                                                                               *)
Extents == [i \in 1..Len(bat) |-> <<bat[i].pos, bat[i].size>>]
BatEnd == HeaderLen + BatLen([i \in 1..Len(bat) |-> bat[i].name])

TypeOK == /\ reg \subseteq Items /\ held \subseteq reg /\ Range(order) = reg /\ NoDup(order)
          /\ flen >= 0 /\ pixrem >= 0 /\ fsize >= 0 /\ gen \in 0..MaxGen

(* the file begins with the header *)
HeaderFirst == writes # <<>> => writes[1] = <<"header", 0, HeaderLen>>

(* the file is written front to back: every write starts where the previous one ended *)
Sequential == /\ \A i \in 1..(Len(writes) - 1) : writes[i+1][2] = writes[i][2] + writes[i][3]
              /\ (writes # <<>> => writes[Len(writes)][2] + writes[Len(writes)][3] = flen)

(* every block lands exactly in its declared extent *)
BlockAtDeclaredPosition ==
    (phase = "blocks" /\ cur <= Len(bat)) => flen = bat[cur].pos

(* the declared extents tile the file from the end of the table to end-of-file (the length a   *)
(* reader finds, not merely the last position written)                                        *)
Tiling == phase = "done" => Tiles(Extents, BatEnd, fsize)

(* nothing of what the target held before survives: the file ends where the last write ended, *)
(* whatever was there before and however often create() is called                              *)
NothingSurvives == phase = "done" => fsize = flen

(* each block of every registered call exactly once, nothing else *)
EachBlockOnce == phase \in {"blocks", "pix", "done"} =>
    /\ NoDup([i \in 1..Len(bat) |-> bat[i].name])
    /\ {bat[i].name : i \in 1..Len(bat)} = ExpectedNames(reg)

(* the table order is a function of the SET of calls, not of their order *)
CanonicalOrder == phase \in {"blocks", "pix", "done"} =>
    [i \in 1..Len(bat) |-> bat[i].name] = SelectSeq(Canon, LAMBDA n : n \in ExpectedNames(reg))

(* the bytes written for the pixel block are the declared size *)
PixWrites == {i \in 1..Len(writes) : writes[i][1] \in {"pixhead", "pixchunk"}}
RECURSIVE SumWrites(_)
SumWrites(I) == IF I = {} THEN 0 ELSE LET i == CHOOSE j \in I : TRUE IN writes[i][3] + SumWrites(I \ {i})
PixBytes == (phase = "done" /\ "pix" \in reg) => SumWrites(PixWrites) = PixSize(npix)

(* declared kinds and computed sizes *)
KindsAndSizes == phase \in {"blocks", "pix", "done"} =>
    \A i \in 1..Len(bat) :
        /\ bat[i].kind = Kind(bat[i].name)
        /\ (bat[i].kind = "pix" => bat[i].size = PixSize(npix))
        /\ (bat[i].kind = "dnd" => bat[i].size = DndSize(shape))

(* a reader deduces the byte order the file was written in *)
ByteOrderReopened == DeducedOrder(bo) = bo
=============================================================================
