SPECIFICATION Spec
CONSTANTS
  Universe <- UQ
  ArgSeq <- ArgsQ
  MaxSteps = 4
  LibKnown <- LibQ
  Bug = "first"
  Export = FALSE
INVARIANT OrderFree
CHECK_DEADLOCK FALSE
