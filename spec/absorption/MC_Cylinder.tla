---------------------------- MODULE MC_Cylinder ----------------------------
(* Exhaustive model = Cylinder with the constant sets of CylinderSets (see the cfg files).     *)
EXTENDS Cylinder, CylinderSets
=============================================================================
