---------------------------- MODULE PlateauDefs ----------------------------
(* Pure (state-free) definitions shared by the state machine Plateaus and by the trace  *)
(* specification Trace_Plateaus: exceeding slopes, maximal runs, plateaus, in-phase.     *)
EXTENDS Integers, Sequences, FiniteSets

Abs(a) == IF a < 0 THEN -a ELSE a

(* The slope between points i and i+1 exceeds the tolerance:  |dy|/dx > num/den  *)
ExceedsOf(y, dx, tol, i) == Abs(y[i+1] - y[i]) * tol[2] > tol[1] * dx[i]

(* Declarative definition: maximal runs <<a, b>> (inclusive, 1-based).          *)
MaxRunsOf(y, dx, tol) ==
    LET n == Len(y)
        Ex(i) == ExceedsOf(y, dx, tol, i)
    IN { r \in (1..n) \X (1..n) :
           /\ r[1] <= r[2]
           /\ \A i \in r[1]..(r[2]-1) : ~Ex(i)
           /\ (r[1] = 1 \/ Ex(r[1]-1))
           /\ (r[2] = n \/ Ex(r[2])) }

(* Plateaus: the maximal runs with at least minn points, as a sequence in input order. *)
RECURSIVE SortRuns(_)
SortRuns(S) == IF S = {} THEN <<>>
               ELSE LET m == CHOOSE r \in S : \A q \in S : r[1] <= q[1]
                    IN <<m>> \o SortRuns(S \ {m})

PlateausOf(y, dx, tol, minn) ==
    SortRuns({ r \in MaxRunsOf(y, dx, tol) : r[2] - r[1] + 1 >= minn })

(* In-phase predicate on rationals x = <<xn, xd>>, ref = <<rn, rd>>, rtol = <<tn, td>>  *)
(* Dist(p, q) < t  where Dist is the distance of p/q to the nearest integer (q > 0).    *)
NearInt(p, q, t) ==
    LET r == p % q
        m == IF r <= q - r THEN r ELSE q - r
    IN m * t[2] < t[1] * q

Sgn(a) == IF a < 0 THEN -1 ELSE IF a = 0 THEN 0 ELSE 1

InPhase(x, ref, rtol) ==
    LET p == x[1] * ref[2]      \* x/ref = p/q
        q == x[2] * ref[1]
        pp == p * Sgn(q)  qq == Abs(q)
    IN \/ NearInt(pp, qq, rtol)
       \/ (x[1] # 0 /\ NearInt(qq * Sgn(pp), Abs(pp), rtol))
=============================================================================
