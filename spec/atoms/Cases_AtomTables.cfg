
