SPECIFICATION Spec
CONSTANTS
  AxisQuats <- MC_AxisQuatsQuick
  Bases <- MC_OneBase
  Radii = {1, 2}
  Heights = {1, 3}
  Points <- MC_Points
  CubeQuats <- MC_CubeQuats
  SkewQuats <- MC_SkewQuats
  Shifts <- MC_Shifts
  MaxMoves = 1
  Starts <- MC_Empty
  Dirs <- MC_Empty
  K = 2
  J = 1
  Bug = "otherend_keeps_axis"
INVARIANT FrameOK
INVARIANT InsideInvariant
INVARIANT ChordSandwich
INVARIANT LengthIsMeasure
INVARIANT ClassOK
CHECK_DEADLOCK FALSE
