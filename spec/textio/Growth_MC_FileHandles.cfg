SPECIFICATION Spec
CONSTANTS
  Kinds = {"path", "stringio", "bytesio", "textfile", "binfile"}
  Modes = {"w", "r+", "r"}
  Sizes = {0, 2}
  MaxUses = 2
  MaxBody = 2
  Bug = "none"
INVARIANT TypeOK
INVARIANT CallersStaysOpen
INVARIANT NoLeak
INVARIANT Identity
INVARIANT NothingOpenedForHandles
INVARIANT Emit
PROPERTY NeverClosesCallers
PROPERTY EnterKeepsHandle
PROPERTY ExitKeepsContent
PROPERTY PathTruncation
CHECK_DEADLOCK FALSE
