---------------------- MODULE Growth_MC_NexusChopper ----------------------
(* Bounds for the NeXus-chopper growth model (K = 8 ticks of 45 degrees).                    *)
EXTENDS Growth_NexusChopper

TableQ == { <<0, 2, 3, 6>>,      \* two slits
            <<6, 9, 0, 2>> }     \* overlapping across top-dead-centre
TableT == TableQ \cup { <<0, 2, 3>>, <<>> }      \* odd number of edges, no slit
GeoQ   == SeqsOver(SlitsSmall, 2) \cup OddLists \cup Unspecified
GeoT   == SeqsOver(SlitsLarge, 3) \cup OddLists \cup Unspecified
=============================================================================
