--------------------------- MODULE Trace_Beamline ---------------------------
(* Judges recorded executions of the straight-beamline kernels and accessors (C03).      *)
(* One NDJSON line per replayed case.  For lattice cases the event holds the integer     *)
(* coordinates the harness fed to the code (positions / 2^s), the transformation, and    *)
(* the exact integers the harness used as its reference: TLC recomputes both with the    *)
(* operators of BeamlineDefs, so a harness whose reference differs from the              *)
(* specification is rejected.  Numeric closeness was measured by the harness against     *)
(* mpmath values of the spec's exact terms and arrives as integers:                      *)
(*    e_tt ... : |2theta_code - 2theta_exact| in units of 1e-16 rad (rounded up)         *)
(*    e_len    : largest relative length error in units of 2^-53                         *)
(* Every event is judged (total verdicts, failing clause named).                         *)
EXTENDS BeamlineDefs, TLC, Json, IOUtils

Tr == ndJsonDeserialize(IOEnv.TRACE_FILE)

AngTol  == 30     \* 3e-15 rad  (< 7 ulp of pi), DESIGN 3.4
LenTol  == 8      \* 4 eps relative
Sum32Tol == 2     \* float32 sum: 1 ulp(float32) = 2 * 2^-24 relative

VARIABLES l, nbad
tvars == <<l, nbad>>

Numeric(o) ==
    IF ~o.returned THEN "kernel_raised"
    ELSE IF ~o.shape_ok THEN "result_has_wrong_shape"
    ELSE IF ~o.beams_exact THEN "beam_is_not_the_position_difference"
    ELSE IF ~o.unit_ok THEN "unit_or_dtype_of_result"
    ELSE IF o.e_len > LenTol THEN "length_not_euclidean"
    ELSE IF ~o.inrange THEN "two_theta_outside_0_pi"
    ELSE IF o.e_tt > AngTol THEN "two_theta_inaccurate"
    ELSE IF o.e_sw > AngTol THEN "two_theta_not_symmetric_in_its_beams"
    ELSE IF o.e_acc > AngTol THEN "accessor_two_theta_inaccurate"
    ELSE IF o.e_acclen > LenTol THEN "accessor_length_not_euclidean"
    ELSE "ok"

JudgePair(e) ==
    IF ~Proper(e.c) THEN "improper_configuration"
    ELSE IF Apply(e.act, e.p, e.c) # e.c2 THEN "fed_configuration_is_not_the_spec_transformation"
    ELSE IF Exact(e.c) # e.x \/ Exact(e.c2) # e.x2 THEN "harness_reference_differs_from_spec"
    ELSE IF Cls(e.c) # Cls(e.c2) THEN "angle_class_changed"
    ELSE IF Numeric(e.o) # "ok" THEN Numeric(e.o)
    ELSE IF Numeric(e.o2) # "ok" THEN Numeric(e.o2)
    ELSE IF e.d_tt > 2 * AngTol THEN "two_theta_changed_by_" \o e.act
    ELSE "ok"

JudgeNear(e) ==
    LET t == IF e.fam = "par" THEN NearParallelTerms(e.b1, e.k, e.sgn, e.p)
             ELSE NearPerpTerms(e.b1, e.q, e.p)
    IN  IF t # e.t THEN "harness_reference_differs_from_spec"
        ELSE IF ~e.terms_ok THEN "exact_products_do_not_match_spec_terms"
        ELSE IF e.fam = "perp" /\ Dot(e.b1, e.q) # 0 THEN "not_a_perpendicular_family"
        ELSE IF Numeric(e.o) # "ok" THEN Numeric(e.o)
        ELSE IF e.side # NearClass(e.fam, e.sgn) THEN "wrong_end_of_the_range"
        ELSE "ok"

JudgeRand(e) == Numeric(e.o)

(* a batch element of a layout: TLC recomputes the configuration the pixel must see from  *)
(* the shared and the per-pixel record (Element) and its exact integers; the observation   *)
(* carries, besides the kernel / accessor errors, the name of the first call that raised,  *)
(* the errors of the coordinate-graph route (intermediate results included), of two_theta  *)
(* with the two beams given in different length units, and whether the operands survived.  *)
NumericLay(o) ==
    IF o.raised # "" THEN "raised_in_" \o o.raised
    ELSE IF Numeric(o) # "ok" THEN Numeric(o)
    ELSE IF ~o.graph_beams_exact THEN "graph_beam_is_not_the_position_difference"
    ELSE IF o.e_graphlen > LenTol THEN "graph_length_not_euclidean"
    ELSE IF o.e_graph > AngTol THEN "graph_two_theta_inaccurate"
    ELSE IF o.e_mix > AngTol THEN "two_theta_depends_on_the_length_units_of_its_beams"
    ELSE IF ~o.inputs_kept THEN "operand_modified_in_place"
    \* asym: class of the exception two_theta raised when its incident beam had a dim (per-pixel) that its
    \* scattered beam lacked ("" if it returned); judged last so that everything else is still decided
    ELSE IF o.asym # "" THEN "two_theta_raised_" \o o.asym
    ELSE "ok"

JudgeLay(e) ==
    LET c == Element(e.layout, e.shared, e.pix) IN
    IF e.layout \notin Layouts \/ e.mem \notin Memories THEN "unknown_layout"
    ELSE IF ~Proper(c) THEN "improper_configuration"
    ELSE IF c # e.c THEN "fed_configuration_is_not_the_spec_broadcast"
    ELSE IF Exact(c) # e.x THEN "harness_reference_differs_from_spec"
    ELSE NumericLay(e.o)

(* random float instruments in the mixed layouts (no lattice configuration to recompute) *)
JudgeRandLay(e) == IF e.layout \notin Layouts \/ e.mem \notin Memories THEN "unknown_layout" ELSE NumericLay(e.o)

(* second use: a sample of the cases above evaluated again at the end of the run, in      *)
(* another order and in other company; "held" = the result objects were kept while a      *)
(* later call of the same shape ran and only then looked at.                               *)
JudgeAgain(e) == Numeric(e.o)

(* e32 is measured in the unit of the narrowest operand: 2^-24 if a float32 takes part    *)
(* (then a float32 or a float64 result is accepted), 2^-53 for float64 + float64            *)
JudgeSum32(e) == IF e.e32 > Sum32Tol THEN "float32_sum_inaccurate"
                 ELSE IF ~e.dtype_ok THEN "float32_sum_dtype" ELSE "ok"

Judge(e) == CASE e.ev = "pair"  -> JudgePair(e)
              [] e.ev = "near"  -> JudgeNear(e)
              [] e.ev = "rand"  -> JudgeRand(e)
              [] e.ev = "sum32" -> JudgeSum32(e)
              [] e.ev = "lay"   -> JudgeLay(e)
              [] e.ev = "rlay"  -> JudgeRandLay(e)
              [] e.ev = "again" -> JudgeAgain(e)
              [] OTHER -> "unknown_event"

TInit == l = 1 /\ nbad = 0
TNext == /\ l <= Len(Tr)
         /\ l' = l + 1
         /\ LET v == Judge(Tr[l]) IN
            /\ nbad' = IF v = "ok" THEN nbad ELSE nbad + 1
            /\ (v = "ok" \/ PrintT(<<"REJECT", l, Tr[l].tid, v>>))
TSpec == TInit /\ [][TNext]_tvars
Done == (l = Len(Tr) + 1) => PrintT(<<"DONE", l - 1, nbad>>)
=============================================================================
