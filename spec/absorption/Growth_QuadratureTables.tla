---------------------- MODULE Growth_QuadratureTables ----------------------
(* Growth module (beyond property C18): how a cylinder rule is assembled from a symmetric    *)
(* disk rule and a symmetric line rule.                                                      *)
(*                                                                                          *)
(* State machine.  A point group is chosen; the disk rule grows by whole orbits of lattice   *)
(* generators (AddOrbit: every distinct image once; AddListedOrbit: one entry per group      *)
(* element, as published tables do for generators on a mirror line - coincident entries);    *)
(* the line rule grows by pairs +-z (AddPair) and the node 0 (AddCentre), kept ascending;    *)
(* MakeProduct forms the product rule.  All arithmetic is exact (integers).                  *)
(*                                                                                          *)
(* Invariants = what makes such a table a quadrature rule worth bundling:                    *)
(*   the measure is invariant under the group, consists of complete orbits whose sizes       *)
(*   divide the group order, only the centre is fixed by a rotation; a listed orbit is the   *)
(*   same measure as the plain one; every moment is invariant under the group, so odd        *)
(*   moments vanish when the point reflection is in the group and the second moments are     *)
(*   isotropic for a rotation of order >= 3; the line rule is symmetric, strictly ordered,   *)
(*   its odd moments vanish; the product is the Cartesian product with product weights, its  *)
(*   total weight and all its moments factorise, it is invariant under group x {z -> -z}.    *)
(* Constant-level (ASSUME): group orders, isometry, the symbolic Gauss-Legendre and          *)
(* sin-weighted Chebyshev rules for k <= 3 and two classical disk rules with their exact     *)
(* degree of exactness, the node-count rule, and the export of cases for the replay.         *)
EXTENDS Growth_QuadratureDefs, TLC, Json, IOUtils

CONSTANTS Groups,      \* subset of GroupNames explored
          Gens,        \* candidate generators (lattice points)
          Weights,     \* candidate weights of disk points
          LineWeights, \* candidate weights of line nodes
          MaxOrbits,
          Nodes,       \* candidate positive line nodes
          MaxPairs,
          MaxDeg,      \* moments up to this total degree
          Bug          \* "none" | "half_orbit" | "tiled_x"

VARIABLES phase, grp, disk, line, prod
vars == <<phase, grp, disk, line, prod>>

G == GroupOf(grp)

Init == /\ phase = "build" /\ grp \in Groups /\ disk = <<>> /\ line = <<>> /\ prod = <<>>

NOrbitsAdded == Cardinality(OrbitsOf(disk, G))

AddOrbit(g, w) ==
    /\ phase = "build" /\ NOrbitsAdded < MaxOrbits
    /\ g \notin PointsOf(disk)
    /\ disk' = disk \o (IF Bug = "half_orbit"
                        THEN PlainOrbit({Id} \cup Generators(grp), g, w)   \* images under the generators only
                        ELSE PlainOrbit(G, g, w))
    /\ UNCHANGED <<phase, grp, line, prod>>

AddListedOrbit(g, w) ==
    /\ phase = "build" /\ NOrbitsAdded < MaxOrbits
    /\ g \notin PointsOf(disk)
    /\ disk' = disk \o ListedOrbit(G, g, w)
    /\ UNCHANGED <<phase, grp, line, prod>>

InsertSorted(s, e) ==
    LET lo == SelectSeq(s, LAMBDA x : x[1] < e[1])
        hi == SelectSeq(s, LAMBDA x : x[1] > e[1])
    IN lo \o <<e>> \o hi

AddPair(z, w) ==
    /\ phase = "build" /\ Len(line) < 2 * MaxPairs
    /\ \A j \in 1..Len(line) : line[j][1] # z
    /\ line' = InsertSorted(InsertSorted(line, <<z, w>>), <<-z, w>>)
    /\ UNCHANGED <<phase, grp, disk, prod>>

AddCentre(w) ==
    /\ phase = "build"
    /\ \A j \in 1..Len(line) : line[j][1] # 0
    /\ line' = InsertSorted(line, <<0, w>>)
    /\ UNCHANGED <<phase, grp, disk, prod>>

MakeProduct ==
    /\ phase = "build" /\ disk # <<>> /\ line # <<>>
    /\ phase' = "product"
    /\ prod' = IF Bug = "tiled_x" THEN ProductTiledX(disk, line) ELSE ProductOf(disk, line)
    /\ UNCHANGED <<grp, disk, line>>

Next == \/ \E g \in Gens, w \in Weights : AddOrbit(g, w) \/ AddListedOrbit(g, w)
        \/ \E z \in Nodes, w \in LineWeights : AddPair(z, w)
        \/ \E w \in LineWeights : AddCentre(w)
        \/ MakeProduct
Spec == Init /\ [][Next]_vars

-----------------------------------------------------------------------------
Degs == {<<a, b>> \in (0..MaxDeg) \X (0..MaxDeg) : a + b <= MaxDeg}

(* disk *)
DiskInvariantUnderGroup == InvariantUnder(disk, G)
CompleteOrbits ==
    /\ PointsOf(disk) = UNION OrbitsOf(disk, G)
    /\ \A O \in OrbitsOf(disk, G) : ExpectedOrder(grp) % Cardinality(O) = 0
    /\ \A p \in PointsOf(disk) : Cardinality(Orbit(G, p)) * Cardinality(Stabiliser(G, p)) = ExpectedOrder(grp)
OnlyCentreFixedByRotation ==
    \A p \in PointsOf(disk) : \A m \in G : (m # Id /\ Det(m) = 1 /\ Apply(m, p) = p) => p = <<0, 0>>
WeightBookkeeping ==
    TotalWeight(disk) = SumOver(MeasureOf(disk), PointsOf(disk))
MomentsInvariant ==          \* under the generators, hence under the group
    \A m \in Generators(grp) : \A d \in Degs : Moment(Moved(disk, m), grp, d[1], d[2]) = Moment(disk, grp, d[1], d[2])
OddMomentsVanish ==
    MinusId \in G => \A d \in Degs : (d[1] + d[2]) % 2 = 1 => Moment(disk, grp, d[1], d[2]) = 0
MirrorMomentsVanish ==
    /\ MirrorX \in G => \A d \in Degs : d[2] % 2 = 1 => Moment(disk, grp, d[1], d[2]) = 0
    /\ MirrorY \in G => \A d \in Degs : d[1] % 2 = 1 => Moment(disk, grp, d[1], d[2]) = 0
IsotropicSecondMoments ==
    (MaxDeg >= 2 /\ grp \in {"C4", "D4", "C3h", "C6h"}) =>
        /\ Moment(disk, grp, 1, 1) = 0
        /\ Moment(disk, grp, 2, 0) = (IF Hex(grp) THEN 3 ELSE 1) * Moment(disk, grp, 0, 2)

(* line *)
LineOK == /\ LineSymmetric(line) /\ LineStrictlyMonotone(line)
          /\ \A j \in 1..Len(line) : line[j][2] > 0
LineOddMomentsVanish == \A c \in 0..MaxDeg : c % 2 = 1 => LineMomentOf(line, c) = 0

(* product *)
InProduct == phase = "product"
ProductIsCartesian ==
    InProduct =>
        /\ Len(prod) = Len(disk) * Len(line)
        /\ \A i \in 1..Len(disk) : \A j \in 1..Len(line) :
              Cardinality({n \in 1..Len(prod) :
                  /\ prod[n].x = disk[i].p[1] /\ prod[n].y = disk[i].p[2] /\ prod[n].z = line[j][1]
                  /\ prod[n].w = disk[i].w * line[j][2]})
              = Cardinality({i2 \in 1..Len(disk) : disk[i2] = disk[i]})     \* once per listed entry
ProductTotalWeight ==
    InProduct => SumSeq([n \in 1..Len(prod) |-> prod[n].w]) = TotalWeight(disk) * LineTotal(line)
ProductMomentsFactorise ==
    InProduct => \A d \in Degs : \A c \in 0..MaxDeg :
        ProductMoment(prod, grp, d[1], d[2], c) = Moment(disk, grp, d[1], d[2]) * LineMomentOf(line, c)
ProductSymmetric ==          \* generators of group x {z -> -z}; with the point reflection in the group: inversion through the centre
    InProduct => \A n \in 1..Len(prod) : \A ms \in ({<<m, 1>> : m \in Generators(grp)} \cup {<<Id, -1>>} \cup
                                                    (IF MinusId \in G THEN {<<MinusId, -1>>} ELSE {})) :
        LET m == ms[1]
            s == ms[2]
        IN
        LET q == Apply(m, <<prod[n].x, prod[n].y>>)
            same(k) == prod[k].x = prod[n].x /\ prod[k].y = prod[n].y /\ prod[k].z = prod[n].z
            img(k) == prod[k].x = q[1] /\ prod[k].y = q[2] /\ prod[k].z = s * prod[n].z
        IN SumOver([k \in 1..Len(prod) |-> prod[k].w], {k \in 1..Len(prod) : img(k)})
           = SumOver([k \in 1..Len(prod) |-> prod[k].w], {k \in 1..Len(prod) : same(k)})
ProductLayout ==             \* the refinement "line index fastest" satisfies the order-free definition
    InProduct => IsCartesian([n \in 1..Len(prod) |-> PairOf(n, Len(line))[1]],
                             [n \in 1..Len(prod) |-> PairOf(n, Len(line))[2]], Len(disk), Len(line))

-----------------------------------------------------------------------------
(* constant level (the theorems guarded by Bug = "none" are skipped in the negative-control runs) *)
ASSUME \A name \in GroupNames :
    /\ Cardinality(GroupOf(name)) = ExpectedOrder(name)
    /\ \A m \in GroupOf(name) : Det(m) \in {1, -1}
    /\ \A m \in GroupOf(name) : \A p \in Gens : Norm2(name, Apply(m, p)) = Norm2(name, p)     \* isometries
    /\ \A A \in GroupOf(name) : \E B \in GroupOf(name) : MMul(A, B) = Id                      \* inverses

(* a listed orbit and the plain orbit with weight w * |stabiliser| are the same measure *)
ASSUME Bug = "none" => \A name \in GroupNames : \A g \in Gens : \A w \in Weights :
    MeasureOf(ListedOrbit(GroupOf(name), g, w))
      = MeasureOf(PlainOrbit(GroupOf(name), g, w * Cardinality(Stabiliser(GroupOf(name), g))))

(* line rules with k <= 3 nodes: Gauss-Legendre is exact to degree 2k-1 and not to 2k; the    *)
(* sin-weighted Chebyshev rule is exact to degree 1 only (total weight by normalisation, odd  *)
(* powers by symmetry) for k >= 2                                                             *)
ASSUME Bug = "none" => \A k \in 1..3 :
    /\ SymWellFormed(GaussLegendre(k)) /\ SymNodes(GaussLegendre(k)) = k
    /\ SymExactUpTo(GaussLegendre(k), 2 * k - 1) /\ ~SymExactUpTo(GaussLegendre(k), 2 * k)
    /\ SymWellFormed(ChebyshevSin(k)) /\ SymNodes(ChebyshevSin(k)) = k
    /\ SymExactUpTo(ChebyshevSin(k), 1) /\ (k >= 2 => ~SymExactUpTo(ChebyshevSin(k), 2))

(* two classical disk rules made of complete orbits: exact degree 3 and 5 *)
ASSUME Bug = "none" =>
       /\ ScaledInside(Square4) /\ InvariantUnder(Square4.rule, GroupOf("D4"))
       /\ ScaledExactUpTo(Square4, 3) /\ ~ScaledExactUpTo(Square4, 4)
ASSUME Bug = "none" =>
       /\ ScaledInside(Hexagon7) /\ InvariantUnder(Hexagon7.rule, GroupOf("C6h")) /\ Len(Hexagon7.rule) = 7
       /\ ScaledExactUpTo(Hexagon7, 5) /\ ~ScaledExactUpTo(Hexagon7, 6)

(* node-count rule: within bounds, monotone in the aspect ratio, a tie only at half-integers *)
Aspects == {<<P, Q>> \in (1..30) \X (1..8) : Gcd(P, Q) = 1}
Kinds == {"cheap", "medium", "expensive"}
ASSUME Bug = "none" => \A kind \in Kinds : \A a \in Aspects :
    LET K == KSet(kind, a[1], a[2])
    IN /\ K # {} /\ Cardinality(K) <= 2
       /\ K \subseteq NodesPerAspect(kind)..MaxNodes(kind)
       /\ (Cardinality(K) = 2 => (2 * NodesPerAspect(kind) * a[1]) % a[2] = 0 /\ (NodesPerAspect(kind) * a[1]) % a[2] # 0)
       /\ \A b \in {c \in Aspects : c[2] <= 2} : a[1] * b[2] <= b[1] * a[2] =>
             \A k1 \in K : \A k2 \in KSet(kind, b[1], b[2]) : k1 <= k2 \/ K = KSet(kind, b[1], b[2])

-----------------------------------------------------------------------------
(* spec -> code: cases for the replay (CASES_FILE), written when the variable is set.         *)
(*   prod  : abstract disk rule x line rule with the expected product (as a set of            *)
(*           [x, y, z, w, n] - n = number of times the entry occurs)                           *)
(*   kcount: aspect ratio P/Q per kind with the admissible node counts                        *)
(*   moment: exact disk moments over pi to degree 12                                          *)
(*   table : group (generator matrices in the lattice basis) and published degree per table   *)
(*   symline: the symbolic line rules (k <= 3), to bind the harness' mpmath oracle to them     *)
CaseDisks ==
    { [grp |-> name, rule |-> PlainOrbit(GroupOf(name), g, w)
                              \o (IF ex = 1 THEN ListedOrbit(GroupOf(name), <<0, 2>>, 2) ELSE <<>>)] :
        name \in {"C2", "D2", "C4", "C6h"}, g \in {<<1, 0>>, <<1, 2>>, <<0, 0>>}, w \in {1, 3}, ex \in {0, 1} }
CaseLines == { << <<-2, 1>>, <<2, 1>> >>, << <<-3, 2>>, <<0, 5>>, <<3, 2>> >>, << <<0, 7>> >>,
               << <<3, 1>>, <<1, 2>>, <<-1, 2>>, <<-3, 1>> >> }
ProdEntries(p) ==
    LET keys == {[x |-> p[n].x, y |-> p[n].y, z |-> p[n].z, w |-> p[n].w] : n \in 1..Len(p)}
    IN {[x |-> k.x, y |-> k.y, z |-> k.z, w |-> k.w,
         n |-> Cardinality({n \in 1..Len(p) : p[n].x = k.x /\ p[n].y = k.y /\ p[n].z = k.z /\ p[n].w = k.w})] : k \in keys}
ProdCases ==
    { [ev |-> "prod", grp |-> d.grp,
       dx |-> [i \in 1..Len(d.rule) |-> d.rule[i].p[1]], dy |-> [i \in 1..Len(d.rule) |-> d.rule[i].p[2]],
       dw |-> [i \in 1..Len(d.rule) |-> d.rule[i].w],
       lz |-> [j \in 1..Len(l) |-> l[j][1]], lw |-> [j \in 1..Len(l) |-> l[j][2]],
       total |-> TotalWeight(d.rule) * LineTotal(l),
       entries |-> SetToSeq(ProdEntries(ProductOf(d.rule, l)))] : d \in CaseDisks, l \in CaseLines }
KCases == { [ev |-> "kcount", kind |-> kind, P |-> a[1], Q |-> a[2], ks |-> SetToSeq(KSet(kind, a[1], a[2]))] :
            kind \in Kinds, a \in Aspects }
MomentCases == { [ev |-> "moment", a |-> d[1], b |-> d[2], m |-> DiskMomentOverPi(d[1], d[2])] :
                 d \in {e \in (0..12) \X (0..12) : e[1] + e[2] <= 12} }
TableCases == { [ev |-> "table", table |-> t, grp |-> TableGroup(t), hex |-> Hex(TableGroup(t)),
                  gens |-> SetToSeq(Generators(TableGroup(t))), order |-> ExpectedOrder(TableGroup(t)),
                  degree |-> PublishedDegree(t)] : t \in TableNames }
ASSUME \A t \in TableNames : \A m \in Generators(TableGroup(t)) : MatOrder(m) \in 2..6
SymSeq(rule) == LET q == SetToSeq(rule) IN [i \in 1..Len(q) |-> [z2 |-> q[i].z2, w |-> q[i].w, mult |-> q[i].mult]]
SymCases == { [ev |-> "symline", family |-> "legendre", k |-> k, nodes |-> SymSeq(GaussLegendre(k))] : k \in 1..3 }
            \cup { [ev |-> "symline", family |-> "chebyshev_sin", k |-> k, nodes |-> SymSeq(ChebyshevSin(k))] : k \in 1..3 }
ASSUME "CASES_FILE" \in DOMAIN IOEnv =>
    /\ ndJsonSerialize(IOEnv.CASES_FILE, SetToSeq(ProdCases) \o SetToSeq(KCases) \o SetToSeq(MomentCases) \o SetToSeq(TableCases) \o SetToSeq(SymCases))
    /\ PrintT(<<"CASES", Cardinality(ProdCases), Cardinality(KCases), Cardinality(MomentCases)>>)
=============================================================================
