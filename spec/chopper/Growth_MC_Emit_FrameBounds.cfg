SPECIFICATION ESpec
CONSTANTS
  Pulses <- MC_PulsesQ
  Choppers <- MC_ChoppersQ
  MaxChops = 2
  L = 12
  Stride = 11
  Deltas <- MC_Deltas
