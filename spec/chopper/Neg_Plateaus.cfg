SPECIFICATION Spec
CONSTANTS
  MaxLen = 5
  Vals = {0, 1, 2, 3}
  Steps = {1, 2, 4}
  Atols <- MC_Atols
  Bug = "ge"
INVARIANT TypeOK
INVARIANT GroupsAreMaxRuns
INVARIANT Partition
INVARIANT GidMonotone
INVARIANT CollapseDisjoint
CHECK_DEADLOCK FALSE
