-------------------------- MODULE Trace_PeakModels --------------------------
(* Judges recorded observations of the real models against PeakModelsDefs.  One NDJSON     *)
(* line per observation; a rejected line prints <<"REJECT", line, tid, clause>>, the run    *)
(* ends with <<"DONE", n, nbad>>.  Events (field `ev`):                                      *)
(*  names   param_names of a constructed model expression, or the refusal to construct it   *)
(*  call    model(x, **params) with a given key set: accepted or refused                    *)
(*  aux     keys of guess() and param_bounds                                                *)
(*  poly    integer polynomial: coefficients, points, values returned (exact)               *)
(*  unit    unit of the result (or refusal) for given parameter / coordinate units          *)
(*  sum     unit of a composite from the units of its parts                                 *)
(*  flags   numeric comparisons made by the harness against 50-digit closed forms           *)
(*          (point values, symmetry, half maximum, FWHM, integral, bitwise equalities)      *)
EXTENDS PeakModelsDefs, TLC, Json, IOUtils

Tr == ndJsonDeserialize(IOEnv.TRACE_FILE)
VARIABLES ln, nbad
tvars == <<ln, nbad>>

SeqToSet(s) == {s[i] : i \in 1..Len(s)}

JudgeNames(e) ==
    LET mm == e.model
        clash == mm.kind = "comp" /\ ComposeOutcome(mm.left, mm.right) = "refused"
    IN IF clash THEN (IF e.out = "refused" THEN "ok" ELSE "overlapping_names_not_refused")
       ELSE IF e.out = "refused" THEN "composition_refused_without_overlap"
       ELSE IF Len(e.names) # Cardinality(SeqToSet(e.names)) THEN "duplicate_names"
       ELSE IF SeqToSet(e.names) # Names(mm) THEN "param_names_differ"
       ELSE "ok"

JudgeCall(e) ==
    LET want == CallOutcome(e.model, SeqToSet(e.keys))
    IN IF e.out = want THEN "ok"
       ELSE IF want = "refused" THEN "missing_or_unknown_parameters_accepted"
       ELSE "exact_parameters_refused"

JudgeAux(e) ==
    IF SeqToSet(e.guess_keys) # Names(e.model) THEN "guess_keys_are_not_the_parameter_names"
    ELSE IF ~(SeqToSet(e.bounds_keys) \subseteq Names(e.model)) THEN "bounds_keys_are_not_parameter_names"
    ELSE IF ~e.guess_same THEN "guess_depends_on_prefix"
    ELSE IF ~e.bounds_same THEN "bounds_depend_on_prefix"
    ELSE "ok"

JudgePoly(e) ==
    IF e.out = "refused" THEN "polynomial_refused"
    ELSE IF e.out # "ok" THEN "polynomial_is_not_sum_a_i_x_i"
    ELSE IF Len(e.got) # Len(e.xs) THEN "polynomial_shape"
    ELSE IF \E i \in 1..Len(e.xs) : e.got[i] # PolyValue(e.coefs, e.xs[i]) THEN "polynomial_is_not_sum_a_i_x_i"
    ELSE "ok"

JudgeUnit(e) ==
    LET want == ResultUnit(e.kind, e.pu, e.ux)
    IN IF e.out = want THEN "ok"
       ELSE IF want = URefused THEN "inconsistent_units_accepted"
       ELSE IF e.out = URefused THEN "consistent_units_refused"
       ELSE "result_unit_differs"

JudgeSum(e) ==
    LET want == SumUnit(e.a, e.b)
    IN IF e.out = want THEN "ok"
       ELSE IF want = URefused THEN "inconsistent_units_accepted"
       ELSE IF e.out = URefused THEN "consistent_units_refused"
       ELSE "result_unit_differs"

JudgeFlags(e) ==
    IF e.out # "ok" THEN "evaluation_refused"
    ELSE IF \E i \in 1..Len(e.flags) : ~e.flags[i][2] THEN
        (LET i0 == CHOOSE i \in 1..Len(e.flags) : ~e.flags[i][2] /\ \A j \in 1..(i-1) : e.flags[j][2]
         IN e.flags[i0][1])
    ELSE "ok"

Judge(e) == CASE e.ev = "names" -> JudgeNames(e)
              [] e.ev = "call" -> JudgeCall(e)
              [] e.ev = "aux" -> JudgeAux(e)
              [] e.ev = "poly" -> JudgePoly(e)
              [] e.ev = "unit" -> JudgeUnit(e)
              [] e.ev = "sum" -> JudgeSum(e)
              [] e.ev = "flags" -> JudgeFlags(e)
              [] OTHER -> "unknown_event"

TInit == ln = 1 /\ nbad = 0
TNext == /\ ln <= Len(Tr)
         /\ ln' = ln + 1
         /\ LET v == Judge(Tr[ln]) IN
            /\ nbad' = IF v = "ok" THEN nbad ELSE nbad + 1
            /\ (v = "ok" \/ PrintT(<<"REJECT", ln, Tr[ln].tid, v>>))
TSpec == TInit /\ [][TNext]_tvars
Done == (ln = Len(Tr) + 1) => PrintT(<<"DONE", ln - 1, nbad>>)
=============================================================================
