------------------------ MODULE Growth_ChopperSvgDefs ------------------------
(* GROWTH (beyond the 20 listed properties): the slit geometry drawn by                        *)
(* DiskChopper.make_svg / _repr_svg_ (scippneutron/chopper/_svg.py).  The drawing is a single   *)
(* closed SVG path that traces the rim of the disk anticlockwise and dips to the slit depth     *)
(* between the begin and the end edge of every slit, plus one labelled radial mark per edge      *)
(* ("begin<i>", "end<i>", i = position of the slit in slit_begin/slit_end), a TDC mark and a    *)
(* beam-position mark.  Angles are ticks of 1/K turn measured anticlockwise from top-dead-      *)
(* centre, as in DiskChopperDefs.  A drawn path is a sequence of segments                       *)
(*   <<"M", tick>>                 start on the rim                                             *)
(*   <<"L", tick, inner>>          radial edge at `tick`; inner = TRUE: now at slit depth       *)
(*   <<"A", tick, inner, large>>   circular arc, anticlockwise, to `tick` (mod K) at the rim    *)
(*                                 (inner = FALSE) or at slit depth; large = SVG large-arc flag *)
EXTENDS DiskChopperDefs, TLC

ArcWidth(from, to, K) == (((to - from) % K) + K) % K
ArcCells(from, to, K) == { (from + j) % K : j \in 0..(ArcWidth(from, to, K) - 1) }

(* the tick the pen is at before segment i                                                      *)
PenBefore(path, i) == path[i - 1][2]

Arcs(path) == { i \in 2..Len(path) : path[i][1] = "A" }
InnerCells(path, K) == UNION { ArcCells(PenBefore(path, i) % K, path[i][2] % K, K) : i \in { j \in Arcs(path) : path[j][3] } }
OuterCells(path, K) == UNION { ArcCells(PenBefore(path, i) % K, path[i][2] % K, K) : i \in { j \in Arcs(path) : ~path[j][3] } }
RECURSIVE SumWidths(_, _, _)
SumWidths(path, i, K) == IF i > Len(path) THEN 0
                         ELSE (IF path[i][1] = "A" THEN ArcWidth(PenBefore(path, i) % K, path[i][2] % K, K) ELSE 0)
                              + SumWidths(path, i + 1, K)

AllCells(sl, K) == UNION { Cells(sl[i], K) : i \in 1..Len(sl) }

(* judgements on a drawn path for the slits sl                                                  *)
WellFormedPath(path) ==
    /\ Len(path) >= 1 /\ path[1][1] = "M"
    /\ \A i \in 2..Len(path) : path[i][1] \in {"A", "L"}
    /\ \A i \in 2..Len(path) : path[i][1] = "L" => path[i][2] = PenBefore(path, i)     \* radial: same angle
InnerArcsAreTheSlits(path, sl, K) == InnerCells(path, K) = AllCells(sl, K)
OuterArcsAreTheRest(path, sl, K)  == OuterCells(path, K) = (0..(K - 1)) \ AllCells(sl, K)
ExactlyOneTurn(path, K)           == SumWidths(path, 2, K) = K /\ path[Len(path)][2] % K = path[1][2] % K
(* the SVG large-arc flag must agree with the anticlockwise width, otherwise the renderer draws *)
(* the arc around another centre (width exactly K/2: both flags give the same arc)              *)
LargeFlagsRight(path, K) ==
    \A i \in Arcs(path) : LET w == ArcWidth(PenBefore(path, i) % K, path[i][2] % K, K)
                          IN (2 * w > K => path[i][4]) /\ (2 * w < K => ~path[i][4])
(* depth changes exactly at the radial edges                                                    *)
DepthConsistent(path) ==
    \A i \in 2..Len(path) :
        LET before == IF i = 2 THEN FALSE ELSE path[i - 1][3]
        IN IF path[i][1] = "L" THEN path[i][3] # before ELSE path[i][3] = before

(* marks: a sequence of <<kind, idx, tick>>, kind "begin" | "end", idx 0-based as in the labels *)
MarksRight(marks, sl, K) ==
    /\ Len(marks) = 2 * Len(sl)
    /\ \A i \in 1..Len(sl) :
          /\ \E m \in 1..Len(marks) : marks[m] = <<"begin", i - 1, sl[i][1] % K>>
          /\ \E m \in 1..Len(marks) : marks[m] = <<"end", i - 1, sl[i][2] % K>>
=============================================================================
