SPECIFICATION Spec
CONSTANTS
  Heads <- AllHeads
  Masks <- MC_NegMasks
  Bug = "first_input_only"
INVARIANT Sound
