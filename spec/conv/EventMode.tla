------------------------------ MODULE EventMode ------------------------------
(* Event-mode conversion of a binned data array as a state machine.                         *)
(*                                                                                          *)
(*   Place      - builds a layout bin by bin in *memory order* (a permutation of the bins),  *)
(*                with empty bins, uneven sizes and unreferenced slots                       *)
(*   Seal       - fixes the number of events (trailing unreferenced slots)                   *)
(*   Broadcast  - every slot learns the bin that owns it (how a per-pixel operand is        *)
(*                combined with a per-event operand)                                         *)
(*   Apply      - the kernel is applied slot by slot: r[i] = F(geometry of owner, coord i)   *)
(*   ConvertEdges - the bin-edge coordinate goes through the same F, per pixel              *)
(*   Store      - the result object: same bins, new event coordinate (the buffer may be      *)
(*                re-packed into bin order; the property does not care)                      *)
(*   Recall     - the caller converts the same object again (hardening round: the property   *)
(*                quantifies over inputs, not over what the process did before, so every      *)
(*                call on an untouched input gives the same result - Repeatable); `work` is   *)
(*                whatever an implementation keeps between calls, it exists for the negative   *)
(*                control "consumed_work_buffer"                                               *)
(*                                                                                          *)
(* The input object `inp` is a separate variable from the working buffers; InputUntouched    *)
(* says no action ever changes it.                                                           *)
EXTENDS EventModeDefs, TLC

CONSTANTS MaxEvents, Shapes, FullPermBins, Bug, MaxCalls

VARIABLES phase, lay, order, placed, cursor, gapsUsed,
          inp,      \* the caller's object: [c, w, v, x : Seq of ids]  (columns of the event table)
          owner,    \* slot -> owning bin (0 = none)
          rcol,     \* slot -> result id
          out,      \* result object: [bins: bin -> [r, w, v, x : Seq], edges: pixel -> Seq]
          calls,    \* number of the current call on this input object
          out1,     \* result of the previous call
          work      \* a coordinate buffer kept between calls (negative control only)
vars == <<phase, lay, order, placed, cursor, gapsUsed, inp, owner, rcol, out, calls, out1, work>>

Ident(n) == [ i \in 1..n |-> i ]
Perms(n) == { f \in [1..n -> 1..n] : \A i, j \in 1..n : i # j => f[i] # f[j] }
ColMajor(R, C) == [ i \in 1..(R * C) |-> ((i - 1) % R) * C + ((i - 1) \div R) + 1 ]
Orders(R, C) ==
    LET n == R * C IN
    IF n <= FullPermBins THEN Perms(n)
    ELSE { Ident(n), [ i \in 1..n |-> n + 1 - i ], ColMajor(R, C), [ i \in 1..n |-> (i % n) + 1 ] }

Zeros(n) == [ i \in 1..n |-> 0 ]
None == [ a |-> 0 ]

Init == /\ phase = "build"
        /\ \E s \in Shapes :
             /\ lay = [kind |-> s[1], R |-> s[2], C |-> s[3], N |-> 0,
                       bg |-> Zeros(s[2] * s[3]), en |-> Zeros(s[2] * s[3])]
             /\ order \in Orders(s[2], s[3])
        /\ placed = 0 /\ cursor = 0 /\ gapsUsed = 0
        /\ inp = None /\ owner = <<>> /\ rcol = <<>> /\ out = None
        /\ calls = 1 /\ out1 = None /\ work = <<>>

(* place the next bin (in memory order) after an optional unreferenced slot *)
Place(gap, size) ==
    /\ phase = "build" /\ placed < NBins(lay)
    /\ gapsUsed + gap <= 1
    /\ cursor + gap + size <= MaxEvents
    /\ LET b == order[placed + 1] IN
       lay' = [lay EXCEPT !.bg[b] = cursor + gap, !.en[b] = cursor + gap + size]
    /\ cursor' = cursor + gap + size
    /\ gapsUsed' = gapsUsed + gap
    /\ placed' = placed + 1
    /\ UNCHANGED <<phase, order, inp, owner, rcol, out, calls, out1, work>>

Seal(trail) ==
    /\ phase = "build" /\ placed = NBins(lay)
    /\ gapsUsed + trail <= 1 /\ cursor + trail <= MaxEvents
    /\ lay' = [lay EXCEPT !.N = cursor + trail]
    /\ inp' = [c |-> Ident(cursor + trail), w |-> Ident(cursor + trail),
               v |-> Ident(cursor + trail), x |-> Ident(cursor + trail)]
    /\ phase' = "broadcast"
    /\ work' = Ident(cursor + trail)
    /\ PrintT(<<"CASE", lay'.kind, lay'.R, lay'.C, lay'.N, lay'.bg, lay'.en>>)
    /\ UNCHANGED <<order, placed, cursor, gapsUsed, owner, rcol, out, calls, out1>>

OwnerOf(i) == IF \E b \in 1..NBins(lay) : lay.bg[b] < i /\ i <= lay.en[b]
              THEN CHOOSE b \in 1..NBins(lay) : lay.bg[b] < i /\ i <= lay.en[b] ELSE 0

(* negative-control variant: the k-th chunk in memory gets the geometry of the k-th bin *)
RankInMemory(b) == Cardinality({ a \in 1..NBins(lay) :
                      lay.bg[a] < lay.bg[b] \/ (lay.bg[a] = lay.bg[b] /\ a <= b) })

Broadcast ==
    /\ phase = "broadcast"
    /\ owner' = [ i \in 1..lay.N |-> OwnerOf(i) ]
    /\ phase' = "apply"
    /\ UNCHANGED <<lay, order, placed, cursor, gapsUsed, inp, rcol, out, calls, out1, work>>

GeomOf(b) == IF Bug = "memory_order" THEN PixelOf(lay, RankInMemory(b))
             ELSE IF Bug = "column_geometry" /\ lay.kind = "pt" THEN ((b - 1) % lay.C) + 1
             ELSE PixelOf(lay, b)

Apply ==
    /\ phase = "apply"
    /\ LET src == IF Bug = "consumed_work_buffer" THEN work ELSE inp.c IN
       rcol' = [ i \in 1..lay.N |-> IF owner[i] = 0 THEN <<0, 0>> ELSE <<GeomOf(owner[i]), src[i]>> ]
    /\ inp' = IF Bug = "inplace" THEN [inp EXCEPT !.c = [ i \in 1..lay.N |-> 0 ]] ELSE inp
    /\ work' = IF Bug = "consumed_work_buffer" THEN [ i \in 1..lay.N |-> 0 ] ELSE work
    /\ phase' = "store"
    /\ UNCHANGED <<lay, order, placed, cursor, gapsUsed, owner, out, calls, out1>>

Slice(col, b) == IF Bug = "shifted_slices" THEN SubSeq(col, lay.bg[b] + 2, IF lay.en[b] < lay.N THEN lay.en[b] + 1 ELSE lay.N)   \* off by one
                 ELSE SubSeq(col, lay.bg[b] + 1, lay.en[b])
Rev(s) == [ i \in 1..Len(s) |-> s[Len(s) + 1 - i] ]

Store ==
    /\ phase = "store"
    /\ out' = [ bins |-> [ b \in 1..NBins(lay) |->
                    [ r |-> Slice(rcol, b),
                      w |-> IF Bug = "weights_by_memory_rank" THEN Slice(inp.w, order[b]) ELSE Slice(inp.w, b),
                      v |-> Slice(inp.v, b),
                      x |-> IF Bug = "reversed_bins" THEN Rev(Slice(inp.x, b)) ELSE Slice(inp.x, b) ] ],
                edges |-> IF lay.kind = "pt"
                          THEN [ p \in 1..lay.R |-> [ j \in 1..(lay.C + 1) |->
                                   IF Bug = "edges_first_pixel" THEN <<1, j>> ELSE <<p, j>> ] ]
                          ELSE <<>> ]
    /\ phase' = "done"
    /\ UNCHANGED <<lay, order, placed, cursor, gapsUsed, inp, owner, rcol, calls, out1, work>>

(* the same (untouched) object is converted again *)
Recall ==
    /\ phase = "done" /\ calls < MaxCalls
    /\ calls' = calls + 1 /\ out1' = out
    /\ phase' = "broadcast"
    /\ UNCHANGED <<lay, order, placed, cursor, gapsUsed, inp, owner, rcol, out, work>>

Terminated == phase = "done" /\ UNCHANGED vars

Next == \/ \E g \in 0..1, s \in 0..MaxEvents : Place(g, s)
        \/ \E t \in 0..1 : Seal(t)
        \/ Broadcast \/ Apply \/ Store \/ Recall \/ Terminated

Spec == Init /\ [][Next]_vars

-----------------------------------------------------------------------------
Built == phase # "build"
Finished == phase = "done"

LayoutWellFormed == Built => WellFormed(lay)

(* every event gets exactly the dense value for its coordinate and its pixel's geometry *)
ResultPerEvent == Finished => \A b \in 1..NBins(lay) : out.bins[b].r = ExpectedResult(lay, b)
(* the same events, in the same order, in the same bins *)
MembershipPreserved == Finished => \A b \in 1..NBins(lay) :
        { out.bins[b].x[k] : k \in DOMAIN out.bins[b].x } = { i \in 1..lay.N : lay.bg[b] < i /\ i <= lay.en[b] }
OrderPreserved == Finished => \A b \in 1..NBins(lay) : out.bins[b].x = ExpectedIds(lay, b)
WeightsUntouched == Finished => \A b \in 1..NBins(lay) :
        out.bins[b].w = ExpectedIds(lay, b) /\ out.bins[b].v = ExpectedIds(lay, b)
EdgesSameFunction == (Finished /\ lay.kind = "pt") =>
        \A p \in 1..lay.R : \A j \in 1..(lay.C + 1) : out.edges[p][j] = ExpectedEdge(lay, p, j)
(* a second call on the same object gives the same result as the first *)
Repeatable == (Finished /\ calls > 1) => out = out1
InputUntouched == Built => inp = [c |-> Ident(lay.N), w |-> Ident(lay.N), v |-> Ident(lay.N), x |-> Ident(lay.N)]
=============================================================================
