CONSTANTS
  SrcBox <- C1
  DetBox <- C2
  Scales = {2, 3, 5}
  Exps = {20, 30, 40}
  Ks = {1, 2, 3}
