"""Growth module G05: the interactive scippneutron.MaskingTool (src/scippneutron/masking.py).

Specification: spec/masking/Growth_MaskingToolDefs.tla (state-free part: masks of shapes as closed boxes on an integer
grid, the get_masks() document, file names, every user action as a function on tool states), Growth_MaskingTool.tla (the
state machine: Activate / Deactivate a tool button, Click (first click starts, second click persists a shape; corner
order arbitrary, zero-width shapes included), MoveVertex, DragShape, RemoveShape, ToggleVisibility, SetFilename, Save,
SaveAs) and Growth_Trace_MaskingTool.tla (judge of recorded sessions).  The spec is written from the docstring /
instruction text of the tool.

(i)   TLC checks three exhaustive models (2-D geometry with <= 2 shapes, 2-D document order with <= 3 shapes, 1-D with
      file names): at most one pressed button, rectangle / hspan tools unused for 1-D data, the applied masks are those
      of the CURRENT shapes whatever the history of edits, mask = closed box (counted arithmetically), corner order
      irrelevant, a shape on a grid line masks it, document well-formed (order, counters 0..n-1, min <= max), save
      enabled iff a name is typed, one ".json" suffix; action properties: hiding changes nothing else, deleting removes
      exactly that mask and keeps the order of the rest, edits are local, only a second click adds a shape.  Nine
      negative controls (Bug constant) must be rejected.
(ii)  spec -> code: TLC -simulate produces behaviours of 40 steps on a 5 x 4 grid (and 5 points in 1-D) together with
      the observable state the specification expects after EVERY step; each behaviour is replayed into a real
      MaskingTool (no display: the ipympl backend the repository's tests use) and after every step the pressed /
      disabled buttons, the save button, get_masks(), the masks of masking_node() (each and their union), the displayed
      data and coordinates, the written file and the untouched input are compared.
(iii) code -> spec: seeded random sessions on larger grids (up to 13 x 10 points, up to 10 shapes, 80..200 actions) are
      recorded as NDJSON and judged event by event by Growth_Trace_MaskingTool; corrupted copies of a session are
      appended and must be the rejected ones.

Refinement mapping.  Specification positions are doubled integers d; the real coordinate is x0 + step * d / 2 with
x0 and step dyadic (exactly representable; every comparison the tool makes is exact, also exactly ON data points, where
the documented closed intervals `>= min`, `<= max` decide).  The horizontal axis of the figure is the last dimension of
the data.  Inputs: dense coordinates (float64 / float32 / int64) or bin edges placed half a step around the grid points
(the tool converts them to mid-points = the grid points), optional extra mask / non-dimension coordinate / variances.
A user's gestures are delivered the way the GUI would: a click goes to every tool that is connected to the canvas'
button-press event (`Tool.click`), grabbing a vertex / dragging / deleting are pick events (left / right / middle or
ctrl+left button) handed to the tools listening to pick events, followed by motion and release events.  The file name
[stem, k] is the text `<dir>/<stem>` + k * ".json".  Mask names of masking_node() are not compared (only the number of
masks, each mask as a set of points, and the union).  Deviations are GROWTH-FINDINGs.
"""
from __future__ import annotations

import copy
import json
import shutil
import threading
import time
import types
from pathlib import Path

import numpy as np
import scipp as sc

from .core import MachineryError
from .tlc import require_ok, write_ndjson

PREFIX = 'growth/masking'
KINDS = ('rectangle', 'vspan', 'hspan')
SPEC = 'masking/Growth_MC_MaskingTool.tla'
NEGS = {  # wrong variant -> the invariants / action properties one of which TLC must report as violated
    'open': ('MaskIsClosedBox', 'OnPointIsMasked'), 'anydim': ('MaskIsClosedBox',),
    'unsorted': ('DocWellFormed', 'CornerOrderIrrelevant', 'MaskIsClosedBox'),
    'keepactive': ('AtMostOneActive', 'ActivationIsExclusive'), 'removelast': ('Coherent', 'RemoveKeepsTheRest'),
    'kindcounter': ('DocWellFormed',), 'nodragrefresh': ('Coherent',), 'savealways': ('SaveEnabledIffName',),
    'doublejson': ('SavedFileWellFormed',)}
NO_NAME = {'stem': '', 'k': 0}
NO_OUT = {'asked': dict(NO_NAME), 'file': dict(NO_NAME), 'doc': []}


class Abort(Exception):
    """The current behaviour / session cannot be continued (a finding has been recorded)."""


# ============================================================================ TLC in background threads
class Par:
    def __init__(self, ctx):
        self.ctx, self.jobs = ctx, []

    def start(self, module, cfg, **kw):
        job = {'res': None, 'exc': None, 'count': not kw.get('expect_error', False) and kw.pop('count', True)}
        kw['count'] = False

        def wrap():
            try:
                job['res'] = self.ctx.tlc(module, cfg, **kw)
            except BaseException as e:  # noqa: BLE001
                job['exc'] = e

        job['t'] = threading.Thread(target=wrap, daemon=True)
        job['t'].start()
        self.jobs.append(job)
        time.sleep(0.03)
        return job

    def join(self, job):
        job['t'].join()
        if job['exc'] is not None:
            raise job['exc']
        r = job['res']
        if job['count'] and not job.get('counted'):
            job['counted'] = True
            self.ctx.states += r.generated
            self.ctx.distinct_states += r.distinct
            self.ctx.transitions += max(r.generated - 1, 0)
        return r

    def join_all(self):
        first = None
        for j in self.jobs:
            try:
                self.join(j)
            except BaseException as e:  # noqa: BLE001
                first = first or e
        if first is not None:
            raise first


# ============================================================================ refinement mapping: the input data
STEMS = {'a': ('mask', 'a.json.b', 'myjson', 'x.JSON', 'm'), 'b': ('data.jso', 'run 12', 'b-1'), 'c': ('c_c', 'json'),
         '': ('',)}
AXES = (  # (x0, step): coordinate of grid point i is x0 + step * i
    (0.0, 1.0), (-3.0, 2.0), (0.5, 0.25), (100.0, 0.5), (-7.5, 4.0))
NAMES = (('xx', 'm', 'yy', 's'), ('tof', 'ms', 'det', 'dimensionless'), ('x', 'mm', 'y', 'K'), ('y', 'm', 'x', 'm'),
         ('a_b', 's', 'c', 'kg'))


class Variant:
    """How one tool's data realise the grid of the specification."""

    def __init__(self, nd, nx, ny, idx, rng, special=None):
        self.nd, self.nx, self.ny = nd, nx, ny if nd == 2 else 0
        self.special = special              # None | 'scalar' | 'aux2d': a coordinate that is not 1-D (probes)
        self.xdim, self.xunit, self.ydim, self.yunit = NAMES[idx % len(NAMES)]
        self.x0, self.sx = AXES[idx % len(AXES)]
        self.y0, self.sy = AXES[(idx // 2 + 1) % len(AXES)]
        self.layout = ('dense', 'edges', 'dense', 'edges-x', 'edges')[idx % 5]      # which coordinates are bin edges
        self.cdtype = ('float64', 'float64', 'float32', 'float64', 'int64')[(idx // 5) % 5]
        if self.cdtype == 'int64':          # integer coordinates: integer grid points, dense
            self.layout = 'dense'
            self.x0, self.sx, self.y0, self.sy = float(int(self.x0)), max(1.0, self.sx), float(int(self.y0)), max(1.0, self.sy)
        self.extras = (idx // 3) % 4        # 1: a mask of the user, 2: a non-dimension coordinate, 3: variances
        self.stems = {k: v[(idx + len(k)) % len(v)] for k, v in STEMS.items()}
        self.unit = ('K', 'counts', 'dimensionless')[idx % 3]
        if nd == 1:                          # the vertical axis of a line plot shows the data values
            self.ydim, self.yunit, self.y0, self.sy = None, self.unit, 0.0, 1.0

    def describe(self):
        return {k: getattr(self, k) for k in ('nd', 'nx', 'ny', 'xdim', 'xunit', 'ydim', 'yunit', 'x0', 'sx', 'y0', 'sy',
                                               'layout', 'cdtype', 'extras', 'special')}

    # doubled specification position <-> real coordinate
    def rx(self, d):
        return self.x0 + self.sx * d / 2

    def ry(self, d):
        return self.y0 + self.sy * d / 2

    def dx_of(self, v):
        return _as_int((v - self.x0) / self.sx * 2)

    def dy_of(self, v):
        return _as_int((v - self.y0) / self.sy * 2)

    def _coord(self, dim, unit, n, c0, step, edges):
        if edges:
            vals = [c0 + step * (i - 0.5) for i in range(n + 2)]
        else:
            vals = [c0 + step * i for i in range(n + 1)]
        dt = 'float64' if edges and self.cdtype == 'int64' else self.cdtype
        return sc.array(dims=[dim], values=np.asarray(vals), unit=unit, dtype=dt)

    def grid(self, dim):
        """The grid points of `dim` in the dtype the tool shows them."""
        if dim == self.xdim:
            return np.asarray([self.x0 + self.sx * i for i in range(self.nx + 1)], dtype=self.cdtype)
        return np.asarray([self.y0 + self.sy * i for i in range(self.ny + 1)], dtype=self.cdtype)

    def build(self):
        ex = self.layout in ('edges', 'edges-x')
        ey = self.layout == 'edges'
        coords = {self.xdim: self._coord(self.xdim, self.xunit, self.nx, self.x0, self.sx, ex)}
        if self.nd == 2:
            coords[self.ydim] = self._coord(self.ydim, self.yunit, self.ny, self.y0, self.sy, ey)
            vals = np.arange((self.ny + 1) * (self.nx + 1), dtype='float64').reshape(self.ny + 1, self.nx + 1) + 1.0
            data = sc.array(dims=[self.ydim, self.xdim], values=vals, unit=self.unit)
        else:
            data = sc.array(dims=[self.xdim], values=np.arange(self.nx + 1, dtype='float64') + 1.0, unit=self.unit)
        if self.extras == 3:
            data.variances = data.values * 0.5
        da = sc.DataArray(data, coords=coords)
        if self.extras == 1:
            # a mask of the user that masks nothing (every point it masked would count towards "all points masked")
            da.masks['detector_gap'] = sc.array(dims=[self.xdim], values=np.zeros(self.nx + 1, dtype=bool))
        if self.extras == 2:
            da.coords['label'] = sc.array(dims=[self.xdim], values=np.arange(self.nx + 1) * 10, unit=None)
        if self.special == 'scalar':        # what slicing a higher-dimensional array leaves behind
            da.coords['temperature'] = sc.scalar(4.5, unit='K')
        if self.special == 'aux2d':
            da.coords['two_theta'] = sc.array(dims=da.dims, values=np.asarray(da.values) * 0.01, unit='rad')
        return da


def _as_int(x):
    r = round(x)
    return int(r) if r == x else None


# ============================================================================ a real tool, driven without a display
class Session:
    """One real MaskingTool and the gestures of a user."""

    def __init__(self, ctx, var, rng, scratch, label, context=''):
        from mpltoolbox.event import DummyEvent
        from scippneutron import MaskingTool

        self.ctx, self.var, self.rng, self.Dummy = ctx, var, rng, DummyEvent
        self.dir = Path(scratch) / label
        self.dir.mkdir(parents=True, exist_ok=True)
        self.data = var.build()
        self.snapshot = self.data.copy(deep=True)
        self.before = set(_widget_registry())
        self.tool = None
        self.art = {k: [] for k in KINDS}       # persisted artists per kind in drawing order
        self.known = {}                         # id -> artist (kept alive, so ids are not reused)
        self.what = 'MaskingTool(data)'
        self.context = context                  # appended to the finding keys of a probe
        try:
            kwargs = {'color': 'red'} if rng.random() < 0.3 else {}
            self.tool = MaskingTool(self.data, **kwargs)
            self.ctl = dict(zip(KINDS, self.tool.controls, strict=True))
            self.ax = self.tool.fig.ax
        except Exception as e:  # noqa: BLE001
            try:
                self.fail(e)
            finally:
                self.close()

    # ---------------------------------------------------------------- bookkeeping
    def fail(self, e, what=None):
        what = what or self.what
        self.ctx.growth_finding(f'{PREFIX}: {what} raised {type(e).__name__}{self.context}',
                                {'exception': repr(e)[:300], 'data': self.var.describe()})
        raise Abort from e

    def close(self):
        import matplotlib.pyplot as plt

        try:
            reg = _widget_registry()
            fig = getattr(getattr(self.tool, 'fig', None), 'fig', None)
            for key in set(reg) - self.before:
                w = reg.get(key)
                if w is not None:
                    w.close()
            if fig is not None:
                plt.close(fig)
        except Exception:  # noqa: BLE001
            pass
        self.tool = None
        shutil.rmtree(self.dir, ignore_errors=True)

    def listening(self, signal):
        return [self.ctl[k]._tool for k in KINDS if signal in self.ctl[k]._tool._connections]

    def ev(self, x, y, button=1, modifiers=()):
        return self.Dummy(xdata=x, ydata=y, inaxes=self.ax, button=button, modifiers=list(modifiers))

    def free_x(self):
        return self.var.rx(self.rng.randrange(-1, 2 * self.var.nx + 2))

    def free_y(self):
        return self.var.ry(self.rng.randrange(-1, 2 * max(self.var.ny, 1) + 2))

    def collect_new(self):
        """Artists that were persisted (have a node) since the last look."""
        for k in KINDS:
            for child in self.ctl[k]._tool.children:
                if id(child) not in self.known and hasattr(child, 'nodeid'):
                    self.known[id(child)] = child
                    self.art[k].append(child)

    # ---------------------------------------------------------------- gestures
    def do(self, a):
        """Perform action `a` (vocabulary of ApplyStep); returns the file record of a save or None."""
        op = a['op']
        self.what = {'activate': 'pressing a tool button', 'deactivate': 'releasing a tool button',
                     'click': 'a left-click on the canvas', 'move': 'moving a vertex', 'drag': 'dragging a shape',
                     'remove': 'deleting a shape', 'toggle': 'the show/hide button', 'setname': 'typing a file name',
                     'save': 'the save button', 'saveas': 'save_masks(filename)'}[op]
        try:
            return getattr(self, '_' + op)(a)
        except Abort:
            raise
        except Exception as e:  # noqa: BLE001
            self.fail(e)

    def _activate(self, a):
        self.ctl[a['k']].value = True

    def _deactivate(self, a):
        self.ctl[a['k']].value = False

    def _click(self, a):
        x = self.var.rx(a['x']) if a.get('usesx', True) else self.free_x()
        y = self.var.ry(a['y']) if a.get('usesy', True) else self.free_y()
        for t in self.listening('button_press_event'):
            t.click(x, y)
        self.collect_new()

    def _pick(self, artist, ind, me):
        ev = types.SimpleNamespace(name='pick_event', canvas=self.ax.figure.canvas, mouseevent=me, artist=artist, ind=[ind])
        for t in self.listening('pick_event'):
            t._on_pick(ev)

    def _grabbed(self, kind, signal='motion_notify_event'):
        t = self.ctl[kind]._tool
        if signal not in t._connections or 'button_release_event' not in t._connections:
            self.ctx.growth_finding(f'{PREFIX}: a shape of a persisted mask cannot be grabbed ({self.what})',
                                    {'kind': kind, 'data': self.var.describe()})
            raise Abort
        return t

    def _children(self):
        return sum(len(self.ctl[k]._tool.children) for k in KINDS)

    def _press_too(self, me):
        """The button press that caused a pick also reaches every tool listening to button presses."""
        n = self._children()
        for t in self.listening('button_press_event'):
            t._on_button_press(me)
        if self._children() != n:
            self.ctx.growth_finding(f'{PREFIX}: {self.what} also starts a new shape', {'data': self.var.describe()})
            raise Abort

    def _move(self, a):
        k, artist = a['k'], self.art[a['k']][a['i'] - 1]
        vx, vy = artist.vertices
        want_x, want_y = self.var.rx(a['at4'][0] / 2), self.var.ry(a['at4'][1] / 2)
        ind = next((j for j in range(len(vx)) if (k == 'hspan' or vx[j] == want_x) and (k == 'vspan' or vy[j] == want_y)), None)
        if ind is None:
            self.ctx.growth_finding(f'{PREFIX}: a {k} has no vertex where the specified shape has one',
                                    {'vertices': [list(map(float, vx)), list(map(float, vy))], 'expected_at': [want_x, want_y],
                                     'data': self.var.describe()})
            raise Abort
        h = a.get('h', (1, 1))             # a recorded session names no handle: both pointer coordinates are given
        uses_x, uses_y = h[0] != 0, h[1] != 0
        fx = self.var.rx(a['x']) if uses_x and k != 'hspan' else self.free_x()
        fy = self.var.ry(a['y']) if uses_y and k != 'vspan' else self.free_y()
        px = float(vx[ind]) if k != 'hspan' else self.free_x()
        py = float(vy[ind]) if k != 'vspan' else self.free_y()
        me = self.ev(px, py)
        self._pick(artist._vertices, ind, me)
        self._press_too(me)
        t = self._grabbed(k)
        for _ in range(self.rng.randrange(0, 3)):
            t._on_vertex_motion(self.ev(self.free_x(), self.free_y()))
        t._on_vertex_motion(self.ev(fx, fy))
        t._release_owner(self.ev(fx, fy), kind='vertex')

    def _drag(self, a):
        k, artist = a['k'], self.art[a['k']][a['i'] - 1]
        ddx, ddy = a['dx'] if k != 'hspan' else 0, a['dy'] if k != 'vspan' else 0
        # press somewhere such that press and release are inside the axes
        nx2, ny2 = 2 * self.var.nx + 1, 2 * max(self.var.ny, 1) + 1
        px = self.rng.randrange(max(-1, -1 - ddx), min(nx2, nx2 - ddx) + 1)
        py = self.rng.randrange(max(-1, -1 - ddy), min(ny2, ny2 - ddy) + 1)
        me = self.ev(self.var.rx(px), self.var.ry(py), button=3)
        self._pick(artist._patch, 0, me)
        t = self._grabbed(k)
        for _ in range(self.rng.randrange(0, 3)):
            t._move_owner(self.ev(self.free_x(), self.free_y(), button=3))
        end = self.ev(self.var.rx(px + ddx), self.var.ry(py + ddy), button=3)
        t._move_owner(end)
        t._release_owner(end, kind='drag')

    def _remove(self, a):
        k, artist = a['k'], self.art[a['k']][a['i'] - 1]
        how = self.rng.randrange(3)
        if how == 0:        # middle-click
            self._pick(artist._patch, 0, self.ev(self.free_x(), self.free_y(), button=2))
        elif how == 1:      # ctrl + left-click
            me = self.ev(self.free_x(), self.free_y(), button=1, modifiers=['ctrl'])
            self._pick(artist._patch, 0, me)
            self._press_too(me)
        else:               # the programmatic way of mpltoolbox
            self.ctl[k]._tool.remove(artist)
        self.art[k].pop(a['i'] - 1)

    def _toggle(self, a):
        self.tool.toggle_visibility.value = not self.tool.toggle_visibility.value

    def text_of(self, f):
        if f['stem'] == '' and f['k'] == 0:
            return ''
        return str(self.dir / (self.var.stems[f['stem']] + '.json' * f['k']))

    def _setname(self, a):
        self.tool.filename.value = self.text_of(a['f'])

    def _saved(self, asked):
        """Which file appeared, as [stem, k], and its content in the vocabulary of the document."""
        files = sorted(p.name for p in self.dir.iterdir())
        rec = {'asked': dict(asked), 'file': {'stem': '?', 'k': -1}, 'doc': []}
        if len(files) == 1:
            name, stem = files[0], self.var.stems.get(asked['stem'], '?')
            rest = name[len(stem):] if name.startswith(stem) else None
            if rest is not None and rest == '.json' * (len(rest) // 5):
                rec['file'] = {'stem': asked['stem'], 'k': len(rest) // 5}
            try:
                rec['doc'] = self.doc_of(json.loads((self.dir / name).read_text()))
            except Exception as e:  # noqa: BLE001
                rec['doc'] = [{'axes': '?', 'counter': -1, 'kind': f'unreadable: {type(e).__name__}', 'x': [], 'y': []}]
        for p in self.dir.iterdir():
            p.unlink()
        rec['files'] = files
        return rec

    def _save(self, a):
        if self.tool.save_button.disabled:
            raise MachineryError('the driver clicked a disabled save button')
        asked = self.current_name
        self.tool.save_button.click()
        return self._saved(asked)

    def _saveas(self, a):
        text = self.text_of(a['f'])
        self.tool.save_masks(Path(text) if self.rng.random() < 0.5 else text)
        return self._saved(a['f'])

    # ---------------------------------------------------------------- observation
    def doc_of(self, masks):
        """get_masks() (or a saved file) in the vocabulary of the specification."""
        v, out = self.var, []
        if not isinstance(masks, dict):
            return [{'axes': '?', 'counter': -1, 'kind': f'not a dict: {type(masks).__name__}', 'x': [], 'y': []}]
        for name, m in masks.items():
            prefix, _, cnt = str(name).rpartition('_')
            both = v.xdim + (v.ydim or '')
            axes = 'xy' if (v.nd == 2 and prefix == both) else 'x' if prefix == v.xdim else 'y' if prefix == v.ydim and v.nd == 2 else '?' + prefix
            ent = {'axes': axes, 'counter': int(cnt) if cnt.isdigit() else -1, 'kind': m.get('kind', '?'), 'x': [], 'y': []}
            bounds = m.get('bounds', {})
            for dim, lims in bounds.items():
                if dim == v.xdim:
                    key, unit, conv = 'x', v.xunit, v.dx_of
                elif dim == v.ydim and v.nd == 2:
                    key, unit, conv = 'y', v.yunit, v.dy_of
                else:
                    ent['kind'] = f'{ent["kind"]} with bounds for {dim}'
                    continue
                pair = []
                for side in ('min', 'max'):
                    s = lims.get(side, {})
                    d = conv(float(s['value'])) if isinstance(s.get('value'), (int, float)) else None
                    pair.append(-9999 if d is None else d if s.get('unit') == unit else -8888)
                ent[key] = pair
            out.append(ent)
        return out

    def _full(self, mask, sizes):
        """A mask variable as a list of point numbers of the specification."""
        dims = list(mask.dims)
        arr = np.asarray(mask.values, dtype=bool)
        order = [self.var.xdim] + ([self.var.ydim] if self.var.nd == 2 else [])
        shape = [sizes[d] for d in order]
        idx = [dims.index(d) if d in dims else None for d in order]
        arr = np.transpose(arr, [i for i in idx if i is not None]) if arr.ndim > 1 else arr
        view = arr.reshape([sizes[d] if d in dims else 1 for d in order])
        full = np.broadcast_to(view, shape)
        return [int(i) for i in np.flatnonzero(full.reshape(-1))]

    def observe(self, a, saved):
        tool, v = self.tool, self.var
        self.what = 'get_masks()'
        try:
            doc = self.doc_of(tool.get_masks())
        except Exception as e:  # noqa: BLE001
            self.fail(e)
        self.what = 'masking_node()'
        try:
            out = tool.masking_node()
            sizes = dict(out.sizes)
            user = set(self.snapshot.masks.keys())
            names = [n for n in out.masks.keys() if n not in user]
            masks = sorted(self._full(out.masks[n], sizes) for n in names)
            union = sorted(set().union(*masks)) if masks else []
            # what the figure currently shows (plopp keeps the data last drawn on its artist)
            shown, arts = union, list(tool.fig.artists.values())
            if len(arts) == 1 and isinstance(getattr(arts[0], '_data', None), sc.DataArray):
                d = arts[0]._data
                shown = sorted(set().union(*[self._full(d.masks[n], dict(d.sizes)) for n in d.masks.keys() if n not in user]))
            intact = bool(sc.identical(self.data, self.snapshot)) and sizes == dict(self.snapshot.sizes)
            intact = intact and bool(sc.identical(out.data, self.snapshot.data))
            for dim in out.dims:
                c = out.coords[dim]
                unit = v.xunit if dim == v.xdim else v.yunit
                intact = intact and c.dims == (dim,) and str(c.unit) == unit and np.array_equal(c.values, v.grid(dim))
            for n in user:
                intact = intact and n in out.masks and bool(sc.identical(out.masks[n], self.snapshot.masks[n]))
        except Exception as e:  # noqa: BLE001
            self.fail(e)
        self.what = 'reading the buttons'
        try:
            persisted = [x for k in KINDS for x in self.art[k]]
            flag = bool(tool.toggle_visibility.value)
            if a is not None and a['op'] == 'toggle' and persisted:
                vis = {bool(x._patch.get_visible()) for x in persisted}
                visible = 'mixed' if len(vis) > 1 else 'yes' if vis.pop() else 'no'
            else:
                visible = 'yes' if flag else 'no'
            pressed = [k for k in KINDS if self.ctl[k].value]
            connected = [k for k in KINDS if 'button_press_event' in self.ctl[k]._tool._connections]
            obs = {'active': pressed, 'enabled': [k for k in KINDS if not self.ctl[k].disabled], 'visible': visible,
                   'save': not tool.save_button.disabled, 'doc': doc, 'masks': masks, 'union': union, 'shown': shown, 'intact': bool(intact),
                   'out': {k: saved[k] for k in ('asked', 'file', 'doc')} if saved else copy.deepcopy(NO_OUT)}
        except Exception as e:  # noqa: BLE001
            self.fail(e)
        if pressed != connected:
            self.ctx.growth_finding(f'{PREFIX}: the pressed tool buttons are not the tools that react to clicks',
                                    {'pressed': pressed, 'listening': connected, 'after': a, 'data': v.describe()})
            raise Abort
        return obs

    @property
    def current_name(self):
        """The [stem, k] of the text in the file name box (the driver typed it)."""
        return getattr(self, '_typed', dict(NO_NAME))

    def step(self, a):
        saved = self.do(a)
        if a['op'] == 'setname':
            self._typed = dict(a['f'])
        return self.observe(a, saved)


def _widget_registry():
    import ipywidgets as ipw

    reg = getattr(ipw.Widget, '_instances', None)
    if reg is None:
        reg = getattr(ipw.Widget, 'widgets', {})
    return reg


# ============================================================================ (ii) spec -> code
def _expected(e, nd):
    """The observation TLC expects, in the shape of Session.observe()."""
    return {'active': [k for k in KINDS if k in e['active']],
            'enabled': [k for k in KINDS if nd == 2 or k == 'vspan'],
            'visible': 'yes' if e['visible'] else 'no', 'save': e['save'], 'doc': e['doc'],
            'masks': sorted(sorted(m) for m in e['masks']), 'union': sorted(e['union']), 'shown': sorted(e['union']),
            'intact': True,
            'out': e['out']}


DIFFS = (('active', 'the pressed tool buttons differ'), ('enabled', 'the enabled tool buttons differ'),
         ('save', 'the save button is enabled / disabled wrongly'), ('visible', 'the shapes are shown / hidden wrongly'),
         ('doc', 'get_masks() differs'), ('masks', 'the masks applied by masking_node() differ'),
         ('union', 'the union of the applied masks differs'), ('shown', 'the figure shows other masks than masking_node() applies'),
         ('intact', 'the displayed data or the input changed'),
         ('out', 'the saved file differs'))


def _doc_diff(got, want):
    if len(got) != len(want):
        return 'number of entries'
    for g, w in zip(got, want, strict=True):
        if g['kind'] != w['kind']:
            return 'kinds or their order'
        if (g['axes'], g['counter']) != (w['axes'], w['counter']):
            return 'names'
        if (g['x'], g['y']) != (w['x'], w['y']):
            return 'bounds'
    return 'content'


def _first_difference(obs, want):
    for key, text in DIFFS:
        if obs[key] != want[key]:
            if key == 'doc':
                text += f' ({_doc_diff(obs["doc"], want["doc"])})'
            if key == 'out':
                text += ' (name)' if obs['out']['file'] != want['out']['file'] else f' ({_doc_diff(obs["out"]["doc"], want["out"]["doc"])})'
            return key, text
    return None, None


def replay(ctx, beh, idx, scratch):
    """One TLC behaviour: every step into a real tool, every observation against the specification."""
    _, nd, nx, ny, text = beh
    steps = json.loads(text)
    var = Variant(nd, nx, ny, idx + ctx.seed, ctx.rng)
    ses = Session(ctx, var, ctx.rng, scratch, f'm1-{idx}')
    done = 0
    try:
        obs = ses.observe(None, None)
        want = _expected({'active': [], 'visible': True, 'save': False, 'doc': [], 'masks': [], 'union': [], 'out': NO_OUT}, nd)
        key, textd = _first_difference(obs, want)
        if key:
            ctx.growth_finding(f'{PREFIX}: fresh tool: {textd}', {'observed': obs[key], 'specified': want[key], 'data': var.describe()})
            return done
        for n, st in enumerate(steps):
            a = st['a']
            if a['op'] == 'click' and not st['e']['active']:
                a = dict(a, usesx=False, usesy=False)
            obs = ses.step(a)
            want = _expected(st['e'], nd)
            key, textd = _first_difference(obs, want)
            done += 1
            if key:
                ctx.growth_finding(f'{PREFIX}: after {a["op"]}: {textd}',
                                   {'observed': obs[key], 'specified': want[key], 'step': n + 1, 'data': var.describe(),
                                    'actions': [s['a'] for s in steps[:n + 1]]})
                return done
        nshapes = max(len(s['e']['doc']) for s in steps)
        ctx.case(nontrivial_id=('beh', nd, idx) if nshapes >= 2 else None, n=done)
    except Abort:
        pass
    finally:
        if ses is not None:
            ses.close()
    return done


# ============================================================================ (iii) code -> spec
def record_session(ctx, tid, var, rng, scratch, chooser, context=''):
    """Drive a real tool with the gestures `chooser(ses, me)` yields and record one event per gesture.
    `me` is the driver's own record of what it did (pressed button, shape half drawn, shapes shown)."""
    ses, events = None, []
    me = {'active': None, 'pending': False, 'visible': True}
    try:
        ses = Session(ctx, var, rng, scratch, f'm2-{tid}', context)
        obs = ses.observe(None, None)
        events.append({'ev': 'new', 'tid': tid, 'nx': var.nx, 'ny': var.ny, 'nd': var.nd, 'obs': obs})
        for a in chooser(ses, me):
            if a['op'] == 'activate':
                me['active'], me['pending'] = a['k'], False
            elif a['op'] == 'deactivate':
                me['active'], me['pending'] = None, False
            elif a['op'] == 'click' and me['active'] is not None:
                me['pending'] = not me['pending']
            elif a['op'] == 'toggle':
                me['visible'] = not me['visible']
            obs = ses.step(a)
            events.append({'ev': 'step', 'tid': tid, 'a': a, 'obs': obs})
        ctx.case(nontrivial_id=('session', tid), n=len(events))
    except Abort:
        pass
    finally:
        if ses is not None:
            ses.close()
    return events


def _extent(var, k, art):
    """Doubled bounds [xlo, xhi, ylo, yhi] of a drawn shape (None where it is unbounded or off the half-step lattice)."""
    if k == 'rectangle':
        x1, y1 = art.xy
        xs, ys = (x1, x1 + art.width), (y1, y1 + art.height)
    elif k == 'vspan':
        xs, ys = (art.left, art.right), None
    else:
        xs, ys = None, (art.bottom, art.top)
    ex = sorted(var.dx_of(float(v)) for v in xs) if xs and None not in [var.dx_of(float(v)) for v in xs] else None
    ey = sorted(var.dy_of(float(v)) for v in ys) if ys and None not in [var.dy_of(float(v)) for v in ys] else None
    return ex, ey


def random_gestures(var, rng, nsteps):
    """Random gestures.  Pointer positions and shapes stay at doubled positions >= 1, so the first data point is never
    masked (a figure of data without any unmasked point cannot be drawn; probed separately)."""
    nd, nx, ny = var.nd, var.nx, max(var.ny, 1)
    maxshapes = rng.choice([3, 6, 10])
    stems = list(var.stems)
    allowed = [k for k in KINDS if nd == 2 or k == 'vspan']

    def chooser(ses, me):
        n = 0
        while n < nsteps:
            total = sum(len(v) for v in ses.art.values())
            shapes = [(k, i + 1) for k in KINDS for i in range(len(ses.art[k]))]
            editable = not me['pending'] and me['visible'] and shapes
            active = me['active']
            r = rng.random()
            px, py = rng.randrange(1, 2 * nx + 2), rng.randrange(1, 2 * ny + 2)
            a = None
            if active is None and r < 0.4:
                a = {'op': 'activate', 'k': rng.choice(allowed)}
            elif not me['visible'] and r < 0.3:
                a = {'op': 'toggle'}
            elif r < 0.34 and (active is None or me['pending'] or total < maxshapes):
                a = {'op': 'click', 'x': px, 'y': py}
            elif r < 0.52 and editable:
                k, i = rng.choice(shapes)
                vx, vy = ses.art[k][i - 1].vertices
                j = rng.randrange(len(vx))
                j = min(jj for jj in range(len(vx)) if (k == 'hspan' or vx[jj] == vx[j]) and (k == 'vspan' or vy[jj] == vy[j]))
                at = [0 if k == 'hspan' else _as_int((float(vx[j]) - var.x0) / var.sx * 4),
                      0 if k == 'vspan' else _as_int((float(vy[j]) - var.y0) / var.sy * 4)]
                if None in at:
                    ses.ctx.growth_finding(f'{PREFIX}: a vertex of a shape is not where the pointer put it',
                                           {'vertices': [list(map(float, vx)), list(map(float, vy))], 'data': var.describe()})
                    raise Abort
                a = {'op': 'move', 'k': k, 'i': i, 'at4': at, 'x': px, 'y': py}
            elif r < 0.62 and editable:
                k, i = rng.choice(shapes)
                ex, ey = _extent(var, k, ses.art[k][i - 1])
                dxs = [d for d in range(-5, 6) if d and ex and ex[0] + d >= 1 and ex[1] + d <= 2 * nx + 1] or [0]
                dys = [d for d in range(-5, 6) if d and ey and ey[0] + d >= 1 and ey[1] + d <= 2 * ny + 1] or [0]
                if (k != 'hspan' and dxs == [0]) or (k != 'vspan' and dys == [0]):
                    continue
                a = {'op': 'drag', 'k': k, 'i': i, 'dx': rng.choice(dxs), 'dy': rng.choice(dys)}
            elif r < 0.69 and editable and (total > 1 or r < 0.64):
                k, i = rng.choice(shapes)
                a = {'op': 'remove', 'k': k, 'i': i}
            elif r < 0.78 and [k for k in allowed if k != active]:
                a = {'op': 'activate', 'k': rng.choice([k for k in allowed if k != active])}
            elif r < 0.81 and active is not None:
                a = {'op': 'deactivate', 'k': active}
            elif r < 0.85:
                a = {'op': 'toggle'}
            elif r < 0.91:
                f = rng.choice([NO_NAME] + [{'stem': s, 'k': k} for s in stems for k in (0, 1, 2) if (s, k) != ('', 0)])
                if f != ses.current_name:
                    a = {'op': 'setname', 'f': dict(f)}
            elif r < 0.95:
                if not ses.tool.save_button.disabled and ses.current_name != NO_NAME:
                    a = {'op': 'save'}
            else:
                s = rng.choice(stems)
                a = {'op': 'saveas', 'f': {'stem': s, 'k': rng.choice((1, 2) if s == '' else (0, 1, 2))}}
            if a is None:
                continue
            n += 1
            yield a

    return chooser


def fixed_gestures(actions):
    def chooser(ses, me):
        yield from actions
    return chooser


def probes(ctx, rng, scratch, tid0):
    """Single sessions just outside what the simulated / random sessions do; judged like every other session.
    Returns (events, {tid: description})."""
    events, about = [], {}
    tid = tid0
    full = lambda n: [{'op': 'activate', 'k': 'vspan'}, {'op': 'click', 'x': -1, 'y': 1}, {'op': 'click', 'x': 2 * n + 1, 'y': 3},   # noqa: E731
                      {'op': 'toggle'}, {'op': 'toggle'}, {'op': 'remove', 'k': 'vspan', 'i': 1}]
    some = [{'op': 'activate', 'k': 'vspan'}, {'op': 'click', 'x': 1, 'y': 1}, {'op': 'click', 'x': 4, 'y': 3},
            {'op': 'drag', 'k': 'vspan', 'i': 1, 'dx': 1, 'dy': 0}, {'op': 'deactivate', 'k': 'vspan'}]
    cases = []
    cases.append((Variant(2, 3, 2, 0, rng), full(3), ' (shapes that cover every data point)'))
    cases.append((Variant(1, 3, 2, 0, rng, special='scalar'), some,
                  ' (1-D data with a scalar coordinate, e.g. a slice of 2-D data)'))
    cases.append((Variant(2, 3, 2, 0, rng, special='aux2d'), some, ' (2-D data with a two-dimensional non-dimension coordinate)'))
    for var, actions, context in cases:
        events += record_session(ctx, tid, var, rng, scratch, fixed_gestures(actions), context)
        about[tid] = context
        tid += 1
    return events, about


def spec_session(beh, tid):
    """A simulated behaviour of the specification written as a recorded session (observations = what TLC expects)."""
    _, nd, nx, ny, text = beh
    steps = json.loads(text)
    first = _expected({'active': [], 'visible': True, 'save': False, 'doc': [], 'masks': [], 'union': [], 'out': NO_OUT}, nd)
    events = [{'ev': 'new', 'tid': tid, 'nx': nx, 'ny': ny, 'nd': nd, 'obs': first}]
    for st in steps:
        a = {k: v for k, v in st['a'].items() if k not in ('h', 'usesx', 'usesy')}
        events.append({'ev': 'step', 'tid': tid, 'a': a, 'obs': _expected(st['e'], nd)})
    return events


def _corrupt(cands, tid0):
    """Sessions generated by the specification itself: unchanged (the judge must accept every event: judge and state
    machine agree) and with one observation falsified each (the judge must reject exactly that event)."""
    out, marks = [], []
    for n, s in enumerate(cands):
        c = copy.deepcopy(s)
        for e in c:
            e['tid'] = tid0 + 500 + n
        out += c

    def copy_of(s, tid):
        c = copy.deepcopy(s)
        for e in c:
            e['tid'] = tid
        return c

    def pick(s, pred):
        return next((i for i, e in enumerate(s) if e['ev'] == 'step' and pred(e)), None)

    muts = (
        (lambda e: len(e['obs']['doc']) >= 1 and e['obs']['masks'] and e['obs']['masks'][0],
         lambda e: e['obs']['masks'].__setitem__(0, e['obs']['masks'][0][1:])),
        (lambda e: len(e['obs']['doc']) >= 2,
         lambda e: e['obs']['doc'][1].__setitem__('counter', 0)),
        (lambda e: e['a']['op'] in ('save', 'saveas') and e['a'].get('f', {}).get('k', 0) >= 1,
         lambda e: e['obs']['out']['file'].__setitem__('k', e['obs']['out']['file']['k'] + 1)),
        (lambda e: e['a']['op'] == 'activate',
         lambda e: e['obs'].__setitem__('active', [])),
        (lambda e: len(e['obs']['doc']) >= 1 and e['obs']['doc'][0]['x'] and e['obs']['doc'][0]['x'][0] != e['obs']['doc'][0]['x'][1],
         lambda e: e['obs']['doc'][0].__setitem__('x', e['obs']['doc'][0]['x'][::-1])),
    )
    tid = tid0
    for pred, mut in muts:
        for s in cands:
            i = pick(s, pred)
            if i is None:
                continue
            c = copy_of(s, tid)
            mut(c[i])
            marks.append((len(out) + i, tid))
            out += c
            tid += 1
            break
    return out, marks


# ============================================================================ entry point
def run(ctx):
    import matplotlib
    import matplotlib.pyplot as plt

    prev_backend = matplotlib.get_backend()
    prev_rc = matplotlib.rcParams.copy()
    scratch = Path(ctx.tmp) / 'growth-masking'
    scratch.mkdir(parents=True, exist_ok=True)
    par = Par(ctx)
    try:
        plt.switch_backend('module://ipympl.backend_nbagg')      # the headless interactive backend of the repository's tests
        _run(ctx, par, scratch)
    finally:
        try:
            par.join_all()
        finally:
            try:
                plt.close('all')
                plt.switch_backend(prev_backend)
                matplotlib.rcParams.update(prev_rc)
            except Exception:  # noqa: BLE001
                pass
            shutil.rmtree(scratch, ignore_errors=True)


def _run(ctx, par, scratch):
    th = ctx.thorough
    t0 = time.time()
    ctx.assume(f'{PREFIX}: gestures are delivered as the events the GUI would deliver (Tool.click to the tools connected to '
               'button presses; pick events for vertices / drag / delete, followed by motion and release); shapes are edited '
               'only while shown and while no shape is half drawn; a half-drawn shape is abandoned when its button is released')
    ctx.assume(f'{PREFIX}: pointer positions and bounds are dyadic numbers (exact comparisons, also exactly on data points); '
               'names of the masks on masking_node() are not compared; simulated and random sessions never mask every data '
               'point (probed in a session of its own)')
    # ---- behaviours for the replay first (they are needed at once)
    n2, n1 = (240, 100) if th else (30, 12)
    sims = [par.start(SPEC, f'Growth_Sim_MaskingTool_{d}d.cfg', workers=1, simulate=f'num={n + n // 2 + 2}', depth=42, count=False,
                      extra=['-seed', str(ctx.seed * 2 + d + 50)], timeout=900) for d, n in ((2, n2), (1, n1))]
    # ---- (i) models and negative controls in the background
    sfx = '_thorough' if th else ''
    models = [par.start(SPEC, f'Growth_MC_MaskingTool{part}{sfx}.cfg', workers=w if th else 2, timeout=1500)
              for part, w in (('', 3), ('_order', 2), ('_1d', 1))]
    bugs = sorted(NEGS)
    negs = {b: par.start(SPEC, f'Growth_Neg_MaskingTool_{b}.cfg', workers=1, expect_error=True, timeout=300)
            for b in (bugs if th else bugs[ctx.seed % 3::3])}

    # ---- (iii) code -> spec: random sessions (and the probes) while the simulations run
    rng = ctx.rng
    events, nsess = [], (32 if th else 8)
    tpy = time.time()
    for tid in range(nsess):
        nd = 1 if tid % 3 == 2 else 2
        var = Variant(nd, rng.randrange(3, 13), rng.randrange(2, 10), tid * 7 + ctx.seed, rng)
        nsteps = rng.randrange(120, 200) if th else rng.randrange(60, 90)
        events += record_session(ctx, tid, var, rng, scratch, random_gestures(var, rng, nsteps))
    pev, about = probes(ctx, rng, scratch, 1000)
    events += pev
    n_real = len(events)
    ctx.extra['growth_masking_session_events'] = n_real
    ctx.extra['growth_masking_sessions_s'] = round(time.time() - tpy, 1)
    ctx.extra['growth_masking_sessions'] = nsess + len(about)

    # ---- (ii) spec -> code: the simulated behaviours
    behs = []
    for job, want in zip(sims, (n2, n1), strict=True):
        res = par.join(job)
        require_ok(ctx, res, 'MaskingTool simulation')
        got, last = [], None
        for b in res.tagged('BEH'):
            if b != last:               # TLC evaluates the printing action twice per behaviour
                got.append(b)
            last = b
        if len(got) < want // 2 + 1:
            raise MachineryError(f'only {len(got)} of {want} simulated behaviours exported')
        behs += got[:want]
    # the judge gets the recorded sessions, three behaviours of the specification as they are and falsified copies
    cands = [spec_session(b, 0) for b in (behs[0], behs[1], behs[-1])]
    bad, marks = _corrupt(cands, 2000)
    marks = [(n_real + i + 1, tid) for i, tid in marks]
    events += bad
    tf = scratch / 'sessions.ndjson'
    write_ndjson(tf, events)
    judge = par.start('masking/Growth_Trace_MaskingTool.tla', None, workers=1, env={'TRACE_FILE': str(tf)}, timeout=900)
    steps, treplay = 0, time.time()
    ctx.extra['growth_masking_wait_for_simulation_s'] = round(time.time() - tpy - ctx.extra['growth_masking_sessions_s'], 1)
    for idx, b in enumerate(behs):
        steps += replay(ctx, b, idx, scratch)
    ctx.traces(len(behs))
    ctx.extra['growth_masking_behaviours_replayed'] = len(behs)
    ctx.extra['growth_masking_steps_replayed'] = steps
    ctx.extra['growth_masking_replay_s'] = round(time.time() - treplay, 1)
    if behs:
        h = json.loads(behs[0][4])
        ctx.sample({'masking_tool_behaviour': [s['a'] for s in h[:12]], 'expected_after_step_12': h[min(11, len(h) - 1)]['e']})

    # ---- verdicts of the judge
    tr = par.join(judge)
    require_ok(ctx, tr, 'Growth_Trace_MaskingTool')
    done = tr.tagged('DONE')
    if not done or done[0][1] != len(events):
        raise MachineryError(f'masking trace validation incomplete: {done} vs {len(events)} events')
    ctx.traces(nsess + len(about))
    rejected, first = {}, {}
    for _, line, tid, clause in tr.tagged('REJECT'):
        rejected[line] = clause
        first.setdefault(tid, (line, clause))
    for tid, (line, clause) in first.items():
        if line > n_real:
            continue
        ev = events[line - 1]
        if clause.startswith('driver_error') or clause == 'unknown_event':
            raise MachineryError(f'bad masking event (line {line}): {clause}: {json.dumps(ev)[:400]}')
        op = ev['a']['op'] if ev['ev'] == 'step' else 'creation'
        hist = [e['a'] for e in events[:line] if e['tid'] == tid and e['ev'] == 'step']
        ctx.growth_finding(f'{PREFIX}: recorded session: {clause} (after {op}){about.get(tid, "")}',
                           {'event': ev, 'actions': hist[-40:], 'n_actions': len(hist)})
    missing = [m for m in marks if m[0] not in rejected]
    extra = [ln for ln in rejected if ln > n_real and ln not in {m[0] for m in marks}]
    if missing or extra or len(marks) < 3:
        raise MachineryError(f'masking trace specification is not sensitive / too sensitive: corrupted events not rejected '
                             f'{missing}, other events of corrupted copies rejected {extra}, {len(marks)} corruptions')
    for m in models:
        require_ok(ctx, par.join(m), 'MaskingTool model')
    for b, job in negs.items():
        r = par.join(job)
        if not any(name in r.error for name in NEGS[b]):
            raise MachineryError(f'negative control {b} was rejected for another reason than {NEGS[b]}: {r.error}')
    ctx.extra['growth_masking_wall_s'] = round(time.time() - t0, 1)
