SPECIFICATION Spec
CONSTANTS
  MaxOps = 4
  Vals <- MC_Vals2
  Bug = "none"
INVARIANT TypeOK
INVARIANT EveryBlockReadsBack
PROPERTY AddChangesOneBlock
PROPERTY SetReachesReferrers
CHECK_DEADLOCK FALSE
