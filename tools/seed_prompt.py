#!/usr/bin/env python3
"""Print the prompt for an independent 'seeding' sub-agent for property <ID> (worktree must exist)."""
import json, sys
pid = sys.argv[1]
variant = sys.argv[2] if len(sys.argv) > 2 else ''
wt = f'/tmp/seed-{pid}{variant}'
rec = [json.loads(l) for l in open('/verif/properties.jsonl') if json.loads(l)['id'] == pid][0]
prop = json.dumps({k: rec[k] for k in ('id', 'title', 'statement', 'quantifier', 'why_tests_cant', 'anchors')}, indent=1)
print(f"""You are testing how robust a Python library's guarantees are against subtle regressions. The library is scippneutron (neutron-scattering data reduction on top of scipp). You have your own scratch git worktree of its repository at {wt} (branch detached at the current HEAD). Work ONLY inside {wt}; never read or write /verif or /repo (they are off limits for this task), and do not use the network (there is none).

Here is a semantic property that the library is supposed to satisfy:

{prop}

Your task: produce ONE realistic change (a "regression") to the library source under {wt}/src/scippneutron that BREAKS this property while
  (a) still importing/compiling, and
  (b) still passing the repository's existing test suite, and
  (c) needing something specific to manifest — a particular multi-step sequence of operations, an unusual-but-admissible input, a particular configuration, two cooperating sites that each look fine alone, a boundary value — NOT something that ordinary use would expose at once (so: not "function always raises", not "result always off by 2x" unless the existing tests genuinely cannot see it).
The change should look like something a maintainer could plausibly commit by mistake (a refactoring slip, an optimisation, a wrong inequality, a dropped copy, a unit/dtype slip, an off-by-one, an order dependence, a cache), be small (a few lines), and touch only files under src/scippneutron.{' Try to find a DIFFERENT kind of breakage than the most obvious one: think about less-travelled code paths, rare configurations, and interactions between two functions.' if variant else ''}

How to run things: the Python with all dependencies is /venv/bin/python. The installed package points at another checkout, so ALWAYS run with PYTHONPATH={wt}/src so that your worktree is the code under test, e.g.
  cd {wt} && PYTHONPATH={wt}/src /venv/bin/python -c "import scippneutron; print(scippneutron.__file__)"   # must print a path under {wt}
  cd {wt} && PYTHONPATH={wt}/src /venv/bin/python -m pytest -q -p no:cacheprovider -x tests/<relevant dir>
and finally the whole suite (about 4 minutes; some tests error because they need the network — those same tests also error without your change; ignore them, but no test that passes without your change may fail with it):
  cd {wt} && PYTHONPATH={wt}/src /venv/bin/python -m pytest -q -p no:cacheprovider --timeout=900 -W ignore::pytest.PytestRemovedIn10Warning 2>&1 | tail -15
Compare against the unmodified tree if in doubt which failures are pre-existing — toggle your change with `git apply -R SEED/patch.diff` / `git apply SEED/patch.diff`; do NOT use `git stash` (the stash is shared between all worktrees of this repository and other agents use it too).

Deliverables, all inside {wt}/SEED/ (create the directory):
  1. patch.diff — `git -C {wt} diff -- src` of your change (unified diff, paths a/src/... b/src/...).
  2. demo.py — a small standalone program that exits 0 and prints "PROPERTY HOLDS" on the unmodified code and exits 1 and prints "PROPERTY VIOLATED: <what>" with your change applied. It must judge the property with an independent oracle (the mathematical definition / the documented format), not by comparing against recorded outputs of the unmodified code. Run it with PYTHONPATH={wt}/src /venv/bin/python SEED/demo.py both ways (use `git apply -R SEED/patch.diff` to get the unmodified code; never `git stash`, it is shared with other worktrees) and make sure it behaves as described.
  3. meta.json — {{"property": "{pid}", "summary": "<one sentence: what the change does>", "needs": "<what specific input / sequence / configuration is needed for the violation to manifest>", "files": [...], "tests_run": "<the commands you ran and their outcome, incl. the number of passed tests with and without the change>"}}.
Leave the worktree with your change APPLIED at the end. In your final message give: the diff, what it needs to manifest, demo output with and without the change, and the full-suite result with the change.""")
