--------------------------- MODULE Cases_Cylinder ---------------------------
(* spec -> code: TLC evaluates the specification's operators on every cylinder x ray of the    *)
(* exhaustive model and writes one JSON record per case with the exact expected abstract       *)
(* result; the harness replays each case into Cylinder.beam_intersection / quadrature /        *)
(* compute_transmission_map and also checks its own rational oracle (harness/lib_absorption)   *)
(* against these records, so that the oracle used for the large random cases is bound to the   *)
(* TLA+ operators.                                                                             *)
(*   RAYS_FILE   [c, s, n, cls, exact, len, grazing]                                           *)
(*   CYLS_FILE   [c, q, tau, gc, oe]   cylinder, a rigid motion, the moved cylinder, OtherEnd  *)
(*   MOM_FILE    [a, b, c, disk, line] unit moments (factor of pi for the disk)                *)
(* TIER = "quick" | "thorough" selects the sets.                                               *)
EXTENDS CylinderSets, TLC, Json, IOUtils, SequencesExt

Thorough == IOEnv.TIER = "thorough"
AxisQ == IF Thorough THEN MC_AxisQuatsThorough ELSE MC_AxisQuatsQuick
BasesR == MC_OneBase
StartsR == MC_StartsQuick     \* the export is evaluated by a single TLC thread: thorough widens axes and directions only
DirsR == IF Thorough THEN MC_DirsThorough ELSE MC_DirsQuick

Cyls == { MkCyl(q, b, r, h) : q \in AxisQ, b \in BasesR, r \in {1, 2}, h \in {1, 3} }

RayCase(c, s, n) ==
    LET S == RaySummary(c, [s |-> s, n |-> n])
    IN [c |-> c, s |-> s, n |-> n, cls |-> S.cls, exact |-> S.exact, len |-> S.len, grazing |-> S.grazing]
RayCases == { RayCase(c, s, n) : c \in Cyls, s \in StartsR, n \in DirsR }

(* every class of rays occurs, also among the cases with a rational length *)
ASSUME \A cls \in RayClasses : \E x \in RayCases : x.cls = cls /\ x.exact /\ ~x.grazing
ASSUME \A x \in RayCases : x.cls \in ZeroClasses /\ x.exact => x.len = RZero

(* "in any length unit": re-expressing cylinder and ray in a unit f times finer keeps class, exactness  *)
(* and grazing and multiplies the path length by f; membership of the probe points is unchanged        *)
UnitFactors == {10}
ASSUME \A x \in RayCases, f \in UnitFactors :
         LET S == RaySummary(ScaleCyl(f, x.c), ScaleRay(f, [s |-> x.s, n |-> x.n]))
         IN /\ (S.cls = x.cls \/ "undecided" \in {S.cls, x.cls})    \* integer root bounds are finer in the finer unit
            /\ S.exact = x.exact /\ S.grazing = x.grazing
            /\ (x.exact => S.len = RScale(f, x.len))
ASSUME \A c \in Cyls, p \in MC_Points, f \in UnitFactors \cup {3, 1000} :
         Inside(ScaleCyl(f, c), ScaleVec(f, p)) = Inside(c, p)

Motions == { <<q, tau>> : q \in MC_CubeQuats \cup MC_SkewQuats \cup {<<0,1,0,0>>, <<1,2,2,0>>}, tau \in MC_Shifts }
CylCases == { [c |-> MkCyl(q, b, r, h), q |-> g[1], tau |-> g[2],
               gc |-> MoveCyl(g[1], g[2], MkCyl(q, b, r, h)),
               oe |-> OtherEndCyl(MkCyl(q, b, r, h))] :
              q \in AxisQ, b \in MC_Bases, r \in {1, 2}, h \in {1, 3}, g \in Motions }
ASSUME \A x \in CylCases : IsRotation(x.gc.m, x.gc.k) /\ IsRotation(x.oe.m, x.oe.k)

MomCases == { [a |-> a, b |-> b, c |-> c, disk |-> DiskMoment(a, b), line |-> LineMoment(c)] :
              a \in 0..8, b \in 0..8, c \in 0..7 }

ASSUME ndJsonSerialize(IOEnv.RAYS_FILE, SetToSeq(RayCases))
ASSUME ndJsonSerialize(IOEnv.CYLS_FILE, SetToSeq(CylCases))
ASSUME ndJsonSerialize(IOEnv.MOM_FILE, SetToSeq(MomCases))
ASSUME PrintT(<<"CASES", Cardinality(RayCases), Cardinality(CylCases), Cardinality(MomCases)>>)
ASSUME PrintT(<<"CLASSES", [cls \in RayClasses \cup {"undecided"} |-> Cardinality({x \in RayCases : x.cls = cls})]>>)
=============================================================================
