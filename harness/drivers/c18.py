"""C18 — cylinder absorption: path lengths, quadrature and transmission are geometric.

Spec: spec/absorption/CylinderDefs.tla (exact rational geometry: Inside, rigid motions, OtherEnd,
closed-form chord, ray classes, exact moments), Cylinder.tla (state machine + invariants),
CylinderSets.tla / MC_Cylinder.tla (bounds), Cases_Cylinder.tla (case export), Trace_Cylinder.tla
(judge of recorded executions).  harness/lib_absorption.py is the same geometry on unbounded
Fractions (the refinement mapping); it never imports scippneutron.

1. TLC, exhaustive (two configs of the same module):
   motion: Inside(g.cyl, g.pt) <=> Inside(cyl, pt) for all behaviours of <= 2 rigid motions / OtherEnd;
   rays:   the closed-form chord interval agrees with pointwise membership along the ray and
           PathLength is the measure of {t >= 0 : Inside(s + t n)}; ray classes consistent.
   Negative controls: OtherEnd that keeps the axis; chord not clipped to t >= 0 — both must be rejected.
2. spec -> code (M1): TLC writes every cylinder x ray of the model with class and exact length, every
   cylinder x rigid motion with the moved / other-end description, and the unit moment table.  The
   harness first checks its own oracle against these records (binding lib_absorption to the TLA+
   operators), then replays the rays into Cylinder.beam_intersection (vectorised, several length units
   and scales) and uses the cylinders for the quadrature and transmission checks.
3. code -> spec (M2): seeded random cylinders (axes over the whole sphere from random integer
   quaternions, bases anywhere, radius/height 1e-3..1e3 in m/cm/mm/um/angstrom), rays from inside,
   outside, parallel, tangent and missing, all deterministic quadrature kinds, transmission maps with
   detectors in all directions; one NDJSON event per call; Trace_Cylinder.tla judges every event.

What TLC decides and what is numeric: TLC decides membership, ray classes, zero/positive length, the
rigid-motion algebra and (coarsely, on points rounded to 1/64 lattice unit) that quadrature points lie
in the solid.  "To rounding" comparisons are computed here from the spec's exact rationals (sqrt and pi
through mpmath, 60 digits) and handed to TLC as booleans:
  * beam_intersection: |got - exact| <= 1e-12*exact + 1e-12*size (size = max(2r, h)).  Rays are
    generated only where the length is a well-conditioned function of the inputs: grazing rays (inside
    a cap plane / along the lateral surface) are excluded, near-tangent rays (|1 - d^2/r^2| < 1/64, d =
    distance line-axis) are excluded, exactly tangent rays must give <= 1e-12*size where every float
    operation of the case is exact (axis-aligned integer geometry, power-of-two scale) and
    <= 1e-6*size otherwise (a relative input perturbation delta moves the chord of a tangent line by
    up to 2r*sqrt(2*delta); delta = 64 eps gives 3.4e-7 * 2r).
  * quadrature: points inside to 1e-9*size; weights > 0; sum(w) = pi r^2 h, centroid = centre and the
    moments of lib_absorption.monomials(kind) to moment_tol(kind) (1e-12 'cheap', 1e-6 'medium' /
    'expensive' — degrees and tolerances from the published rules, DESIGN §5 C18 / §3.4), each moment
    relative to volume * r^(a+b) * (h/2)^c.
  * transmission: 0 < T <= 1 + tol(kind); |T - 1| <= tol(kind) for mu = 0; strictly decreasing in the
    number density and (absorbing material) in the wavelength; invariance |T_k(c) - T_k(g c)| <=
    2*(d_k(c) + d_k(gc) + d_m(c) + d_m(gc)) + 1e-6 where d_k(x) = max over detectors and wavelengths of
    |T_k(x) - T_expensive(x)| (d_expensive := d_medium): the quadrature error of kind k is estimated by
    its distance to the best rule, the error of the best rule by the distance of the next best, and a
    factor 2 covers the fluctuation of the estimate; the true transmission is invariant, so the two
    errors add.  (The points of the moved cylinder are NOT the moved points: the code rotates the disk
    rule by the shortest rotation from z to the axis, so the rule's azimuth about the axis differs.)

Hardening round (HARDENING.md; everything below stays inside the property's quantifier):
  * presentation (items 1, 2, 3, 7): the property is about configurations, not about how they are handed
    over.  Every batch of rays is given to beam_intersection in one of the layouts of
    CylinderDefs!RayLayouts (0-d operands, lists, reversed lists, 0-d start x list of directions, list of
    starts x 0-d direction, starts x directions broadcast to a grid, the same grid as transposed =
    non-contiguous 2-d operands); radius and height are float64, float32 or int64 whenever the number is
    the same in that type (SizeTypes).  The oracle does not know the layout.
  * thresholds and scales (item 4): cylinders with aspect ratios up to 1e6 (radius and height still within
    1e-3..1e3) with rays nearly parallel to the axis (long cylinders) / nearly perpendicular to it (flat
    ones), tilted by 1e-1 .. 1e-6 so that the ray leaves through the lateral surface (the caps) although it
    is "almost" parallel (perpendicular); axes 1e-3 .. 1e-9 rad away from +z and -z for the quadrature.
    For the tilted rays the tolerance is derived, not 1e-12: with theta = |n x a|, phi = |n . a| the float
    cross / dot product of two unit vectors has absolute error <= 3 eps, i.e. relative error 3 eps/theta
    (3 eps/phi), and b.(n x a), b.a have absolute error <= 6 eps |b| while geometry bounds their size by
    r theta resp. h; every term of the chord formula therefore carries a relative error of at most
    c eps (1 + |b|/min(r,h)) (1/theta + 1/phi); we allow 64 eps (...) + 1e-12 (measured on the pristine
    tree while writing this: <= 2 % of the bound) and generate a case only if the bound is <= 1e-2.
  * mixed units (item 5): the moved / re-described copy of a transmission set-up is handed over in ANOTHER
    length unit than the original (CylinderDefs!ScaleCyl: same configuration, TLC confirms in
    Cases_Cylinder that membership is unchanged and lengths scale), with the SAME material object, the
    wavelengths in another unit and another order, the detectors as a 2-d array in yet another unit.
  * second use (item 6): a third of the quadrature calls is the second call on a Cylinder object that has
    already been used; at the end of the run a sample of all cases is evaluated again, in another order and
    layout, and judged again (events with pass = 2; Trace_Cylinder checks that they are the same cases).
  * an absolute bar for the line rule of 'medium' / 'expensive' (the seeded change that cached the Gauss nodes and
    rescaled them in place is invisible to the metamorphic transmission relations once the drifting weights
    have converged, and the moments with c <= 1 never see it): z^2 and z^4 moments within three times the
    error of the DOCUMENTED rule at its smallest node count (lib_absorption.axial_tol, computed from the
    formula with mpmath, never from the code: 5.3 % / 2.1 % for z^2).
  * self-tests (item 11): the corrupted events of the trace control are derived from synthetic events that
    are built from the model cases and the oracle, never from what the implementation returned; violations
    are reported before the control runs.
"""

from __future__ import annotations

import copy
import json
import os
import threading
import time
from fractions import Fraction as F

import mpmath
import numpy as np

from .. import lib_absorption as L
from ..core import MachineryError
from ..tlc import require_ok, write_ndjson

RULE = ('cylinder = frame from an integer quaternion (axis a rational unit vector, every sign pattern incl. '
        '+/-z and axis-aligned), rational base, integer radius/height in a lattice unit times a scale and a '
        'length unit; rays with rational unit directions; non-trivial = ray with positive exact length, '
        'quadrature call that returned points, transmission pair with mu*size >= 0.05')

KINDS = ('cheap', 'medium', 'expensive')
UNITS = ('mm', 'm', 'cm', 'um', 'angstrom')
# scale = length of one lattice unit in the chosen unit (exact rationals; the first three are powers of two)
SCALES = (F(1), F(1, 1024), F(64), F(1, 1000), F(37, 100), F(1000, 7), F(3, 2000))
WORKERS = int(os.environ.get('VERIF_TLC_WORKERS', '16'))  # developers on a shared machine may lower this
LAYOUTS = ('1d', '1d_reversed', '0d', 'start0d', 'dir0d', '2d', '2d_transposed')   # = CylinderDefs!RayLayouts
EPS = 2.0 ** -52
PLACEHOLDER = {'m': [[1, 0, 0], [0, 1, 0], [0, 0, 1]], 'k': 1, 'b': [0, 0, 0, 1], 'r': 1, 'h': 1}
SECOND = ' [second evaluation of the same case, after other calls]'


def _fl(v):
    return [float(x) for x in v]


def _zc(c):
    return 'axis z<0' if c.axis[2] < 0 else 'axis z>=0'


def _size_types(c, u):
    """Number types in which radius and height are the SAME numbers as the float64 handed over so far."""
    out = ['float64']
    vals = (float(c.r * u), float(c.h * u))
    if all(float(np.float32(v)) == v for v in vals):
        out.append('float32')
    if all(v.is_integer() and abs(v) < 2 ** 53 for v in vals):
        out.append('int64')
    return out


def _sc_cylinder(c, u, unit, sizes='float64'):
    import scipp as sc
    from scippneutron.absorption import Cylinder

    def size(x):
        v = float(x * u)
        if sizes == 'int64':
            return sc.scalar(int(v), unit=unit, dtype='int64')
        if sizes == 'float32':
            return sc.scalar(v, unit=unit, dtype='float32')
        return sc.scalar(v, unit=unit)

    return Cylinder(
        sc.vector(_fl(c.axis)),
        sc.vector(_fl(L.scale(u, c.base)), unit=unit),
        size(c.r),
        size(c.h),
    )


def _pick_scale(rng, c, pow2=False):
    """A scale/unit with radius and height inside 1e-3..1e3 (the property's range)."""
    for _ in range(50):
        u = rng.choice(SCALES[:3] if pow2 else SCALES)
        if F(1, 1000) <= c.r * u <= 1000 and F(1, 1000) <= c.h * u <= 1000:
            return u, rng.choice(UNITS)
    return F(1), 'mm'


def _pick_sizes(rng, c, u):
    """float64 most of the time; another admissible number type otherwise."""
    types = _size_types(c, u)
    return rng.choice(types) if rng.random() < 0.4 else 'float64'


# ------------------------------------------------------------------------------------------------ rays
def _exact_arith(c, n, u):
    """Every float operation of beam_intersection is exact: axis-aligned integer geometry."""
    ints = all(x.denominator == 1 for x in c.base) and all(abs(x) in (0, 1) for x in c.axis) and all(
        abs(x) in (0, 1) for x in n)
    return ints and (u.numerator & (u.numerator - 1)) == 0 and (u.denominator & (u.denominator - 1)) == 0


def _well_conditioned(res, size):
    """The path length is a well-conditioned function of the inputs and either exactly zero or clearly
    positive (so that 'zero' / 'positive' can be read off a float)."""
    if res['grazing']:
        return False
    if 0 < res['length'] < mpmath.mpf(1e-6) * L.mp(size):
        return False
    dr = res['disc_rel']
    return dr == 0 or abs(dr) >= F(1, 64)


class _Malformed(Exception):
    """The implementation returned something that is not an array of lengths over the dims of its operands."""


def _beam_lengths(cyl, rays, u, unit, layout):
    """Path lengths (floats, in `unit`) of `rays` = [(s, n, ...)] in the order given, obtained through the
    stated layout of operands.  Raises whatever the implementation raises; _Malformed on malformed results."""
    import scipp as sc

    S = np.array([_fl(L.scale(u, r[0])) for r in rays], dtype=float).reshape(len(rays), 3)
    N = np.array([_fl(r[1]) for r in rays], dtype=float).reshape(len(rays), 3)

    def values(got, dims, shape):
        if not isinstance(got, sc.Variable):
            raise _Malformed(f'result is a {type(got).__name__}')
        got = got.to(unit=unit, copy=False)
        if set(got.dims) != set(dims) or len(got.dims) != len(dims):
            raise _Malformed(f'result has dims {got.dims}, expected {dims}')
        if tuple(got.dims) != tuple(dims):
            got = got.transpose(list(dims))
        vals = np.array(got.values, dtype=float)
        if vals.shape != tuple(shape):
            raise _Malformed(f'result has shape {vals.shape}, expected {shape}')
        return vals

    n = len(rays)
    if layout == '1d':
        return values(cyl.beam_intersection(sc.vectors(dims=['ray'], values=S, unit=unit),
                                            sc.vectors(dims=['ray'], values=N)), ('ray',), (n,))
    if layout == '1d_reversed':
        return values(cyl.beam_intersection(sc.vectors(dims=['ray'], values=S[::-1].copy(), unit=unit),
                                            sc.vectors(dims=['ray'], values=N[::-1].copy())), ('ray',), (n,))[::-1]
    if layout == '0d':
        return np.array([float(values(cyl.beam_intersection(sc.vector(S[i], unit=unit), sc.vector(N[i])), (), ()))
                         for i in range(n)])
    out = np.full(n, np.nan)
    skeys = [tuple(r[0]) for r in rays]
    nkeys = [tuple(r[1]) for r in rays]
    if layout in ('start0d', 'dir0d'):
        keys = skeys if layout == 'start0d' else nkeys
        groups = {}
        for i, k in enumerate(keys):
            groups.setdefault(k, []).append(i)
        for idx in groups.values():
            if layout == 'start0d':
                got = cyl.beam_intersection(sc.vector(S[idx[0]], unit=unit), sc.vectors(dims=['d'], values=N[idx]))
                out[idx] = values(got, ('d',), (len(idx),))
            else:
                got = cyl.beam_intersection(sc.vectors(dims=['s'], values=S[idx], unit=unit), sc.vector(N[idx[0]]))
                out[idx] = values(got, ('s',), (len(idx),))
        return out
    # grids: distinct starts along 'a', distinct directions along 'b'
    si, ni = {}, {}
    for i in range(n):
        si.setdefault(skeys[i], len(si))
        ni.setdefault(nkeys[i], len(ni))
    na, nb = len(si), len(ni)
    SA = np.zeros((na, 3))
    NB = np.zeros((nb, 3))
    for i in range(n):
        SA[si[skeys[i]]] = S[i]
        NB[ni[nkeys[i]]] = N[i]
    if layout == '2d':
        got = cyl.beam_intersection(sc.vectors(dims=['a'], values=SA, unit=unit), sc.vectors(dims=['b'], values=NB))
    elif layout == '2d_transposed':
        # both operands full 2-d arrays whose memory order is the transpose of their dims order
        sbuf = np.ascontiguousarray(np.broadcast_to(SA[None, :, :], (nb, na, 3)))
        nbuf = np.ascontiguousarray(np.broadcast_to(NB[None, :, :], (na, nb, 3)))
        s2 = sc.vectors(dims=['b', 'a'], values=sbuf, unit=unit).transpose(['a', 'b'])
        n2 = sc.vectors(dims=['a', 'b'], values=nbuf).transpose(['b', 'a'])
        got = cyl.beam_intersection(s2, n2)
    else:
        raise MachineryError(f'unknown layout {layout}')
    grid = values(got, ('a', 'b'), (na, nb))
    for i in range(n):
        out[i] = grid[si[skeys[i]], ni[nkeys[i]]]
    return out


def _layout_ok(layout, rays):
    """Grids only when the full product is affordable; one call per ray only for short batches."""
    if layout in ('2d', '2d_transposed'):
        return len({tuple(r[0]) for r in rays}) * len({tuple(r[1]) for r in rays}) <= 40000
    return True


def _ray_tol(c, s, n, res, u, special):
    """(relative, absolute) tolerance of one ray, see the module docstring."""
    size = float(c.size * u)
    if special:
        na = L.dot(n, c.axis)
        theta = float(mpmath.sqrt(L.mp(1 - na * na)))
        phi = abs(float(na))
        w0 = L.sub(s, c.base)
        bn = float(mpmath.sqrt(L.mp(L.dot(w0, w0))))
        rel = 1e-12 + 64 * EPS * (1 + bn / float(min(c.r, c.h))) * (1 / max(theta, 1e-300) + 1 / max(phi, 1e-300))
        return rel, 1e-12 * size
    if res['cls'] == 'tangent' and not _exact_arith(c, n, u):
        return 1e-12, 1e-6 * size
    return 1e-12, 1e-12 * size


def _run_rays(ctx, c, rays, u, unit, what, layout='1d', sizes='float64', special=False):
    """rays: list of (s, n, res) with res = c.chord(s, n).  Returns per-ray dicts (zero, len_ok, raised)."""
    tag = '' if layout == '1d' and sizes == 'float64' else f', {layout} layout, {sizes} radius/height'
    try:
        cyl = _sc_cylinder(c, u, unit, sizes)
        vals = _beam_lengths(cyl, rays, u, unit, layout)
    except MachineryError:
        raise
    except Exception as e:  # noqa: BLE001
        how = 'returned a malformed result' if isinstance(e, _Malformed) else f'raised {type(e).__name__}'
        ctx.violation(f'beam_intersection {how} ({what}{tag})',
                      {'cyl': L.cyl_ints(c) if not special else _cyl_float(c), 'unit': unit, 'scale': str(u),
                       'layout': layout, 'sizes': sizes, 'exc': repr(e)[:300]})
        return [{'raised': True, 'zero': False, 'len_ok': False, 'got': None} for _ in rays]
    out = []
    for (s, n, res), g in zip(rays, vals, strict=True):
        g = float(g)
        want = res['length'] * L.mp(u)
        rtol, atol = _ray_tol(c, s, n, res, u, special)
        ok = np.isfinite(g) and abs(mpmath.mpf(g) - want) <= mpmath.mpf(rtol) * want + atol
        out.append({'raised': False, 'zero': bool(np.isfinite(g) and abs(g) <= atol), 'len_ok': bool(ok),
                    'got': g, 'want': float(want), 'rtol': rtol})
    return out


def _cyl_float(c):
    return {'axis': _fl(c.axis), 'base': _fl(c.base), 'r': float(c.r), 'h': float(c.h)}


def _ray_key(clause, cls, layout='1d', sizes='float64', special='', second=False):
    tag = f'{cls} ray'
    if special:
        tag += f', {special}'
    if layout != '1d':
        tag += f'; {layout} layout'
    if sizes != 'float64':
        tag += f'; {sizes} radius/height'
    return f'beam_intersection: {clause} [{tag}]' + (SECOND if second else '')


def _ray_violation(ctx, clause, c, s, n, res, r, u, unit, layout='1d', sizes='float64', special='', second=False):
    big = max(abs(x.numerator) + x.denominator for x in (*s, *n, *c.base, *c.axis)) > 10 ** 9
    ctx.violation(_ray_key(clause, res['cls'], layout, sizes, special, second),
                  {'cyl': _cyl_float(c) if big else L.cyl_ints(c), 'start': _fl(s) if big else L.vec_ints(s),
                   'dir': _fl(n) if big else L.vec_ints(n), 'unit': unit, 'scale': str(u), 'layout': layout,
                   'sizes': sizes, 'got': r.get('got'), 'want': r.get('want'), 'rtol': r.get('rtol'),
                   'axis': _fl(c.axis)})


def _judge_direct(ctx, c, rays, obs, u, unit, layout, sizes, classes=None, second=False, ci=0):
    for (s, n, res), r in zip(rays, obs, strict=True):
        cls = res['cls']
        if classes is not None:
            classes[cls] = classes.get(cls, 0) + 1
        ctx.case(nontrivial_id=('ray', ci, tuple(s), tuple(n), str(u), layout, second) if res['length'] > 0 else None)
        if r['raised']:
            continue
        kw = {'layout': layout, 'sizes': sizes, 'second': second}
        if cls in ('parallel_miss', 'tangent', 'miss_line', 'miss_solid') and not r['zero']:
            _ray_violation(ctx, 'positive length for a ray that misses the solid', c, s, n, res, r, u, unit, **kw)
        elif res['length'] > 0 and r['zero']:
            _ray_violation(ctx, 'zero length for a ray that passes through the solid', c, s, n, res, r, u, unit, **kw)
        elif not r['len_ok']:
            _ray_violation(ctx, 'length differs from the exact chord', c, s, n, res, r, u, unit, **kw)


def _replay_tlc_rays(ctx, path, keep):
    """M1: every ray case TLC enumerated, replayed into the code; also binds the Python oracle to TLC.
    `keep` collects (c, rays, ci) of some cylinders for the second evaluation at the end of the run."""
    by_cyl = {}
    n_cases = 0
    with open(path) as f:
        for line in f:
            rec = json.loads(line)
            by_cyl.setdefault(json.dumps(rec['c'], sort_keys=True), []).append(rec)
            n_cases += 1
    classes = {}
    layouts_used = {}
    for ci, (ckey, recs) in enumerate(sorted(by_cyl.items())):
        c = L.cyl_from_ints(json.loads(ckey))
        rays = []
        for rec in recs:
            s, n = L.vec_from_ints(rec['s']), L.vec_from_ints(rec['n'])
            res = c.chord(s, n)
            # ---- oracle vs TLC (a disagreement is a failure of the machinery)
            if rec['cls'] != 'undecided' and rec['cls'] != res['cls']:
                raise MachineryError(f'oracle/TLC class mismatch {rec} vs {res["cls"]}')
            if rec['grazing'] != res['grazing']:
                raise MachineryError(f'oracle/TLC grazing mismatch {rec}')
            if rec['exact']:
                if res['exact'] is None or res['exact'] != F(rec['len'][0], rec['len'][1]):
                    raise MachineryError(f'oracle/TLC length mismatch {rec} vs {res["exact"]}')
            if _well_conditioned(res, c.size):
                rays.append((s, n, res))
        if not rays:
            continue
        # two scales per cylinder: one power of two (exact scaling) in the plain presentation, one arbitrary
        # in another layout / number type (the layouts rotate over the cylinders so that each one meets
        # every cylinder orientation class and every ray class of the model)
        lay2 = LAYOUTS[1 + ci % (len(LAYOUTS) - 1)]
        for k, (u, unit) in enumerate((_pick_scale(ctx.rng, c, pow2=True), _pick_scale(ctx.rng, c))):
            layout = '1d' if k == 0 else lay2
            sizes = 'float64' if k == 0 and ci % 3 else ctx.rng.choice(_size_types(c, u))
            use = rays if layout != '0d' else ctx.rng.sample(rays, min(len(rays), 24))
            obs = _run_rays(ctx, c, use, u, unit, 'model cases', layout, sizes)
            layouts_used[layout] = layouts_used.get(layout, 0) + len(use)
            _judge_direct(ctx, c, use, obs, u, unit, layout, sizes, classes, ci=ci)
        if ci % 5 == 0:
            keep.append((c, rays, ci))
    ctx.extra['replayed_ray_cases'] = n_cases
    ctx.extra['replayed_ray_classes'] = classes
    ctx.extra['replayed_ray_layouts'] = layouts_used
    return n_cases


def _replay_again(ctx, keep):
    """Item 6: a sample of the model cases once more, at the end of the run, in another order and layout."""
    keep = list(keep)
    ctx.rng.shuffle(keep)
    n = 0
    for c, rays, ci in keep[: (40 if ctx.thorough else 10)]:
        rays = list(rays)
        ctx.rng.shuffle(rays)
        u, unit = _pick_scale(ctx.rng, c)
        layout = ctx.rng.choice(['1d_reversed', 'dir0d', '2d'])
        obs = _run_rays(ctx, c, rays, u, unit, 'model cases, second evaluation', layout, 'float64')
        _judge_direct(ctx, c, rays, obs, u, unit, layout, 'float64', second=True, ci=ci)
        n += len(rays)
    ctx.extra['replayed_again_ray_cases'] = n


def _random_cyl(ctx, small):
    rng = ctx.rng
    q = L.random_quaternion(rng, 2 if small else rng.choice([2, 3, 4, 6]))
    if rng.random() < 0.15:  # axis-aligned, both signs
        q = rng.choice([(1, 0, 0, 0), (0, 1, 0, 0), (1, 1, 0, 0), (1, -1, 0, 0), (1, 0, 1, 0), (1, 0, -1, 0),
                        (0, 0, 1, 0), (0, 1, 1, 0)])
    elif not small and rng.random() < 0.2:  # a few degrees (or less) away from +z / -z
        m, a, b = rng.choice([8, 15, 40, 200]), rng.choice([-1, 0, 1]), rng.choice([-1, 1])
        q = rng.choice([(m, a, b, 0), (a, m, b, 0), (m, b, 0, a), (b, a, m, 0)])
    lim = 6 if small else 40
    base = tuple(F(rng.randint(-lim, lim), 1 if small else rng.choice([1, 1, 2, 3])) for _ in range(3))
    r = rng.randint(1, 4) if small else rng.choice([1, 2, 3, 5, 8, 9, 20, 100])
    h = rng.randint(1, 6) if small else rng.choice([1, 2, 3, 4, 7, 9, 20, 100])
    return L.Cyl(L.qrot(q), base, r, h)


def _near_pole_cyl(ctx):
    """Axis 1e-3 .. 1e-9 rad away from +z or -z (item 4: a threshold on |z x axis| must not matter)."""
    rng = ctx.rng
    m = rng.choice([10 ** 3, 3 * 10 ** 4, 10 ** 6, 2 * 10 ** 7, 10 ** 8, 10 ** 9])
    a, b = rng.choice([(1, 0), (0, 1), (1, 1), (-1, 1), (1, -1), (-1, -1), (0, -1), (-1, 0)])
    q = rng.choice([(m, a, b, 0), (a, m, b, 0), (b, a, m, 0)])        # near +z, near -z, near -z
    base = tuple(F(rng.randint(-40, 40), rng.choice([1, 2, 3])) for _ in range(3))
    return L.Cyl(L.qrot(q), base, rng.choice([1, 2, 3, 5, 9]), rng.choice([1, 2, 4, 7, 9]))


def _extreme_cyl(ctx, mode=None):
    """Aspect ratio 10 .. 1e6 with radius and height inside 1e-3 .. 1e3; returns (cylinder, scale)."""
    rng = ctx.rng
    mode = mode or rng.choice(['long', 'flat'])
    asp = rng.choice([10, 100, 10 ** 3, 10 ** 4, 10 ** 5, 10 ** 5, 10 ** 6, 10 ** 6])
    r, h = (1, asp) if mode == 'long' else (asp, 1)
    q = L.random_quaternion(rng, 3)
    if rng.random() < 0.2:
        q = rng.choice([(1, 0, 0, 0), (0, 1, 0, 0), (1, 1, 0, 0), (1, 0, -1, 0)])
    base = tuple(F(rng.randint(-40, 40), rng.choice([1, 2, 3])) for _ in range(3))
    c = L.Cyl(L.qrot(q), base, r, h)
    lo, hi = F(1, 1000) / min(r, h), F(1000) / max(r, h)          # admissible scales: lo <= u <= hi
    cands = [u for u in (F(1), F(1, 1024), F(1, 1000), F(37, 100), F(1, 512), F(3, 2000), F(1, 125), F(1, 8)) if lo <= u <= hi]
    u = rng.choice(cands) if cands else hi
    return c, u, mode, asp


def _unit_dir(rng, units, c=None):
    x, y, z, n = rng.choice(units)
    return (F(x, n), F(y, n), F(z, n))


def _random_rays(ctx, c, units, nrays, small):
    """Rays aimed at the solid from inside and outside, parallel to the axis, tangent, missing."""
    rng = ctx.rng
    rays = []
    tries = 0
    while len(rays) < nrays and tries < nrays * 20:
        tries += 1
        kind = rng.random()
        if kind < 0.15:  # parallel to the axis, either sense
            n = c.axis if rng.random() < 0.5 else L.scale(-1, c.axis)
        else:
            n = _unit_dir(rng, units)
        if kind > 0.9 and not small:
            # exactly tangent to the lateral surface: a surface point, a rational tangent direction
            cs, sn = rng.choice([(F(3, 5), F(4, 5)), (F(-5, 13), F(12, 13)), (F(1), F(0)), (F(0), F(-1)),
                                 (F(8, 17), F(-15, 17))])
            cp, sp = rng.choice([(F(3, 5), F(4, 5)), (F(0), F(1)), (F(-4, 5), F(3, 5)), (F(12, 13), F(-5, 13))])
            radial = L.add(L.scale(cs, c.e1), L.scale(sn, c.e2))
            tang = L.add(L.scale(-sn, c.e1), L.scale(cs, c.e2))
            pt = L.add(L.add(c.base, L.scale(c.h * F(rng.randint(-3, 7), 4), c.axis)), L.scale(c.r, radial))
            n = L.add(L.scale(cp, c.axis), L.scale(sp, tang))
            s = L.sub(pt, L.scale(F(rng.randint(-6, 6), 2) * c.size, n))
        elif small:
            s = tuple(F(rng.randint(-16, 16), 2) for _ in range(3))
        else:
            # through a point near the solid
            loc = (F(rng.randint(-12, 12), 8) * c.r, F(rng.randint(-12, 12), 8) * c.r,
                   F(rng.randint(-6, 6), 8) * c.h)
            tgt = L.add(c.center, L.add(L.add(L.scale(loc[0], c.e1), L.scale(loc[1], c.e2)),
                                        L.scale(loc[2], c.axis)))
            s = L.sub(tgt, L.scale(F(rng.randint(-8, 8), 4) * c.size * rng.choice([0, 1, 1, 1]), n))
        res = c.chord(s, n)
        if not _well_conditioned(res, c.size):
            continue
        rays.append((s, n, res))
    return rays


def _tilted_rays(ctx, c, mode, asp, nrays):
    """Rays tilted by a small rational rotation away from the axis direction (long cylinders) or away from a
    direction perpendicular to the axis (flat cylinders), starting inside the solid."""
    rng = ctx.rng
    rays = []
    for _ in range(nrays * 6):
        if len(rays) >= nrays:
            break
        k = rng.choice([1, 2, 3, 5, 7])
        m = max(rng.choice([1, 2, 5, 20]) * asp // k, 3)
        a_, b_ = rng.choice([(1, 0), (0, 1), (1, 1), (-1, 2), (2, -1), (3, 1), (-1, -1)])
        Rs = L.qrot((m, a_, b_, 0))                   # body-frame rotation by ~ 2 sqrt(a^2+b^2)/m about a transverse axis
        if mode == 'long':
            nb = L.matvec(Rs, (F(0), F(0), F(rng.choice([1, -1]))))
        else:
            cs, sn = rng.choice([(F(3, 5), F(4, 5)), (F(1), F(0)), (F(-5, 13), F(12, 13)), (F(0), F(-1))])
            nb = L.matvec(Rs, (cs, sn, F(0)))
        n = L.add(L.add(L.scale(nb[0], c.e1), L.scale(nb[1], c.e2)), L.scale(nb[2], c.axis))
        loc = (F(rng.randint(-7, 7), 8) * c.r, F(rng.randint(-7, 7), 8) * c.r * rng.choice([0, 1]),
               F(rng.randint(-3, 3), 8) * c.h)
        if loc[0] ** 2 + loc[1] ** 2 >= (F(15, 16) * c.r) ** 2:
            continue
        s = L.add(c.center, L.add(L.add(L.scale(loc[0], c.e1), L.scale(loc[1], c.e2)), L.scale(loc[2], c.axis)))
        res = c.chord(s, n)
        if res['cls'] != 'from_inside' or not _well_conditioned(res, c.size):
            continue
        rays.append((s, n, res))
    return rays


def _ray_events(ctx, events, n_cyl, nrays, batches):
    units_small = L.unit_vectors(7)
    units_big = L.unit_vectors(33)
    for i in range(n_cyl):
        small = i % 2 == 0
        c = _random_cyl(ctx, small)
        rays = _random_rays(ctx, c, units_small if small else units_big, nrays, small)
        if not rays:
            continue
        u, unit = _pick_scale(ctx.rng, c, pow2=(i % 4 == 0))
        layout = LAYOUTS[i % len(LAYOUTS)] if i % 3 else '1d'
        if not _layout_ok(layout, rays):
            layout = '1d_reversed'
        if layout == '0d':
            rays = rays[:12]
        sizes = _pick_sizes(ctx.rng, c, u)
        _record_rays(ctx, events, c, rays, u, unit, layout, sizes, '', batches, 'random cases')


def _special_ray_events(ctx, events, n_cyl, nrays, batches):
    """Item 4: extreme aspect ratios with slightly tilted rays; tolerance derived in the module docstring."""
    n_ok = 0
    for i in range(n_cyl):
        c, u, mode, asp = _extreme_cyl(ctx)
        rays = []
        for s, n, res in _tilted_rays(ctx, c, mode, asp, nrays):
            rtol, _ = _ray_tol(c, s, n, res, u, True)
            if rtol <= 1e-2:
                rays.append((s, n, res))
        if not rays:
            continue
        n_ok += len(rays)
        unit = ctx.rng.choice(UNITS)
        layout = ctx.rng.choice(['1d', '1d', 'dir0d', 'start0d', '1d_reversed'])
        special = ('nearly parallel to the axis of a long cylinder' if mode == 'long'
                   else 'nearly perpendicular to the axis of a flat cylinder')
        _record_rays(ctx, events, c, rays, u, unit, layout, 'float64', special, batches, 'tilted rays, extreme aspect ratio')
    ctx.extra['tilted_ray_cases'] = n_ok


def _record_rays(ctx, events, c, rays, u, unit, layout, sizes, special, batches, what, of=None):
    """One batch of rays -> one event per ray.  of = list of first-pass event lines (second evaluation)."""
    obs = _run_rays(ctx, c, rays, u, unit, what, layout, sizes, special=bool(special))
    lines = []
    for j, ((s, n, res), r) in enumerate(zip(rays, obs, strict=True)):
        fits = not special and L.ray_fits32(c, s, n)
        first = events[of[j] - 1][0] if of else None
        ev = {'ev': 'ray', 'tid': len(events), 'small': bool(fits),
              'case': first['case'] if first else len(events),
              'c': L.cyl_ints(c) if fits else PLACEHOLDER,
              's': L.vec_ints(s) if fits else [0, 0, 0, 1], 'n': L.vec_ints(n) if fits else [0, 0, 1, 1],
              'grazing': bool(res['grazing']), 'cls': res['cls'], 'raised': r['raised'],
              'zero': r['zero'], 'len_ok': r['len_ok'], 'lay': layout, 'sizes': sizes,
              'pass': 2 if of else 1, 'of': of[j] if of else 0}
        events.append((ev, {'kind': 'ray', 'c': c, 's': s, 'n': n, 'res': res, 'r': r, 'u': u, 'unit': unit,
                            'layout': layout, 'sizes': sizes, 'special': special}))
        lines.append(len(events))
        ctx.case(nontrivial_id=('rr', len(events)) if res['length'] > 0 else None)
    if batches is not None:
        batches.append({'c': c, 'rays': rays, 'u': u, 'unit': unit, 'special': special, 'lines': lines, 'what': what})


# ------------------------------------------------------------------------------------------------ quadrature
def _quad_event(ctx, c, kind, u, unit, events, sizes='float64', reuse=False, of=None):
    first = events[of - 1][0] if of else None
    ev = {'ev': 'quad', 'tid': len(events), 'kind': kind, 'small': False, 'c': PLACEHOLDER, 'pts': [],
          'case': first['case'] if first else len(events), 'sizes': sizes, 'reuse': bool(reuse),
          'pass': 2 if of else 1, 'of': of or 0,
          'raised': False, 'n': 0, 'n_out': 0, 'n_nonpos': 0, 'sum_ok': True, 'cen_ok': True, 'n_mom_bad': 0,
          'n_axial_bad': 0}
    info = {'kind': 'quad', 'c': c, 'qkind': kind, 'u': u, 'unit': unit, 'sizes': sizes, 'reuse': reuse}
    try:
        import scipp as sc

        cyl = _sc_cylinder(c, u, unit, sizes)
        if reuse:
            # the object has been used before: another kind, a ray, the same kind; the LAST result is judged
            cyl.quadrature('cheap' if kind != 'cheap' else 'medium')
            cyl.beam_intersection(sc.vector(_fl(L.scale(u, c.center)), unit=unit), sc.vector(_fl(c.axis)))
            cyl.quadrature(kind)
        p, w = cyl.quadrature(kind)
        P = np.array(p.to(unit=unit, copy=False).values, dtype=float)
        W = np.array(w.to(unit=f'{unit}**3', copy=False).values, dtype=float)
        if P.ndim != 2 or P.shape[1] != 3 or W.shape != (P.shape[0],) or P.shape[0] == 0:
            raise ValueError(f'shapes {P.shape} {W.shape}')
    except Exception as e:  # noqa: BLE001
        ev['raised'] = True
        info['exc'] = repr(e)[:300]
        events.append((ev, info))
        return
    uf = float(u)
    Pl = P / uf                                   # lattice units
    Wl = W / uf ** 3
    cen = np.array(_fl(c.center))
    E = np.array([_fl(c.e1), _fl(c.e2), _fl(c.axis)])
    Lc = (Pl - cen) @ E.T                         # cylinder frame, centred
    r, h, size = float(c.r), float(c.h), float(c.size)
    rad = np.hypot(Lc[:, 0], Lc[:, 1])
    with np.errstate(all='ignore'):
        out = (rad > r + 1e-9 * size) | (np.abs(Lc[:, 2]) > h / 2 + 1e-9 * size) | ~np.isfinite(Lc).all(axis=1)
        tol = L.moment_tol(kind)
        V = float(mpmath.pi * L.mp(c.volume_over_pi))
        ev['n'] = int(len(W))
        ev['n_out'] = int(out.sum())
        ev['n_nonpos'] = int((~(W > 0)).sum())
        ev['sum_ok'] = bool(abs(Wl.sum() / V - 1) <= tol)
        ev['cen_ok'] = bool(np.abs((Wl[:, None] * Lc).sum(axis=0) / V).max() <= tol * size)
        bad = []
        # every returned coordinate is a double of magnitude up to pmax, i.e. defined only to eps*pmax/2, and the
        # implementation needs a handful of operations at that magnitude to place a point: a transverse
        # (axial) frame coordinate carries a relative error of up to 16 eps pmax / r (.. / (h/2)), a monomial
        # x^a y^b z^c the sum over its factors.  Negligible unless the cylinder is extremely long or flat.
        pmax = float(max(np.abs(Pl).max(), np.abs(cen).max())) if np.isfinite(Pl).all() else 0.0
        for (a, b, cc) in L.monomials(kind):
            got = float((Wl * Lc[:, 0] ** a * Lc[:, 1] ** b * Lc[:, 2] ** cc).sum())
            want = float(mpmath.pi * L.mp(L.moment_over_pi(c, a, b, cc)))
            err = abs(got - want) / (V * r ** (a + b) * (h / 2) ** cc)
            if not err <= tol + 16 * EPS * pmax * ((a + b) / r + cc / (h / 2)):
                bad.append(((a, b, cc), err))
        ev['n_mom_bad'] = len(bad)
        # even axial moments of the two Chebyshev-based kinds: within 3x the error of the documented line rule
        axial = []
        if kind != 'cheap':
            for (a, b, cc) in L.axial_monomials():
                got = float((Wl * Lc[:, 0] ** a * Lc[:, 1] ** b * Lc[:, 2] ** cc).sum())
                want = float(mpmath.pi * L.mp(L.moment_over_pi(c, a, b, cc)))
                err = abs(got - want) / want
                if not err <= L.axial_tol(kind, cc) + 16 * EPS * pmax * ((a + b) / r + cc / (h / 2)):
                    axial.append(((a, b, cc), err))
        ev['n_axial_bad'] = len(axial)
        info['bad_axial_moments'] = [(m, float(e)) for m, e in axial]
        info.update(worst_outside=float(np.nanmax(np.concatenate([rad - r, np.abs(Lc[:, 2]) - h / 2])) / size)
                    if np.isfinite(Lc).any() else None,
                    frac_outside=float(out.mean()), bad_moments=[(m, float(e)) for m, e in bad[:4]],
                    sum_rel=float(Wl.sum() / V - 1))
    # points handed to TLC: rounded to 1/64 lattice unit; all points for the small rules, a subsample
    # (every 16th + the worst offenders) for the big one
    if np.isfinite(Pl).all() and np.abs(Pl).max() < 1e6 and c.r.denominator == 1 and c.h.denominator == 1 \
            and max(abs(x.numerator) + x.denominator for x in (*c.axis, *c.base)) < 10 ** 6:
        idx = np.arange(len(W)) if len(W) <= 800 else np.unique(np.concatenate(
            [np.arange(0, len(W), 16), np.argsort(-(rad - r))[:20], np.argsort(-np.abs(Lc[:, 2]))[:20]]))
        pts = [[int(round(x * 64)) for x in Pl[i]] + [64] for i in idx]
        if L.quad_fits32(c, pts):
            ev['small'] = True
            ev['c'] = L.cyl_ints(c)
            ev['pts'] = pts
    if first is not None and first['small'] != ev['small']:
        # the judge compares the integers of both passes: keep them identical (the numeric flags decide)
        ev['small'], ev['c'], ev['pts'] = first['small'], first['c'], (ev['pts'] if first['small'] else [])
        if first['small'] and not ev['pts']:
            ev['n_out'] = max(ev['n_out'], 1)      # points that cannot even be rounded are outside
    events.append((ev, info))


# ------------------------------------------------------------------------------------------------ transmission
LEN_TO_M = {'mm': F(1, 1000), 'cm': F(1, 100), 'm': F(1)}
WL_TO_ANGSTROM = {'angstrom': 1.0, 'nm': 0.1, 'pm': 100.0, 'm': 1e-10}   # value in unit = value in angstrom * factor


def _tmap(c, u, unit, beam, dets, det_unit, det_scale, kind, material, lam, lam_unit='angstrom', order=None,
          det_layout='1d', sizes='float64', lam_type='float64'):
    """Transmission as an array [detector, wavelength] in the order of `dets` and `lam`, whatever the order,
    unit and layout in which they were handed over."""
    import scipp as sc
    from scippneutron.absorption import compute_transmission_map

    order = list(range(len(lam))) if order is None else list(order)
    wl = sc.array(dims=['wavelength'], values=np.array([lam[i] * WL_TO_ANGSTROM[lam_unit] for i in order]), unit=lam_unit)
    if lam_type != 'float64':                     # only chosen when every value is the same number in that type
        wl = wl.to(dtype=lam_type)
    cyl = _sc_cylinder(c, u, unit, sizes)
    D = np.array([_fl(L.scale(det_scale, d)) for d in dets])
    nd = len(dets)
    if det_layout == '1d':
        det = sc.vectors(dims=['det'], values=D, unit=det_unit)
        ddims = ['det']
    elif det_layout == '2d':
        det = sc.vectors(dims=['dy', 'dx'], values=D.reshape(2, nd // 2, 3), unit=det_unit)
        ddims = ['dy', 'dx']
    else:  # '2d_transposed': memory order (dx, dy), dims (dy, dx)
        buf = np.ascontiguousarray(D.reshape(2, nd // 2, 3).transpose(1, 0, 2))
        det = sc.vectors(dims=['dx', 'dy'], values=buf, unit=det_unit).transpose(['dy', 'dx'])
        ddims = ['dy', 'dx']
    tm = compute_transmission_map(
        cyl, material, beam_direction=sc.vector(_fl(beam)), wavelength=wl, detector_position=det,
        quadrature_kind=kind)
    if set(tm.dims) != set(ddims + ['wavelength']) or len(tm.dims) != len(ddims) + 1:
        raise ValueError(f'transmission has dims {tm.dims}')
    tm = tm.transpose([*ddims, 'wavelength'])
    if tm.unit != sc.units.dimensionless:
        raise ValueError(f'transmission has unit {tm.unit}')
    vals = np.array(tm.values, dtype=float).reshape(nd, len(lam))
    out = np.empty_like(vals)
    out[:, order] = vals
    return out


def _material(mu_per_lattice, u, unit, absorbing, density_factor=1.0, real_units=False):
    """A material with attenuation mu (1/lattice unit) at the first wavelength.  real_units: the same
    material with cross-sections in barn and the number density in 1/angstrom^3."""
    import scipp as sc
    from scippneutron.absorption import Material
    from scippneutron.atoms import ScatteringParams

    # sigma in unit^2, density in 1/unit^3  =>  mu = n * sigma in 1/unit
    mu = mu_per_lattice / float(u)
    sig_s = mu * (0.4 if absorbing else 1.0)
    sig_a = mu * 0.6 if absorbing else 0.0   # * lambda/1.7982 A
    if real_units:
        to_m = float(LEN_TO_M[unit])
        # sigma [unit^2] * n [1/unit^3]: put 1e-2/angstrom^3 into the density, the rest into the cross-section
        dens = 0.01 * density_factor                                     # 1/angstrom^3
        k = (1.0 / to_m) / (0.01 * 1e30)                                 # sigma in m^2 such that n sigma = 1/unit
        return Material(
            ScatteringParams('Fake', absorption_cross_section=sc.scalar(sig_a * k * 1e28, unit='barn'),
                             total_scattering_cross_section=sc.scalar(sig_s * k * 1e28, unit='barn')),
            sc.scalar(dens, unit='1/angstrom**3'))
    return Material(
        ScatteringParams('Fake', absorption_cross_section=sc.scalar(sig_a, unit=f'{unit}**2'),
                         total_scattering_cross_section=sc.scalar(sig_s, unit=f'{unit}**2')),
        sc.scalar(density_factor, unit=f'1/{unit}**3'))


def _in_range(c, u):
    return F(1, 1000) <= c.r * u <= 1000 and F(1, 1000) <= c.h * u <= 1000


def _trans_params(ctx, c, q, tau, mode, kinds, units_dirs):
    """Everything that defines one transmission case (drawn once; the second evaluation reuses it)."""
    rng = ctx.rng
    if mode == 'otherend':
        gc = c.other_end()
        Q, tv = L.IDENT, (F(0), F(0), F(0))
    else:
        Q, tv = L.qrot(q), tau
        gc = c.moved(Q, tv)
    u, unit = _pick_scale(rng, c)
    if unit in ('um', 'angstrom'):
        unit = 'mm'
    det_unit = rng.choice(['m', unit])
    # the moved copy in another length unit (same lengths): u2 [unit2] = u [unit]
    unit2, u2 = unit, u
    others = [x for x in LEN_TO_M if x != unit and _in_range(c, u * LEN_TO_M[unit] / LEN_TO_M[x])]
    if others and rng.random() < 0.7:
        unit2 = rng.choice(others)
        u2 = u * LEN_TO_M[unit] / LEN_TO_M[unit2]
    det_unit2 = rng.choice(['m', 'cm', unit2])
    beam = _unit_dir(rng, units_dirs)
    dets = []
    for _ in range(6):
        d = _unit_dir(rng, units_dirs)
        dets.append(L.add(c.center, L.scale(rng.choice([3, 10, 1000]) * c.size, d)))
    lam = sorted(rng.sample([0.1, 0.5, 1.0, 1.7982, 4.0, 9.0, 20.0], 3))
    order2 = list(range(3))
    rng.shuffle(order2)
    lam_unit2 = rng.choice(['angstrom', 'nm', 'pm', 'm'])
    lam_type2 = rng.choice(_lam_types(lam, lam_unit2))
    return {'lam_type2': lam_type2, 'c': c, 'gc': gc, 'q': q, 'tau': tau, 'mode': mode, 'kinds': kinds, 'Q': Q, 'tv': tv,
            'u': u, 'unit': unit, 'det_unit': det_unit, 'u2': u2, 'unit2': unit2, 'det_unit2': det_unit2,
            'beam': beam, 'dets': dets, 'gbeam': L.matvec(Q, beam), 'gdets': [L.add(L.matvec(Q, d), tv) for d in dets],
            'mus': rng.choice([0.05, 0.2, 0.5, 1.0, 3.0]) / float(c.size), 'absorbing': rng.random() < 0.6,
            'real_units': rng.random() < 0.3, 'lam': lam, 'order2': order2,
            'lam_unit2': lam_unit2,
            'det_layout2': rng.choice(['1d', '2d', '2d_transposed']),
            'sizes2': rng.choice(_size_types(gc, u2))}


def _lam_types(lam, lam_unit):
    """Number types that hold the wavelengths (in lam_unit) as the very same numbers."""
    vals = [x * WL_TO_ANGSTROM[lam_unit] for x in lam]
    out = ['float64']
    if all(float(np.float32(v)) == v for v in vals):
        out.append('float32')
    if all(float(v).is_integer() for v in vals):
        out += ['int64', 'int32']
    return out


def _det_scale(u, unit, det_unit):
    """Length of one lattice unit in det_unit, given that it is u in `unit`."""
    return u * LEN_TO_M[unit] / LEN_TO_M[det_unit]


def _trans_event(ctx, events, P, of=None):
    c, gc, mode, kinds = P['c'], P['gc'], P['mode'], P['kinds']
    q, tau = P['q'], P['tau']
    u, unit, u2, unit2 = P['u'], P['unit'], P['u2'], P['unit2']
    first = events[of - 1][0] if of else None
    fits = c.r.denominator == 1 and L.move_fits32(c, q, tau) and L.move_fits32(gc, (1, 0, 0, 0), (F(0),) * 3)
    ev = {'ev': 'trans', 'tid': len(events), 'mode': mode, 'small': bool(fits),
          'case': first['case'] if first else len(events), 'pass': 2 if of else 1, 'of': of or 0,
          'reunit': unit2 != unit,
          'c': L.cyl_ints(c) if fits else PLACEHOLDER, 'gc': L.cyl_ints(gc) if fits else PLACEHOLDER,
          'q': list(q), 'tau': L.vec_ints(tau), 'raised': False, 'range_ok': True, 'one_ok': True,
          'mono_ok': True, 'inv_ok': True}
    info = {'kind': 'trans', 'c': c, 'gc': gc, 'mode': mode, 'u': u, 'unit': unit, 'mu_size': P['mus'] * float(c.size),
            'beam': _fl(P['beam']), 'wavelengths': P['lam'], 'absorbing': P['absorbing'], 'det_unit': P['det_unit'],
            'moved_copy_presented_as': {'unit': unit2, 'scale': str(u2), 'detector_unit': P['det_unit2'],
                                        'wavelength_unit': P['lam_unit2'], 'wavelength_type': P['lam_type2'], 'wavelength_order': P['order2'],
                                        'detector_layout': P['det_layout2'], 'sizes': P['sizes2']},
            'material_units': 'barn, 1/angstrom^3' if P['real_units'] else f'{unit}^2, 1/{unit}^3', 'P': P}
    lam = P['lam']

    def orig(kind, mat):
        return _tmap(c, u, unit, P['beam'], P['dets'], P['det_unit'], _det_scale(u, unit, P['det_unit']), kind, mat, lam)

    def moved(kind, mat):
        return _tmap(gc, u2, unit2, P['gbeam'], P['gdets'], P['det_unit2'], _det_scale(u2, unit2, P['det_unit2']), kind,
                     mat, lam, P['lam_unit2'], P['order2'], P['det_layout2'], P['sizes2'], P['lam_type2'])

    try:
        mat = _material(P['mus'], u, unit, P['absorbing'], real_units=P['real_units'])
        T = {k: orig(k, mat) for k in KINDS}
        G = {k: moved(k, mat) for k in KINDS}
        mat2 = _material(P['mus'], u, unit, P['absorbing'], density_factor=1.75, real_units=P['real_units'])
        mat0 = _material(0.0, u, unit, False, real_units=P['real_units'])
        k0 = kinds[0]
        T2 = orig(k0, mat2)
        T0 = {k: moved(k, mat0) for k in kinds}
    except Exception as e:  # noqa: BLE001
        ev['raised'] = True
        info['exc'] = repr(e)[:300]
        events.append((ev, info))
        return
    details = {}
    with np.errstate(all='ignore'):
        for k in KINDS:
            tol = L.moment_tol(k)
            for name, arr in (('c', T[k]), ('gc', G[k])):
                if not (np.isfinite(arr).all() and (arr > 0).all() and (arr <= 1 + tol).all()):
                    ev['range_ok'] = False
                    details['range'] = (k, name, float(np.nanmin(arr)) if np.isfinite(arr).any() else None,
                                        float(np.nanmax(arr)) if np.isfinite(arr).any() else None)
        for k in kinds:
            if not (np.abs(T0[k] - 1) <= L.moment_tol(k)).all():
                ev['one_ok'] = False
                details['one'] = (k, float(np.abs(T0[k] - 1).max()))
        # denser material => strictly smaller transmission; absorbing material => decreasing in wavelength
        if not (T2 < T[k0]).all():
            ev['mono_ok'] = False
            details['mono_density'] = (k0, float((T2 - T[k0]).max()))
        if P['absorbing']:
            for k in kinds:
                for name, arr in (('c', T[k]), ('gc', G[k])):
                    if not (np.diff(arr, axis=1) < 0).all():
                        ev['mono_ok'] = False
                        details['mono_wavelength'] = (k, name, float(np.diff(arr, axis=1).max()))
        else:
            for k in kinds:
                for name, arr in (('c', T[k]), ('gc', G[k])):
                    if not (np.abs(np.diff(arr, axis=1)) <= 1e-12).all():
                        ev['mono_ok'] = False
                        details['const_wavelength'] = (k, name, float(np.abs(np.diff(arr, axis=1)).max()))
        # invariance, bound derived in the module docstring
        d = {}
        for k in ('cheap', 'medium'):
            d[k] = (np.abs(T[k] - T['expensive']).max(), np.abs(G[k] - G['expensive']).max())
        d['expensive'] = d['medium']
        for k in kinds:
            bound = 2 * (d[k][0] + d[k][1] + d['medium'][0] + d['medium'][1]) + 1e-6
            diff = float(np.abs(T[k] - G[k]).max())
            if not diff <= bound:
                ev['inv_ok'] = False
                details.setdefault('inv', []).append((k, diff, float(bound)))
    info['details'] = details
    info['T_first'] = T[kinds[0]][0].tolist()
    info['G_first'] = G[kinds[0]][0].tolist()
    events.append((ev, info))


# ------------------------------------------------------------------------------------------------ main
def _distinct_cyls(cyl_cases):
    seen, out = set(), []
    for rec in cyl_cases:
        for key in ('c', 'gc', 'oe'):
            k = json.dumps(rec[key], sort_keys=True)
            if k not in seen:
                seen.add(k)
                out.append(L.cyl_from_ints(rec[key]))
    return out


def _check_oracle_against_tlc(cyl_cases, mom_cases):
    for rec in cyl_cases:
        c = L.cyl_from_ints(rec['c'])
        gc = c.moved(L.qrot(tuple(rec['q'])), L.vec_from_ints(rec['tau']))
        want = L.cyl_from_ints(rec['gc'])
        oe, want_oe = c.other_end(), L.cyl_from_ints(rec['oe'])
        for got, w, what in ((gc, want, 'MoveCyl'), (oe, want_oe, 'OtherEndCyl')):
            if (got.R, got.base, got.r, got.h) != (w.R, w.base, w.r, w.h):
                raise MachineryError(f'oracle/TLC {what} mismatch for {rec}')
    for rec in mom_cases:
        if L.disk_moment_over_pi(rec['a'], rec['b']) != F(*rec['disk']) or L.line_moment(rec['c']) != F(*rec['line']):
            raise MachineryError(f'oracle/TLC moment mismatch {rec}')


class _Bg(threading.Thread):
    """A chain of TLC runs next to the Python work of the driver (tlc.run gives every run its own metadir).
    The runs are not counted by tlc.run (count=False); the main thread adds them up after join()."""

    def __init__(self, ctx, jobs):
        super().__init__(daemon=True)
        self.ctx, self.jobs, self.results, self.error = ctx, jobs, [], None

    def run(self):
        try:
            for kw in self.jobs:
                kw = dict(kw)
                module, cfg = kw.pop('module'), kw.pop('cfg')
                self.results.append((kw.get('expect_error', False), self.ctx.tlc(module, cfg, count=False, **kw)))
        except BaseException as e:  # noqa: BLE001  re-raised by finish()
            self.error = e

    def finish(self, what):
        self.join()
        if self.error is not None:
            raise self.error
        for (neg, res), w in zip(self.results, what, strict=True):
            if neg:
                continue
            require_ok(self.ctx, res, w)
            self.ctx.states += res.generated
            self.ctx.distinct_states += res.distinct
            self.ctx.transitions += max(res.generated - 1, 0)


def run(ctx):
    ctx.rule = RULE
    ctx.assume('all lengths of one configuration share one length unit (m, cm, mm, um or angstrom); the '
               'detector positions of the transmission map may use another one, and the moved copy of a '
               'transmission set-up is expressed in another unit than the original')
    ctx.assume('grazing rays (inside a cap plane, along the lateral surface) and near-tangent rays '
               '(|1 - d^2/r^2| < 1/64) are not generated: the path length is discontinuous / ill-conditioned there')
    ctx.assume("'integrate exactly' / 'sum to volume' / '<= 1' / '= 1' mean to the precision of the bundled tables: "
               "1e-12 for 'cheap', 1e-6 for 'medium' and 'expensive' (DESIGN §3.4)")
    ctx.assume("the Monte-Carlo kinds ('mc') are not deterministic and outside the property")
    ctx.assume('radius and height given as float32 or int64 are used only where the number is exactly the one '
               'otherwise given as float64; start points, directions and the axis are float64 vectors')
    ctx.extra['tolerances'] = {'beam_intersection': '1e-12*L + 1e-12*size (tangent, inexact arithmetic: 1e-6*size; rays '
                                                    'tilted by theta off the axis / phi off the cap planes in cylinders of '
                                                    'extreme aspect ratio: (1e-12 + 64 eps (1+|b|/min(r,h)) (1/theta+1/phi))*L)',
                               'points_inside': '1e-9*size', 'moments': {'cheap': 1e-12, 'medium': 1e-6, 'expensive': 1e-6,
                                                                      'z^2, z^4 (medium, expensive)': '3 x relative error of the documented line rule at its smallest node count',
                                                                      'plus': '16 eps max|coordinate| ((a+b)/r + c/(h/2))'},
                               'transmission_invariance': '2*(d_k(c)+d_k(gc)+d_m(c)+d_m(gc)) + 1e-6'}
    tier = 'thorough' if ctx.thorough else 'quick'
    sfx = '_thorough' if ctx.thorough else ''

    t_ = [time.time()]

    def mark(name):
        ctx.extra.setdefault('timing_s', {})[name] = round(time.time() - t_[0], 1)
        t_[0] = time.time()

    # ---- 1. design: exhaustive model + negative controls, running next to the replay below
    w2 = max(WORKERS // 2, 1)
    mod = 'absorption/MC_Cylinder.tla'
    bg = [_Bg(ctx, [{'module': mod, 'cfg': f'MC_Cylinder_motion{sfx}.cfg', 'timeout': 1500, 'workers': w2},
                    {'module': mod, 'cfg': 'Neg_Cylinder_otherend.cfg', 'expect_error': True, 'timeout': 300, 'workers': w2}]),
          _Bg(ctx, [{'module': mod, 'cfg': f'MC_Cylinder_rays{sfx}.cfg', 'timeout': 1500, 'workers': w2},
                    {'module': mod, 'cfg': 'Neg_Cylinder_noclip.cfg', 'expect_error': True, 'timeout': 300, 'workers': w2}])]
    for b in bg:
        b.start()

    # ---- 2. spec -> code: cases enumerated by TLC (single-threaded constant evaluation, also in the background)
    files = {k: ctx.tmp / f'c18-{k}.ndjson' for k in ('rays', 'cyls', 'mom')}
    cases_bg = _Bg(ctx, [{'module': 'absorption/Cases_Cylinder.tla', 'cfg': None, 'workers': 1, 'timeout': 1500,
                          'env': {'TIER': tier, 'RAYS_FILE': files['rays'], 'CYLS_FILE': files['cyls'],
                                  'MOM_FILE': files['mom']}}])
    cases_bg.start()

    # ---- 3. code -> spec: recorded executions (first the part that does not need the model cases)
    events, batches = [], []
    _ray_events(ctx, events, n_cyl=400 if ctx.thorough else 150, nrays=40, batches=batches)
    _special_ray_events(ctx, events, n_cyl=300 if ctx.thorough else 100, nrays=12, batches=batches)
    mark('random_rays')
    for i in range(500 if ctx.thorough else 120):
        scale = None
        if i % 4 == 1:
            c = _near_pole_cyl(ctx)
        elif i % 4 == 3:
            c, scale, _, _ = _extreme_cyl(ctx)
        else:
            c = _random_cyl(ctx, small=(i % 3 == 0))
        for kind in KINDS:
            if kind == 'expensive' and i % 4:
                continue
            u, unit = _pick_scale(ctx.rng, c)
            if scale is not None:
                u = scale
            _quad_event(ctx, c, kind, u, unit, events, sizes=_pick_sizes(ctx.rng, c, u), reuse=(i % 3 == 2))
    units_dirs = L.unit_vectors(9)
    for i in range(120 if ctx.thorough else 30):
        c = _random_cyl(ctx, small=False)
        if c.r > 20 * c.h or c.h > 20 * c.r:
            c = L.Cyl(c.R, c.base, min(c.r, 9), min(c.h, 9))
        q = L.random_quaternion(ctx.rng, 3)
        tau = tuple(F(ctx.rng.randint(-30, 30), ctx.rng.choice([1, 2, 5])) for _ in range(3))
        kinds = (KINDS[i % 3],) if not ctx.thorough else KINDS
        _trans_event(ctx, events, _trans_params(ctx, c, q, tau, 'otherend' if i % 4 == 0 else 'move', kinds, units_dirs))
    mark('random_quadrature_transmission')

    cases_bg.finish(['Cases_Cylinder'])
    cyl_cases = [json.loads(x) for x in open(files['cyls'])]
    mom_cases = [json.loads(x) for x in open(files['mom'])]
    mark('tlc_cases_wait')
    _check_oracle_against_tlc(cyl_cases, mom_cases)
    keep = []
    n_replayed = _replay_tlc_rays(ctx, files['rays'], keep)
    ctx.traces(n_replayed)
    mark('replay_rays')

    model_cyls = _distinct_cyls(cyl_cases)
    ctx.rng.shuffle(model_cyls)
    n_model = len(model_cyls) if ctx.thorough else 90
    for i, c in enumerate(model_cyls[:n_model]):
        for kind in KINDS:
            if kind == 'expensive' and i % (2 if ctx.thorough else 5):
                continue
            u, unit = _pick_scale(ctx.rng, c, pow2=(i % 3 == 0))
            _quad_event(ctx, c, kind, u, unit, events, sizes=_pick_sizes(ctx.rng, c, u), reuse=(i % 3 == 1))
    pairs = list(cyl_cases)
    ctx.rng.shuffle(pairs)
    n_pairs = 160 if ctx.thorough else 36
    for i, rec in enumerate(pairs[:n_pairs]):
        c = L.cyl_from_ints(rec['c'])
        kinds = (KINDS[i % 3],) if not ctx.thorough else KINDS
        mode = 'otherend' if i % 3 == 0 else 'move'
        _trans_event(ctx, events, _trans_params(ctx, c, tuple(rec['q']), L.vec_from_ints(rec['tau']), mode, kinds, units_dirs))
    mark('model_quadrature_transmission')

    # ---- 3b. second evaluation (item 6): a sample of all cases again, last ones first, other layouts
    n_first = len(events)
    _replay_again(ctx, keep)
    sample = list(batches)
    ctx.rng.shuffle(sample)
    for b in sample[: (80 if ctx.thorough else 24)]:
        layout = ctx.rng.choice(['1d_reversed', 'dir0d', 'start0d', '2d'] if not b['special'] else ['1d_reversed', 'dir0d'])
        if not _layout_ok(layout, b['rays']):
            layout = '1d_reversed'
        _record_rays(ctx, events, b['c'], b['rays'], b['u'], b['unit'], layout, 'float64', b['special'], None,
                     b['what'] + ', second evaluation', of=b['lines'])
    firsts = [(i + 1, e, info) for i, (e, info) in enumerate(events[:n_first])]
    quads = [x for x in firsts if x[1]['ev'] == 'quad']
    for line, e, info in reversed(ctx.rng.sample(quads, min(len(quads), 90 if ctx.thorough else 30))):
        _quad_event(ctx, info['c'], info['qkind'], info['u'], info['unit'], events, sizes=e['sizes'], of=line)
    trans = [x for x in firsts if x[1]['ev'] == 'trans']
    for line, e, info in reversed(ctx.rng.sample(trans, min(len(trans), 24 if ctx.thorough else 6))):
        _trans_event(ctx, events, info['P'], of=line)
    mark('second_evaluation')

    for ev, info in events:
        if ev['ev'] == 'quad' and not ev['raised']:
            ctx.case(nontrivial_id=('q', ev['tid']))
        elif ev['ev'] == 'trans':
            ctx.case(nontrivial_id=('t', ev['tid']) if not ev['raised'] and info['mu_size'] >= 0.05 else None)
    for kind in ('ray', 'quad', 'trans'):
        first = next((e for e, _ in events if e['ev'] == kind), None)
        if first:
            ctx.sample({k: (v if k != 'pts' else v[:3]) for k, v in first.items()})
    ctx.extra['events'] = {k: sum(1 for e, _ in events if e['ev'] == k) for k in ('ray', 'quad', 'trans')}
    ctx.extra['events_second_evaluation'] = len(events) - n_first
    ctx.extra['events_recomputed_by_tlc'] = sum(1 for e, _ in events if e['small'])
    ctx.extra['event_layouts'] = {lay: sum(1 for e, _ in events if e.get('lay') == lay) for lay in LAYOUTS}
    ctx.extra['event_size_types'] = {t: sum(1 for e, _ in events if e.get('sizes') == t) for t in ('float64', 'float32', 'int64')}
    ctx.extra['transmission_moved_copy_in_other_unit'] = sum(1 for e, _ in events if e.get('reunit'))

    tf = ctx.tmp / 'c18.ndjson'
    write_ndjson(tf, [e for e, _ in events])
    tr = ctx.tlc('absorption/Trace_Cylinder.tla', workers=1, env={'TRACE_FILE': str(tf)}, timeout=1500)
    require_ok(ctx, tr, 'Trace_Cylinder')
    mark('tlc_trace')
    done = tr.tagged('DONE')
    if not done or done[0][1] != len(events):
        raise MachineryError(f'trace validation incomplete: {done} vs {len(events)} events')
    ctx.traces(len(events))
    rejected = {line: clause for _, line, _tid, clause in tr.tagged('REJECT')}
    _report_rejects(ctx, events, rejected)
    _trace_control(ctx, cyl_cases, files['rays'])
    mark('trace_control')
    bg[0].finish(['Cylinder model (rigid motions)', 'negative control'])
    bg[1].finish(['Cylinder model (rays)', 'negative control'])
    mark('tlc_model_wait')


def _report_rejects(ctx, events, rejected):
    """Every event TLC rejected becomes a violation (before any self-test of the judge runs)."""
    for line in sorted(rejected):
        clause = rejected[line]
        ev, info = events[line - 1]
        if clause.startswith('oracle_') or clause == 'unknown_event':
            raise MachineryError(f'oracle and TLA+ specification disagree: {clause} on {ev}')
        # a second evaluation gets its own key only if the first evaluation of the same case was accepted
        second = ev['pass'] == 2 and ev['of'] not in rejected
        sfx = SECOND if second else ''
        c = info['c']
        if ev['ev'] == 'ray':
            text = {'positive_length_for_ray_that_misses': 'positive length for a ray that misses the solid',
                    'zero_length_for_ray_that_hits': 'zero length for a ray that passes through the solid',
                    'length_differs_from_chord': 'length differs from the exact chord'}.get(clause)
            if clause == 'beam_intersection_raised':
                continue  # reported when it happened
            _ray_violation(ctx, text or clause, c, info['s'], info['n'], info['res'], info['r'], info['u'], info['unit'],
                           layout=info['layout'], sizes=info['sizes'], special=info['special'], second=second)
        elif ev['ev'] == 'quad':
            if clause == 'points_outside_solid_coarse' and ev['n_out'] == 0:
                raise MachineryError(f'TLC finds points outside the solid that the harness accepts: {ev["tid"]}')
            key = {'quadrature_raised': f'quadrature raised ({info.get("exc", "")[:40].split("(")[0]})',
                   'points_outside_solid_coarse': 'quadrature: points outside the solid',
                   'points_outside_solid': 'quadrature: points outside the solid',
                   'weights_not_positive': f"quadrature('{ev['kind']}'): weights not positive",
                   'weights_do_not_sum_to_volume': f"quadrature('{ev['kind']}'): weights do not sum to the volume",
                   'centroid_is_not_centre': 'quadrature: centroid is not the centre of the solid',
                   'polynomial_moments_wrong': 'quadrature: low-degree polynomial moments differ from those of the solid',
                   'axial_moments_wrong': f"quadrature('{ev['kind']}'): z^2 / z^4 moments off by more than three times the "
                                          'error of the documented line rule',
                   }[clause]
            ctx.violation(f'{key} [{_zc(c)}]{sfx}',
                          {'kind': ev['kind'], 'cyl': _cyl_float(c), 'unit': info['unit'], 'scale': str(info['u']),
                           'sizes': ev['sizes'], 'cylinder_object_used_before': ev['reuse'],
                           'n_points': ev['n'], 'n_outside': ev['n_out'], 'frac_outside': info.get('frac_outside'),
                           'worst_outside_rel_size': info.get('worst_outside'), 'bad_moments': info.get('bad_moments'),
                           'bad_axial_moments_rel': info.get('bad_axial_moments'),
                           'sum_rel': info.get('sum_rel'), 'clause': clause, 'exc': info.get('exc')})
        else:
            z = 'axis z<0' if (c.axis[2] < 0 or info['gc'].axis[2] < 0) else 'axis z>=0'
            what = 'described from its other end' if ev['mode'] == 'otherend' else 'moved rigidly'
            key = {'transmission_raised': 'compute_transmission_map raised',
                   'transmission_outside_0_1': 'transmission outside (0, 1]',
                   'transmission_not_1_without_attenuation': 'transmission differs from 1 without attenuation',
                   'transmission_not_decreasing_with_attenuation': 'transmission does not decrease when attenuation grows',
                   'transmission_changes_under_rigid_motion': f'transmission changes when the setup is {what}',
                   }[clause]
            ctx.violation(f'{key} [{z}]{sfx}',
                          {'cyl': _cyl_float(c),
                           'moved': {'axis': _fl(info['gc'].axis), 'base': _fl(info['gc'].base)},
                           'mode': ev['mode'], 'q': ev['q'], 'unit': info['unit'], 'scale': str(info['u']),
                           'moved_copy_presented_as': info['moved_copy_presented_as'],
                           'material_units': info['material_units'],
                           'mu_size': info['mu_size'], 'details': info.get('details'), 'exc': info.get('exc'),
                           'T': info.get('T_first'), 'T_moved': info.get('G_first'), 'clause': clause})


def _trace_control(ctx, cyl_cases, rays_path):
    """Vacuity guard of the trace specification.  Synthetic events are built from the model cases and the
    oracle alone (nothing the implementation returned enters): TLC must accept each of them, and must reject
    every copy corrupted in one field with the expected clause (a removed event is caught by the DONE count)."""
    base = {'lay': '1d', 'sizes': 'float64', 'pass': 1, 'of': 0}
    good, hit, miss = [], None, None
    with open(rays_path) as f:
        for line in f:
            rec = json.loads(line)
            if rec['grazing'] or not rec['exact']:
                continue
            c = L.cyl_from_ints(rec['c'])
            s, n = L.vec_from_ints(rec['s']), L.vec_from_ints(rec['n'])
            if not L.ray_fits32(c, s, n):
                continue
            ev = dict(base, ev='ray', small=True, c=rec['c'], s=rec['s'], n=rec['n'], grazing=False, cls=rec['cls'],
                      raised=False, len_ok=True)
            if hit is None and rec['cls'] == 'from_inside':
                hit = dict(ev, zero=False)
            if miss is None and rec['cls'] == 'miss_line':
                miss = dict(ev, zero=True)
            if hit and miss:
                break
    rec = next(r for r in cyl_cases if L.quad_fits32(L.cyl_from_ints(r['c']), [[0, 0, 0, 64]]))
    c = L.cyl_from_ints(rec['c'])
    centre = [int(round(float(x) * 64)) for x in c.center] + [64]
    quad = dict(base, ev='quad', kind='cheap', small=True, c=rec['c'], pts=[centre, centre], reuse=False, raised=False,
                n=2, n_out=0, n_nonpos=0, sum_ok=True, cen_ok=True, n_mom_bad=0, n_axial_bad=0)
    trans = dict(ev='trans', mode='move', small=True, reunit=True, c=rec['c'], gc=rec['gc'], q=rec['q'], tau=rec['tau'],
                 raised=False, range_ok=True, one_ok=True, mono_ok=True, inv_ok=True)
    trans['pass'], trans['of'] = 1, 0
    if hit is None or miss is None:
        raise MachineryError('trace control: the model cases contain no usable ray')
    good = [hit, miss, quad, trans]
    for i, g in enumerate(good):
        g['case'] = i
    cases = [(g, 'ok') for g in good]
    for i, g in enumerate(good):                       # second evaluations referring to lines 1..4
        cases.append((dict(g, **{'pass': 2, 'of': i + 1}), 'ok'))
    cases += [(dict(hit, zero=True), 'zero_length_for_ray_that_hits'),
              (dict(hit, len_ok=False), 'length_differs_from_chord'),
              (dict(hit, cls='miss_line'), 'oracle_class_mismatch'),
              (dict(hit, raised=True), 'beam_intersection_raised'),
              (dict(hit, lay='3d'), 'oracle_unknown_layout'),
              (dict(hit, sizes='float16'), 'oracle_unknown_size_type'),
              (dict(hit, **{'pass': 2, 'of': 2}), 'oracle_replay_is_not_the_same_case'),
              (dict(hit, **{'pass': 2, 'of': 0}), 'oracle_replay_is_not_the_same_case'),
              (dict(hit, **{'pass': 1, 'of': 1}), 'oracle_replay_is_not_the_same_case'),
              (dict(hit, **{'pass': 2, 'of': 1, 'lay': '2d', 'zero': True}), 'zero_length_for_ray_that_hits'),
              (dict(miss, zero=False), 'positive_length_for_ray_that_misses')]
    far = copy.deepcopy(quad)
    far['pts'][0] = [centre[0] + 64 * 4 * (rec['c']['r'] + rec['c']['h']), centre[1], centre[2], 64]
    cases += [(far, 'points_outside_solid_coarse'), (dict(quad, n_out=1), 'points_outside_solid'),
              (dict(quad, n_nonpos=1), 'weights_not_positive'), (dict(quad, sum_ok=False), 'weights_do_not_sum_to_volume'),
              (dict(quad, cen_ok=False), 'centroid_is_not_centre'),
              (dict(quad, n_mom_bad=2), 'polynomial_moments_wrong'), (dict(quad, raised=True), 'quadrature_raised'),
              (dict(quad, kind='medium', n_axial_bad=1), 'axial_moments_wrong'),
              (dict(quad, **{'pass': 2, 'of': 3, 'kind': 'medium'}), 'oracle_replay_is_not_the_same_case')]
    wrong = copy.deepcopy(trans)
    wrong['gc']['h'] += 1
    cases += [(dict(trans, inv_ok=False), 'transmission_changes_under_rigid_motion'),
              (dict(trans, range_ok=False), 'transmission_outside_0_1'),
              (dict(trans, one_ok=False), 'transmission_not_1_without_attenuation'),
              (dict(trans, mono_ok=False), 'transmission_not_decreasing_with_attenuation'),
              (dict(trans, raised=True), 'transmission_raised'),
              (wrong, 'oracle_moved_cylinder_mismatch'),
              (dict(trans, **{'pass': 2, 'of': 4, 'mode': 'otherend'}), 'oracle_replay_is_not_the_same_case')]
    out = []
    for i, (b, _) in enumerate(cases):
        b = dict(b)
        b['tid'] = i
        out.append(b)
    tf = ctx.tmp / 'c18-control.ndjson'
    write_ndjson(tf, out)
    tr = ctx.tlc('absorption/Trace_Cylinder.tla', workers=1, env={'TRACE_FILE': str(tf)}, timeout=600, count=False)
    require_ok(ctx, tr, 'Trace_Cylinder (control)')
    got = {line: clause for _, line, _tid, clause in tr.tagged('REJECT')}
    for i, (_, want) in enumerate(cases):
        if got.get(i + 1, 'ok') != want:
            raise MachineryError(f'trace control: event {i + 1} expected {want}, TLC said {got.get(i + 1, "ok")}')
    ctx.extra['trace_control'] = (f'{len(cases)} synthetic events (independent of the implementation): '
                                  f'{sum(1 for _, w in cases if w == "ok")} accepted, the corrupted ones rejected with the expected clause')


META = {
    'design_ref': 'DESIGN.md §5 C18',
    'technique': 'TLA+ state machine of the solid cylinder (exact rational geometry, rigid motions, OtherEnd, rays) '
                 'model-checked by TLC; TLC-enumerated ray/cylinder cases replayed into the code; recorded '
                 'executions judged event-by-event by TLC with the same operators; numeric closeness computed from '
                 'the specification\'s exact rationals with mpmath',
    'text': 'TLC proves within the bounds that membership in the solid is invariant under every rigid motion and under '
            'describing the cylinder from its other end, and that the closed-form path length equals the measure of the '
            'part of the ray inside the solid (cross-checked against pointwise membership; all ray classes occur). '
            'Every ray of that model is replayed into Cylinder.beam_intersection and compared with the exact chord '
            '(1e-12); seeded random cylinders over the whole sphere of axis directions, all length units and all '
            'deterministic quadrature kinds are recorded and judged by TLC: ray class and zero/positive length '
            'recomputed from the integers of the case, quadrature points inside the solid (coarsely by TLC, to 1e-9 '
            'numerically), positive weights, volume, centroid and the low-degree moments fixed in the design, '
            'transmission in (0,1], 1 without attenuation, monotone, and invariant under rigid motions / other end '
            'within a bound derived from the differences between the quadrature kinds. The same cases are presented '
            'in every operand layout (0-d, lists, broadcast grids, transposed arrays), with radius / height as float64, '
            'float32 or int64, with aspect ratios up to 1e6 and slightly tilted rays, with axes 1e-9 rad from +/-z, the '
            'moved copy of a transmission set-up in another unit, and a sample of all cases is evaluated a second time '
            'at the end of the run.',
    'note': 'Trusted: TLC, scipp, mpmath, numpy for evaluating moments of returned points. Decided numerically only '
            '(finite points, not by TLC): closeness of chord lengths with irrational roots, quadrature moments, '
            'the transmission relations; the transmission integral itself is not computed by the specification, only '
            'its metamorphic relations. Grazing and near-tangent rays are excluded (ill-conditioned).',
}
