----------------------- MODULE Growth_QuadratureDefs -----------------------
(* Growth module (beyond property C18): what the bundled quadrature tables of               *)
(* scippneutron.absorption are supposed to BE, written from the mathematics of cubature      *)
(* rules and from the sources the tables cite - not from the code.                           *)
(*                                                                                          *)
(*  1. planar point groups as integer matrices (square lattice: C1 C2 D1 D2 C4 D4; Eisenstein*)
(*     lattice, basis 1 and w = exp(i pi/3): C3h C6h), orbits, invariance of a weighted rule *)
(*  2. weighted disk rules built from complete orbits, their (scaled integer) moments        *)
(*  3. symmetric line rules, exact symbolic Gauss-Legendre / sin-weighted Chebyshev rules    *)
(*     for k <= 3 (nodes have rational squares) and their degree of exactness                *)
(*  4. the product rule disk x line: Cartesian point set, product weights                    *)
(*  5. exact moments of the unit disk (rational factor of pi, by recurrence)                 *)
(*  6. the number of line nodes a quadrature kind uses for a given aspect ratio              *)
(*                                                                                          *)
(* State free: the state machine (Growth_QuadratureTables) and the judge of recorded         *)
(* executions (Growth_Trace_Absorption) both EXTEND this module.                             *)
EXTENDS Integers, Sequences, FiniteSets, SequencesExt

Abs(x) == IF x < 0 THEN -x ELSE x
RECURSIVE Pow(_, _)
Pow(x, n) == IF n = 0 THEN 1 ELSE x * Pow(x, n - 1)
RECURSIVE Gcd(_, _)
Gcd(a, b) == IF b = 0 THEN Abs(a) ELSE Gcd(b, a % b)

(* rationals <<num, den>>, den > 0, always reduced *)
RNorm(x) == LET g == Gcd(x[1], x[2]) IN IF g = 0 THEN x ELSE <<x[1] \div g, x[2] \div g>>
RMul(x, y) == RNorm(<<x[1] * y[1], x[2] * y[2]>>)
RAdd(x, y) == RNorm(<<x[1] * y[2] + y[1] * x[2], x[2] * y[2]>>)
RInt(n) == <<n, 1>>
RECURSIVE RPow(_, _)
RPow(x, n) == IF n = 0 THEN <<1, 1>> ELSE RMul(x, RPow(x, n - 1))

RECURSIVE SumRange(_, _, _)
SumRange(s, lo, hi) ==          \* divide and conquer: recursion depth log(n) (tables have hundreds of entries)
    IF lo > hi THEN 0 ELSE IF lo = hi THEN s[lo]
    ELSE LET mid == (lo + hi) \div 2 IN SumRange(s, lo, mid) + SumRange(s, mid + 1, hi)
SumSeq(s) == SumRange(s, 1, Len(s))
RECURSIVE RSumSeq(_)
RSumSeq(s) == IF s = <<>> THEN <<0, 1>> ELSE RAdd(Head(s), RSumSeq(Tail(s)))

-----------------------------------------------------------------------------
(* 1. Point groups.  A matrix <<a, b, c, d>> maps the coordinate pair p to                  *)
(*    <<a p1 + b p2, c p1 + d p2>>.  For the groups ending in "h" the coordinates refer to   *)
(*    the Eisenstein basis (1, w), where multiplication by w (rotation by 60 degrees) is the  *)
(*    integer matrix <<0, -1, 1, 1>>: six-fold symmetry in exact integer arithmetic.         *)
Id == <<1, 0, 0, 1>>
MMul(A, B) == <<A[1]*B[1] + A[2]*B[3], A[1]*B[2] + A[2]*B[4], A[3]*B[1] + A[4]*B[3], A[3]*B[2] + A[4]*B[4]>>
Apply(A, p) == <<A[1]*p[1] + A[2]*p[2], A[3]*p[1] + A[4]*p[2]>>
Det(A) == A[1]*A[4] - A[2]*A[3]

GroupNames == {"C1", "C2", "D1", "D2", "C4", "D4", "C3h", "C6h"}
Hex(name) == name \in {"C3h", "C6h"}
MinusId == <<-1, 0, 0, -1>>
MirrorX == <<1, 0, 0, -1>>      \* y -> -y (mirror line = x axis)
MirrorY == <<-1, 0, 0, 1>>      \* x -> -x
Rot90 == <<0, -1, 1, 0>>
Rot60h == <<0, -1, 1, 1>>
Rot120h == <<-1, -1, 1, 0>>

Generators(name) ==
    CASE name = "C1" -> {}
      [] name = "C2" -> {MinusId}
      [] name = "D1" -> {MirrorX}
      [] name = "D2" -> {MirrorX, MirrorY}
      [] name = "C4" -> {Rot90}
      [] name = "D4" -> {Rot90, MirrorX}
      [] name = "C3h" -> {Rot120h}
      [] name = "C6h" -> {Rot60h}

RECURSIVE Closure(_)
Closure(S) == LET T == S \cup {MMul(A, B) : A \in S, B \in S}
              IN IF T = S THEN S ELSE Closure(T)
GroupTable == [name \in GroupNames |-> Closure({Id} \cup Generators(name))]     \* evaluated once
GroupOf(name) == GroupTable[name]

ExpectedOrder(name) ==
    CASE name = "C1" -> 1 [] name = "C2" -> 2 [] name = "D1" -> 2 [] name = "D2" -> 4
      [] name = "C4" -> 4 [] name = "D4" -> 8 [] name = "C3h" -> 3 [] name = "C6h" -> 6

(* squared Euclidean norm of a lattice point (up to the lattice constant) *)
Norm2(name, p) == IF Hex(name) THEN p[1]*p[1] + p[1]*p[2] + p[2]*p[2] ELSE p[1]*p[1] + p[2]*p[2]

(* Cartesian coordinates, scaled to integers: square lattice x = EX, y = EY;                 *)
(* Eisenstein lattice x = EX / 2, y = EY * sqrt(3) / 2                                        *)
EX(name, p) == IF Hex(name) THEN 2 * p[1] + p[2] ELSE p[1]
EY(name, p) == p[2]

Orbit(G, p) == {Apply(m, p) : m \in G}
Stabiliser(G, p) == {m \in G : Apply(m, p) = p}

-----------------------------------------------------------------------------
(* 2. A disk rule is a sequence of [p |-> lattice point, w |-> weight].  What it *means* is the  *)
(*    measure sum_i w_i delta(p_i): an entry may be listed more than once (published tables   *)
(*    expand a generator on a mirror line into coincident images), so every statement is      *)
(*    about the measure, not about the listing.                                              *)
PointsOf(rule) == {rule[i].p : i \in 1..Len(rule)}
RECURSIVE SumOver(_, _)
SumOver(f, S) == IF S = {} THEN 0 ELSE LET x == CHOOSE x \in S : TRUE IN f[x] + SumOver(f, S \ {x})
WeightAt(rule, p) == SumOver([i \in 1..Len(rule) |-> rule[i].w], {i \in 1..Len(rule) : rule[i].p = p})
MeasureOf(rule) == [p \in PointsOf(rule) |-> WeightAt(rule, p)]
NoDuplicates(rule) == \A i, j \in 1..Len(rule) : rule[i].p = rule[j].p => i = j
InvariantUnder(rule, G) ==
    \A p \in PointsOf(rule) : \A m \in G :
        Apply(m, p) \in PointsOf(rule) /\ WeightAt(rule, Apply(m, p)) = WeightAt(rule, p)
OrbitsOf(rule, G) == {Orbit(G, p) : p \in PointsOf(rule)}
TotalWeight(rule) == SumSeq([i \in 1..Len(rule) |-> rule[i].w])
(* moment of the monomial EX^a EY^b (integer) *)
Moment(rule, name, a, b) ==
    SumSeq([i \in 1..Len(rule) |-> rule[i].w * Pow(EX(name, rule[i].p), a) * Pow(EY(name, rule[i].p), b)])
(* the same rule after the symmetry m has been applied to every point *)
Moved(rule, m) == [i \in 1..Len(rule) |-> [p |-> Apply(m, rule[i].p), w |-> rule[i].w]]
(* ways to write down the orbit of a generator g:                                            *)
(*   plain : each distinct image once with weight w                                           *)
(*   listed: one entry per group element, weight w (coincident entries where g is fixed);     *)
(*           the same measure as the plain orbit with weight w * |stabiliser of g|            *)
PlainOrbit(G, g, w) ==
    LET sq == SetToSeq(Orbit(G, g))
    IN [i \in 1..Len(sq) |-> [p |-> sq[i], w |-> w]]
ListedOrbit(G, g, w) ==
    LET sq == SetToSeq(G)
    IN [i \in 1..Len(sq) |-> [p |-> Apply(sq[i], g), w |-> w]]

-----------------------------------------------------------------------------
(* 3. Line rules on [-1, 1].                                                                 *)
(*  (a) abstract integer rules: sequence of <<z, w>>                                         *)
LineSymmetric(line) ==
    \A j \in 1..Len(line) : line[Len(line) + 1 - j] = <<-line[j][1], line[j][2]>>
LineStrictlyMonotone(line) ==
    \/ \A j \in 1..(Len(line) - 1) : line[j][1] < line[j + 1][1]
    \/ \A j \in 1..(Len(line) - 1) : line[j][1] > line[j + 1][1]
LineTotal(line) == SumSeq([j \in 1..Len(line) |-> line[j][2]])
LineMomentOf(line, c) == SumSeq([j \in 1..Len(line) |-> line[j][2] * Pow(line[j][1], c)])

(*  (b) symbolic rules whose nodes have rational squares: a set of                           *)
(*      [z2 |-> node^2, w |-> weight, mult |-> 2 (the pair +-z) or 1 (the node 0)]            *)
(*      Odd moments vanish by the pairing; even moments are rational.                         *)
SymEvenMoment(rule, m) ==
    LET s == SetToSeq(rule)
    IN RSumSeq([i \in 1..Cardinality(rule) |-> RMul(RInt(s[i].mult), RMul(s[i].w, RPow(s[i].z2, m)))])
LineExact(c) == IF c % 2 = 1 THEN <<0, 1>> ELSE RNorm(<<2, c + 1>>)
SymWellFormed(rule) ==
    \A n \in rule : /\ n.w[1] > 0 /\ n.z2[1] >= 0 /\ n.z2[1] < n.z2[2]      \* weights > 0, nodes in (-1, 1)
                    /\ (n.mult = 1 <=> n.z2[1] = 0) /\ n.mult \in {1, 2}
SymNodes(rule) == Cardinality({n \in rule : n.mult = 1}) + 2 * Cardinality({n \in rule : n.mult = 2})
SymExactUpTo(rule, d) == \A c \in 0..d : c % 2 = 0 => SymEvenMoment(rule, c \div 2) = LineExact(c)

(* Gauss-Legendre with k nodes (roots of P_k, Christoffel weights) *)
GaussLegendre(k) ==
    CASE k = 1 -> {[z2 |-> <<0, 1>>, w |-> <<2, 1>>, mult |-> 1]}
      [] k = 2 -> {[z2 |-> <<1, 3>>, w |-> <<1, 1>>, mult |-> 2]}
      [] k = 3 -> {[z2 |-> <<0, 1>>, w |-> <<8, 9>>, mult |-> 1], [z2 |-> <<3, 5>>, w |-> <<5, 9>>, mult |-> 2]}
(* nodes cos((2j-1) pi / 2k) (Chebyshev-Gauss), weights proportional to sin of the same angle *)
(* (= (pi/k) sqrt(1 - z^2)), normalised to total weight 2: what 'medium' / 'expensive' use.   *)
ChebyshevSin(k) ==
    CASE k = 1 -> {[z2 |-> <<0, 1>>, w |-> <<2, 1>>, mult |-> 1]}
      [] k = 2 -> {[z2 |-> <<1, 2>>, w |-> <<1, 1>>, mult |-> 2]}
      [] k = 3 -> {[z2 |-> <<0, 1>>, w |-> <<1, 1>>, mult |-> 1], [z2 |-> <<3, 4>>, w |-> <<1, 2>>, mult |-> 2]}

-----------------------------------------------------------------------------
(* 4. Product rule: every disk point with every line node, weights multiplied.               *)
(*    PairOf is the layout "line index runs fastest"; the specification of the product is    *)
(*    order free (IsCartesian).                                                              *)
PairOf(n, L) == <<((n - 1) \div L) + 1, ((n - 1) % L) + 1>>
ProductOf(disk, line) ==
    [n \in 1..(Len(disk) * Len(line)) |->
        LET ij == PairOf(n, Len(line))
        IN [x |-> disk[ij[1]].p[1], y |-> disk[ij[1]].p[2], z |-> line[ij[2]][1],
            w |-> disk[ij[1]].w * line[ij[2]][2]]]
(* the classical slip: one coordinate tiled instead of repeated *)
ProductTiledX(disk, line) ==
    [n \in 1..(Len(disk) * Len(line)) |->
        LET ij == PairOf(n, Len(line))
        IN [x |-> disk[((n - 1) % Len(disk)) + 1].p[1], y |-> disk[ij[1]].p[2], z |-> line[ij[2]][1],
            w |-> disk[ij[1]].w * line[ij[2]][2]]]
(* di[n], lj[n] = index of the disk point / line node that product entry n consists of *)
IsCartesian(di, lj, D, L) ==
    /\ Len(di) = D * L /\ Len(lj) = D * L
    /\ {<<di[n], lj[n]>> : n \in 1..(D * L)} = (1..D) \X (1..L)
ProductMoment(prod, name, a, b, c) ==
    SumSeq([n \in 1..Len(prod) |->
        prod[n].w * Pow(EX(name, <<prod[n].x, prod[n].y>>), a) * Pow(EY(name, <<prod[n].x, prod[n].y>>), b) * Pow(prod[n].z, c)])

-----------------------------------------------------------------------------
(* 5. Exact moments of the unit disk: int x^a y^b dA = pi * DiskMomentOverPi(a, b), by the   *)
(*    recurrences  M(a+2, b) = M(a, b) (a+1) / (a+b+4),  M(a, b+2) = M(a, b) (b+1) / (a+b+4). *)
RECURSIVE DiskMomentOverPi(_, _)
DiskMomentOverPi(a, b) ==
    IF a % 2 = 1 \/ b % 2 = 1 THEN <<0, 1>>
    ELSE IF a = 0 /\ b = 0 THEN <<1, 1>>
    ELSE IF a >= 2 THEN RMul(DiskMomentOverPi(a - 2, b), RNorm(<<a - 1, a + b + 2>>))
    ELSE RMul(DiskMomentOverPi(a, b - 2), RNorm(<<b - 1, a + b + 2>>))

(* A scaled lattice rule: disk rule on a lattice, lattice constant s with s^2 = scale2        *)
(* rational, weights in units of pi/wden.  Its moment of x^a y^b is, up to a non-zero         *)
(* irrational factor when a or b is odd, s^(a+b) (1/2)^a (sqrt3/2)^b Moment(a, b) (Eisenstein)*)
(* or s^(a+b) Moment(a, b) (square lattice).                                                  *)
ScaledExact(sr, a, b) ==
    LET m == Moment(sr.rule, sr.grp, a, b)
    IN IF a % 2 = 1 \/ b % 2 = 1 THEN m = 0
       ELSE LET geo == IF Hex(sr.grp) THEN RMul(RPow(<<1, 4>>, a \div 2), RPow(<<3, 4>>, b \div 2)) ELSE <<1, 1>>
                val == RMul(RMul(RPow(sr.scale2, (a + b) \div 2), geo), RNorm(<<m, sr.wden>>))
            IN val = DiskMomentOverPi(a, b)
ScaledExactUpTo(sr, d) == \A a \in 0..d : \A b \in 0..(d - a) : ScaledExact(sr, a, b)
ScaledInside(sr) == \A i \in 1..Len(sr.rule) :
    Norm2(sr.grp, sr.rule[i].p) * sr.scale2[1] < sr.scale2[2]

OrbitRule(name, gens) ==      \* gens: sequence of <<point, weight>>; complete orbits, in a fixed order
    LET G == GroupOf(name)
        RECURSIVE Build(_)
        Build(k) == IF k = 0 THEN <<>> ELSE Build(k - 1) \o PlainOrbit(G, gens[k][1], gens[k][2])
    IN Build(Len(gens))

(* the 4-point rule (+-s, 0), (0, +-s), s^2 = 1/2, weights pi/4: degree 3 *)
Square4 == [grp |-> "C4", rule |-> OrbitRule("C4", << <<<<1, 0>>, 1>> >>), scale2 |-> <<1, 2>>, wden |-> 4]
(* Radon-type 7-point rule: centre pi/4, regular hexagon of radius sqrt(2/3) with pi/8: degree 5 *)
Hexagon7 == [grp |-> "C6h", rule |-> OrbitRule("C6h", << <<<<0, 0>>, 2>>, <<<<1, 0>>, 1>> >>), scale2 |-> <<2, 3>>, wden |-> 8]

-----------------------------------------------------------------------------
(* 6. Number of line nodes: c nodes per unit of height/radius, at least c, at most cmax,     *)
(*    rounded to the nearest integer (an exact tie may go either way).  P/Q = height/radius. *)
NodesPerAspect(kind) == CASE kind = "cheap" -> 5 [] kind = "medium" -> 7 [] kind = "expensive" -> 11
MaxNodes(kind) == CASE kind = "cheap" -> 15 [] kind = "medium" -> 25 [] kind = "expensive" -> 35
LineFamily(kind) == IF kind = "cheap" THEN "legendre" ELSE "chebyshev_sin"
KSet(kind, P, Q) ==
    LET c == NodesPerAspect(kind)
        m == MaxNodes(kind)
    IN IF c * P <= c * Q THEN {c}
       ELSE IF c * P >= m * Q THEN {m}
       ELSE {k \in c..m : 2 * Abs(k * Q - c * P) <= Q}

-----------------------------------------------------------------------------
(* 7. The bundled tables, from the sources they cite (quadratures.py):                        *)
(*   disk12        12-point rule of algebraic degree 7, symmetric under the point reflection  *)
(*   disk55        "T17_6segment": degree 17, six-fold rotational symmetry (centre + 9 orbits)*)
(*   disk256_cheb  "T37_FullSym_Cheby": degree 37, symmetric under both axis reflections      *)
(* and which table / line family each quadrature kind of the cylinder multiplies.             *)
TableNames == {"disk12", "disk55", "disk256_cheb"}
TableGroup(t) == CASE t = "disk12" -> "C2" [] t = "disk55" -> "C6h" [] t = "disk256_cheb" -> "D2"
PublishedDegree(t) == CASE t = "disk12" -> 7 [] t = "disk55" -> 17 [] t = "disk256_cheb" -> 37
TableOfKind(kind) == CASE kind = "cheap" -> "disk12" [] kind = "medium" -> "disk55" [] kind = "expensive" -> "disk256_cheb"
RECURSIVE MatOrderFrom(_, _, _)
MatOrderFrom(m, acc, n) == IF acc = Id THEN n ELSE MatOrderFrom(m, MMul(acc, m), n + 1)
MatOrder(m) == MatOrderFrom(m, m, 1)
=============================================================================
