------------------------ MODULE Trace_KinematicsInel ------------------------
(* Judge of recorded executions of the real inelastic kernels / convert() (C05).             *)
(*  ev = "flight": a neutron detected at t = L1/v(Ei) + L2/v(Ef); the result must be a number *)
(*                 (ArrivalAfterT0 + Boundary of the specification), in the unit of the       *)
(*                 supplied energy, and close to Ei - Ef (flag computed by the harness from   *)
(*                 the specification's exact rational).                                       *)
(*                 Hardening round: the layout of the operands is recorded (scalar, dense,      *)
(*                 per-pixel in several memory layouts, a time axis shared by pixels and        *)
(*                 broadcast, event data, convert() on dense / event data); the result must be  *)
(*                 addressable per (pixel, time): dims of the operands, event data iff the      *)
(*                 times are (flag shape_ok); whether the call is a replay at the end; whether  *)
(*                 the supplied energy is one per pixel (per-pixel layouts only).                *)
(*  ev = "scan"  : arrival times around / far from the exact t0 of the fixed-energy leg, each *)
(*                 with its side (computed exactly by the harness) and the class of the       *)
(*                 returned value; judged with the specification's AllowedClasses.            *)
EXTENDS KinematicsInelDefs, Sequences, TLC, Json, IOUtils

Tr == ndJsonDeserialize(IOEnv.TRACE_FILE)
VARIABLES l, nbad
tvars == <<l, nbad>>

Modes == {"direct", "indirect"}
Sides == {"below", "at", "band", "above"}
Layouts == {"scalar", "dense", "pixels", "pixels/T", "pixels/view", "pixels/slice", "bcast", "bcast/scalar-tof", "bcast/1-tof",
            "events", "events/gaps", "convert", "convert/events"}
Orders == {"ascending", "descending", "shuffled"}      \* listing order of the scanned times: irrelevant
Classes == {"nan", "num", "inf"}

JudgeFlight(e) ==
    IF e.mode \notin Modes THEN "unknown_mode"
    ELSE IF e.layout \notin Layouts \/ (e.via = "convert") # (e.layout \in {"convert", "convert/events"})
         THEN "unknown_layout"
    ELSE IF e.energy_per_pixel /\ e.layout \notin {"pixels", "pixels/T", "pixels/view", "pixels/slice",
                                                  "events", "events/gaps"} THEN "unknown_layout"
    ELSE IF e.status # "ok" THEN "kernel_raised"
    ELSE IF ~e.shape_ok THEN "result_dims"
    ELSE IF e.unit_out # e.unit_in THEN "result_not_in_unit_of_supplied_energy"
    ELSE IF e.cls \notin Classes THEN "malformed_result"
    ELSE IF e.cls = "inf" THEN "infinite_result"
    ELSE IF e.cls \notin AllowedClasses("above") THEN "physical_arrival_not_a_number"
    ELSE IF ~e.close THEN "energy_not_conserved"
    ELSE "ok"

JudgeScan(e) ==
    IF e.mode \notin Modes THEN "unknown_mode"
    ELSE IF e.status # "ok" THEN "kernel_raised"
    ELSE IF e.unit_out # e.unit_in THEN "result_not_in_unit_of_supplied_energy"
    ELSE IF e.order \notin Orders THEN "unknown_order"
    ELSE IF Len(e.sides) # Len(e.cls) THEN "scan_length"
    ELSE IF \E i \in 1..Len(e.cls) : e.cls[i] \notin Classes THEN "malformed_result"
    ELSE IF \E i \in 1..Len(e.cls) : e.cls[i] = "inf" THEN "infinite_result"
    ELSE IF \E i \in 1..Len(e.cls) : e.sides[i] \in {"below", "at"} /\ e.cls[i] \notin AllowedClasses(e.sides[i])
         THEN "not_nan_at_or_before_t0"
    ELSE IF \E i \in 1..Len(e.cls) : e.sides[i] = "above" /\ e.cls[i] \notin AllowedClasses("above")
         THEN "nan_after_t0"
    ELSE IF \E i \in 1..Len(e.cls) : e.sides[i] \notin Sides \/ e.cls[i] \notin AllowedClasses(e.sides[i])
         THEN "class_not_allowed"
    ELSE "ok"

Judge(e) == IF e.ev = "flight" THEN JudgeFlight(e)
            ELSE IF e.ev = "scan" THEN JudgeScan(e)
            ELSE "unknown_event"

TInit == l = 1 /\ nbad = 0
TNext == /\ l <= Len(Tr)
         /\ l' = l + 1
         /\ LET v == Judge(Tr[l]) IN
            /\ nbad' = IF v = "ok" THEN nbad ELSE nbad + 1
            /\ (v = "ok" \/ PrintT(<<"REJECT", l, Tr[l].tid, v>>))
TSpec == TInit /\ [][TNext]_tvars
Done == (l = Len(Tr) + 1) => PrintT(<<"DONE", l - 1, nbad>>)
=============================================================================
