"""GROWTH module: metadata models and the Beamline/Source deduction of the CIF builder.

Beyond the 20 listed properties; deviations are reported with ``ctx.growth_finding`` (never
``ctx.violation``).  Specs (spec/metadata/, all prefixed ``Growth_``):

  Growth_MetadataDefs.tla      decision table of scippneutron.metadata.{Beamline, Measurement, Person,
                               Software, Source}: per field kind and class of argument ("token") whether the
                               argument is accepted and which normal form is stored; required / default;
                               dump representations; derived properties (Measurement.run_number_maybe_int,
                               Software.name_version / compact_repr); Software.from_package_metadata table
  Growth_MetadataModels.tla    life cycle  args -> Give* -> Construct -> built|rejected -> Dump(mode) ->
                               Revalidate  with invariants (refusal iff a faulty field and exactly those are
                               blamed, completeness/defaults, variables only where declared, idempotent
                               normal forms, dump->validate round trip in python and JSON mode, JSON dump is
                               plain, equivalent spellings give equal objects, derived properties total,
                               package table)        (Neg: enum dumped by name; URL split at the last comma)
  Growth_Gen_Metadata.tla      spec -> code: every call deviating from the class' baseline call in <= 2
                               fields with its demanded outcome; the package-metadata table
  Growth_Trace_Metadata.tla    code -> spec: judge of recorded calls
  Growth_CifBeamlineDefs.tla   decision table (facility class x Source) -> allowed (probe, device) outcomes
  Growth_CifBeamline.tla       builder tree under with_beamline / save with invariants (table total, written
                               words are CIF enumeration words and physically consistent, Source wins,
                               naming a known facility == handing in its Source, nothing invented,
                               builders are persistent values)       (Neg: facility beats an explicit Source)
  Growth_Gen_CifBeamline.tla   spec -> code: the complete table
  Growth_Trace_CifBeamline.tla code -> spec: judge of recorded builder programs
  Growth_CifSchemaDefs.tla     which dictionaries a block declares: every Chunk/Loop/Block declares a set of
                               schemas (None / one / iterable), anything declared brings coreCIF, a block uses
                               its own and its items' schemas, the _audit_conform loop has one row per used
                               schema and is absent without schemas; builder: coreCIF + pdCIF iff powder items
  Growth_CifSchema.tla         blocks / items / copies / writes as a state machine (Growth_MC_CifSchema.tla
                               holds the item declarations): core whenever any, declared are used, nothing
                               undeclared, adding is monotone and local, copies start equal and are
                               independent                   (Neg: copy shares its items; core not added)
  Growth_Gen_CifSchema.tla     spec -> code: all blocks with any own declaration and <= 2 items
  Growth_Trace_CifSchema.tla   code -> spec: judge of recorded Block programs (new/add/copy/write) and of
                               builder programs (conformance rows, CIF.schema, audit.creation_date/method)

Audit values are compared here, not by TLC (TLC gets the booleans): audit.creation_date must parse as ISO 8601,
be UTC with whole seconds and lie inside the window of the save call; audit.creation_method must be
'Written by scippneutron <scippneutron.__version__>'.

Refinement mapping (tokens -> concrete arguments) is `_build`; the abstraction of results back to normal
forms is `_abstract`.  The oracle never calls the code under test: expected values are computed from the
payload (text, ORCID iD, e-mail, instant, enum member) the harness chose itself.  ORCIDiD instances passed
as *arguments* (token orcid_obj) are of course made with the library's constructor.
"""

from __future__ import annotations

import enum
import importlib
import io
import json
import sys
from concurrent.futures import ThreadPoolExecutor
from datetime import datetime, timedelta, timezone

from .core import MachineryError
from .tlc import require_ok, write_ndjson

_W = 2  # TLC workers per model-checking run (several runs are in flight at once)

# ------------------------------------------------------------------------------------------ payloads
TEXTS = ['Amor', 'ESS', 'Jane Doe', 'x y', 'IPTS-2767', '12b', 'loki rev.2', '\xb5-beam \xc5', 'line1\nline2',
         "O'Brien", 'a' * 120, 'PSI', 'data_reduction', 'instrument scientist']
DIGITS = ['4844', '0', '007', '123456789012345678901234567890', '31']
ORCIDS = ['0000-0000-0000-0001', '0000-0002-1825-0097', '0000-0001-5109-3700', '0000-0002-1694-233X',
          '0000-0003-1415-9269']
EMAILS = ['jane.doe@ess.eu', 'a@b.org', 'first+tag@sub.example.com', 'user@psi.ch']
BAD_EMAILS = ['nope', 'a@', '@b.org', 'a b@c.org', 'a@@b.org']
AWARE = [datetime(2011, 8, 12, 11, 50, 17, tzinfo=timezone(timedelta(hours=-4))),
         datetime(2020, 1, 2, 3, 4, 5, tzinfo=timezone.utc),
         datetime(2024, 2, 29, 23, 59, 59, 250000, tzinfo=timezone(timedelta(hours=5, minutes=30))),
         datetime(1999, 12, 31, 0, 0, 0, tzinfo=timezone(timedelta(hours=1)))]
NAIVE = [datetime(2011, 8, 12, 11, 50, 17), datetime(2024, 2, 29, 23, 59, 59, 250000)]
GARBAGE_DT = ['garbage', 'yesterday', '2020-13-45T99:00:00', 'T']


def _orcid_check(base15: str) -> str:
    """ISO 7064 MOD 11-2 (independent of the library; spec: spec/metadata/Orcid.tla)."""
    total = 0
    for ch in base15:
        total = (total + int(ch)) * 2
    r = (12 - total % 11) % 11
    return 'X' if r == 10 else str(r)


def _self_test_pools():
    for o in ORCIDS:
        d = o.replace('-', '')
        if _orcid_check(d[:15]) != d[15]:
            raise MachineryError(f'pool ORCID {o} is not valid')
    for t in TEXTS:
        if not any(c.isascii() and c.isalpha() for c in t):
            raise MachineryError(f'pool text {t!r} must contain an ASCII letter')
    for d in DIGITS:
        if not (d.isascii() and d.isdigit()):
            raise MachineryError(f'pool digit string {d!r}')


def _decimal(d: str) -> int:
    v = 0
    for ch in d:
        v = v * 10 + '0123456789'.index(ch)
    return v


class _Payload:
    """The concrete content behind one field of one call."""

    __slots__ = ('text', 'digits', 'orcid', 'email', 'aware', 'naive', 'member')

    def __init__(self, rng, kind, M):
        self.text = rng.choice(TEXTS)
        self.digits = rng.choice(DIGITS)
        self.orcid = rng.choice(ORCIDS)
        self.email = rng.choice(EMAILS)
        self.aware = rng.choice(AWARE)
        self.naive = rng.choice(NAIVE)
        self.member = None
        if kind == 'stype':
            self.member = rng.choice(list(M.SourceType))
        elif kind == 'probe':
            self.member = rng.choice(list(M.RadiationProbe))


_ABSENT = object()


def _build(rng, kind, tok, p, M, sc):
    """Refinement mapping token -> concrete argument."""
    if tok == 'absent':
        return _ABSENT
    if tok == 'none':
        return None
    if tok == 'str':
        return p.text
    if tok == 'digits':
        return p.digits
    if tok == 'var':
        return sc.scalar(p.text)
    if tok == 'var_one':
        return sc.scalar(p.text, unit=rng.choice(['one', 'dimensionless', '']))
    if tok == 'var_digits':
        return sc.scalar(p.digits)
    if tok == 'var_unit':
        return sc.scalar(p.text, unit=rng.choice(['m', 's', 'counts']))
    if tok == 'var_1d':
        n = rng.choice([1, 2])
        return sc.array(dims=['x'], values=[p.text] * n)
    if tok == 'var_int':
        return rng.choice([sc.scalar(3), sc.scalar(3, unit=None), sc.scalar(2.5)])
    if tok == 'int':
        return rng.choice([7, 0, 12345])
    if tok == 'list':
        if kind == 'bool':
            return [True]
        if kind == 'odt':
            return [p.aware]
        return [p.text]
    if tok == 'true':
        return True
    if tok == 'false':
        return False
    if tok == 'orcid_bare':
        return p.orcid
    if tok == 'orcid_url':
        return 'https://orcid.org/' + p.orcid
    if tok == 'orcid_obj':
        return M.ORCIDiD(rng.choice([p.orcid, 'https://orcid.org/' + p.orcid]))
    if tok == 'orcid_var':
        return sc.scalar(p.orcid)
    if tok == 'orcid_var_unit':
        return sc.scalar(p.orcid, unit='m')
    if tok == 'orcid_badcheck':
        last = p.orcid[-1]
        other = rng.choice([c for c in '0123456789X' if c != last])
        return p.orcid[:-1] + other
    if tok == 'orcid_badresolver':
        return rng.choice(['http://orcid.org/', 'https://example.org/', 'https://orcid.org/x/', 'orcid.org/']) + p.orcid
    if tok == 'orcid_badshape':
        return rng.choice([p.orcid.replace('-', ''), p.orcid[:14], p.orcid + '-0000', p.orcid.replace('-', '_')])
    if tok == 'email':
        return p.email
    if tok == 'email_var':
        return sc.scalar(p.email)
    if tok == 'email_bad':
        return rng.choice(BAD_EMAILS)
    if tok == 'dt_aware':
        return p.aware
    if tok == 'dt_naive':
        return p.naive
    if tok == 'dt_iso':
        s = p.aware.isoformat()
        if s.endswith('+00:00') and rng.random() < 0.5:
            s = s[:-6] + 'Z'
        return s
    if tok == 'dt_iso_naive':
        return p.naive.isoformat()
    if tok == 'dt_var':
        return sc.datetime('2020-01-02T03:04:05', unit='s')
    if tok == 'dt_garbage':
        return rng.choice(GARBAGE_DT)
    if tok == 'member':
        return p.member
    if tok == 'value':
        return p.member.value
    if tok == 'value_unknown':
        return rng.choice(['proton', 'Fusion Source', '', p.member.value + ' ', p.member.name + '_'])
    if tok == 'member_other':
        other = M.RadiationProbe if kind == 'stype' else M.SourceType
        return rng.choice(list(other))
    raise MachineryError(f'no refinement for token {tok}')


def _abstract(kind, v, M):
    """Abstraction of a stored value to the specification's normal forms."""
    if v is None:
        return 'NONE'
    if v is True:
        return 'TRUE'
    if v is False:
        return 'FALSE'
    if isinstance(v, M.ORCIDiD):
        return 'ORCID'
    if isinstance(v, enum.Enum):
        return 'MEMBER'
    if isinstance(v, datetime):
        return 'DT_AWARE' if v.utcoffset() is not None else 'DT_NAIVE'
    if isinstance(v, str):
        if kind == 'oemail':
            return 'EMAIL'
        return 'DIGITS' if (v != '' and v.isascii() and v.isdigit()) else 'TEXT'
    return 'OTHER_' + type(v).__name__


def _payload_ok(normal, v, p):
    if normal in ('NONE', 'TRUE', 'FALSE'):
        return True  # the abstract value is the concrete value
    if normal == 'TEXT':
        return v == p.text
    if normal == 'DIGITS':
        return v == p.digits
    if normal == 'ORCID':
        return str(v) == 'https://orcid.org/' + p.orcid
    if normal == 'EMAIL':
        return v == p.email
    if normal == 'DT_AWARE':
        return v == p.aware and v.utcoffset() == p.aware.utcoffset()
    if normal == 'DT_NAIVE':
        return v == p.naive and v.tzinfo is None
    if normal == 'MEMBER':
        return v is p.member
    return False


def _dump_rep(kind, v, p):
    """Abstraction of one dumped value to the specification's representations."""
    if v is None:
        return 'null'
    if v is True:
        return 'bool_true'
    if v is False:
        return 'bool_false'
    if isinstance(v, enum.Enum):
        return 'member'
    if isinstance(v, datetime):
        return 'datetime_aware' if v.utcoffset() is not None else 'datetime_naive'
    if isinstance(v, str):
        if kind == 'oorcid':
            return 'url_str' if v == 'https://orcid.org/' + p.orcid else 'other_str'
        if kind == 'oemail':
            return 'email_str'
        if kind in ('stype', 'probe'):
            return 'value_str' if v == p.member.value else ('name_str' if v == p.member.name else 'other_str')
        if kind == 'odt':
            try:
                d = datetime.fromisoformat(v)
            except ValueError:
                return 'other_str'
            return 'iso_aware' if d.utcoffset() is not None else 'iso_naive'
        return 'digits_str' if (v != '' and v.isascii() and v.isdigit()) else 'str'
    return 'other_' + type(v).__name__


class _Meta:
    """Everything about one run of the metadata part."""

    def __init__(self, ctx, schema, toks, alts):
        from pydantic import ValidationError
        import scipp as sc
        from scippneutron import metadata as M

        self.ctx, self.M, self.sc, self.VE = ctx, M, sc, ValidationError
        self.schema, self.toks, self.alts = schema, toks, alts
        self.classes = {'Beamline': M.Beamline, 'Measurement': M.Measurement, 'Person': M.Person,
                        'Software': M.Software, 'Source': M.Source}
        self.events = []

    def kwargs(self, cls, given, payloads):
        kw = {}
        for f, tok in given.items():
            v = _build(self.ctx.rng, self.schema[cls][f], tok, payloads[f], self.M, self.sc)
            if v is not _ABSENT:
                kw[f] = v
        return kw

    def observe(self, cls, given, alt=None):
        """Call the real class and project what happened to an event."""
        ctx, M = self.ctx, self.M
        C = self.classes[cls]
        kinds = self.schema[cls]
        payloads = {f: _Payload(ctx.rng, kinds[f], M) for f in given}
        if alt is None:
            alt = {f: self.alts[kinds[f]][t] for f, t in given.items()}
        ev = {'ev': 'construct', 'tid': len(self.events) + 1, 'cls': cls, 'given': dict(given), 'out': '', 'exc': '',
              'bad': [], 'obj': {'nothing': '-'}, 'payload_ok': True, 'derived': {'nothing': '-'},
              'rt_python': True, 'rt_json': True, 'rt_jsonstr': True, 'json_plain': True, 'alt_equal': True,
              'dump_python': {'nothing': '-'}, 'dump_json': {'nothing': '-'}}
        try:
            kw = self.kwargs(cls, given, payloads)
        except MachineryError:
            raise
        except Exception as e:  # noqa: BLE001 - building an *argument* failed (e.g. ORCIDiD of a valid id)
            ev['out'], ev['exc'] = 'raised', f'argument:{type(e).__name__}'
            self.events.append(ev)
            return ev
        try:
            obj = C(**kw)
        except self.VE as e:
            ev['out'] = 'rejected'
            ev['bad'] = sorted({str(err['loc'][0]) if err.get('loc') else '?' for err in e.errors()})
            self.events.append(ev)
            return ev
        except Exception as e:  # noqa: BLE001
            ev['out'], ev['exc'] = 'raised', type(e).__name__
            self.events.append(ev)
            return ev
        ev['out'] = 'built'
        ev['obj'] = {f: _abstract(kinds[f], getattr(obj, f, None), M) for f in given}
        ev['payload_ok'] = all(_payload_ok(ev["obj"][f], getattr(obj, f), payloads[f]) for f in given)
        # derived properties
        if cls == 'Measurement':
            try:
                v = obj.run_number_maybe_int
                if v is None:
                    d = 'none'
                elif isinstance(v, int) and not isinstance(v, bool):
                    d = 'int' if (ev['obj']['run_number'] == 'DIGITS' and v == _decimal(obj.run_number)) else 'other'
                elif isinstance(v, str):
                    d = 'text' if v == obj.run_number else 'other'
                else:
                    d = 'other'
            except Exception as e:  # noqa: BLE001
                d = 'raised_' + type(e).__name__
            ev['derived'] = {'maybe_int': d}
        elif cls == 'Software':
            try:
                nv = f'{obj.name} {obj.version}'
                if obj.name_version != nv:
                    d = 'other'
                elif obj.compact_repr == nv:
                    d = 'name_version'
                elif obj.compact_repr == f'{nv} ({obj.url})':
                    d = 'name_version_url'
                else:
                    d = 'other'
            except Exception as e:  # noqa: BLE001
                d = 'raised_' + type(e).__name__
            ev['derived'] = {'compact': d}
        # serialisation round trips
        for mode, key in (('python', 'rt_python'), ('json', 'rt_json')):
            try:
                dumped = obj.model_dump(mode=mode)
                ev['dump_' + mode] = {f: _dump_rep(kinds[f], dumped.get(f, _ABSENT), payloads[f]) for f in given}
                back = C.model_validate(dumped)
                ev[key] = bool(back == obj) and set(dumped) == set(given)
                if mode == 'json':
                    ev['json_plain'] = all(v is None or isinstance(v, (bool, str)) for v in dumped.values())
                    json.dumps(dumped)
            except Exception:  # noqa: BLE001
                ev[key] = False
        try:
            ev['rt_jsonstr'] = bool(C.model_validate_json(obj.model_dump_json()) == obj)
        except Exception:  # noqa: BLE001
            ev['rt_jsonstr'] = False
        # equivalent spelling of the arguments (same payloads)
        try:
            kw2 = {}
            for f, tok in alt.items():
                v = _build(ctx.rng, kinds[f], tok, payloads[f], M, self.sc)
                if v is not _ABSENT:
                    kw2[f] = v
            other = C(**kw2)
            ev['alt_equal'] = bool(other == obj) and bool(obj == other) and not bool(other != obj)
        except Exception:  # noqa: BLE001
            ev['alt_equal'] = False
        self.events.append(ev)
        return ev


def _culprit_keys(cls, clause, pairs, schema):
    """Stable finding keys: one per culprit <<field, token/normal>>."""
    if not pairs:
        return [f'metadata.{cls}: {clause}']
    keys = []
    for f, what in sorted(pairs):
        kind = schema.get(cls, {}).get(f)
        if kind:
            keys.append(f'metadata.{cls}.{f} ({kind}): {clause} [{what}]')
        else:
            keys.append(f'metadata.{cls}.{f}: {clause} [expected {what}]')
    return keys


def _blame(ctx, cls, given, blamed, diff, schema):
    for f in sorted(diff):
        clause = 'valid input rejected' if f in blamed else 'invalid input accepted'
        for k in _culprit_keys(cls, clause, [(f, given.get(f, '?'))], schema):
            ctx.growth_finding(k, {'given': given, 'blamed': blamed})


def _load(path):
    return [json.loads(line) for line in path.read_text().splitlines() if line.strip()]


# ------------------------------------------------------------------------------------------ packages
_PKG_URLS = ['https://github.com/example/project', 'https://example.org/src', 'https://example.org/a,b',
             'https://git.example.net/x/y?ref=v1,v2', 'https://example.org/docs']


class _Packages:
    """Fabricated installed packages (dist-info metadata and/or importable module) in a scratch directory."""

    def __init__(self, ctx, M):
        self.ctx, self.M = ctx, M
        self.root = ctx.tmp / 'growth_pkgs'
        self.root.mkdir(exist_ok=True)
        self.n = 0
        self.names = []

    def make(self, meta, module, labels, force_comma=False):
        self.n += 1
        name = f'growthpkg{self.n:04d}x'
        self.names.append(name)
        urls = []
        for i, _ in enumerate(labels):
            pool = [u for u in _PKG_URLS if (',' in u) == force_comma] if (force_comma and i == 0) else _PKG_URLS
            u = self.ctx.rng.choice(pool)
            urls.append(f'{u}#{i}')       # make the entries of one package distinct
        if meta == 'present':
            d = self.root / f'{name}-1.2.3.dist-info'
            d.mkdir()
            lines = ['Metadata-Version: 2.1', f'Name: {name}', 'Version: 1.2.3', 'Summary: fabricated']
            lines += [f'Project-URL: {lab}, {u}' for lab, u in zip(labels, urls, strict=True)]
            (d / 'METADATA').write_text('\n'.join(lines) + '\n')
        if module == 'versioned':
            (self.root / f'{name}.py').write_text('__version__ = "9.8.7"\n')
        elif module == 'unversioned':
            (self.root / f'{name}.py').write_text('x = 1\n')
        return name, urls

    def __enter__(self):
        sys.path.insert(0, str(self.root))
        return self

    def __exit__(self, *a):
        try:
            sys.path.remove(str(self.root))
        except ValueError:
            pass
        for n in self.names:
            sys.modules.pop(n, None)
        importlib.invalidate_caches()

    def observe(self, tid, meta, module, labels, force_comma=False):
        name, urls = self.make(meta, module, labels, force_comma)
        importlib.invalidate_caches()
        ev = {'ev': 'pkg', 'tid': tid, 'meta': meta, 'module': module, 'labels': list(labels), 'out': '',
              'version_from': '-', 'url_idx': 0, 'doi_none': True, 'name_ok': True, 'urls': urls, 'got_url': None}
        try:
            s = self.M.Software.from_package_metadata(name)
        except Exception as e:  # noqa: BLE001
            ev['out'] = type(e).__name__
            return ev
        if not isinstance(s, self.M.Software):
            ev['out'] = 'other_' + type(s).__name__
            return ev
        ev['out'] = 'software'
        ev['version_from'] = {'1.2.3': 'metadata', '9.8.7': 'attribute'}.get(s.version, 'other')
        ev['got_url'] = s.url
        ev['url_idx'] = 0 if s.url is None else (urls.index(s.url) + 1 if s.url in urls else 99)
        ev['doi_none'] = s.doi is None
        ev['name_ok'] = s.name == name
        return ev


def _pkg_key(ev, clause):
    if clause in ('pkg_source_url', 'pkg_url_invented') and ev['url_idx'] == 99:
        src = [u for lab, u in zip(ev['labels'], ev['urls'], strict=True) if lab.startswith('Source')]
        if any(',' in u for u in src) and ev['got_url'] and any(u.endswith(ev['got_url']) for u in src):
            return ('Software.from_package_metadata: a Project-URL whose URL contains a comma is cut at the last '
                    'comma instead of the first')
    text = {'pkg_outcome': f'outcome {ev["out"]}', 'pkg_version_source': f'version taken from {ev["version_from"]}',
            'pkg_url_invented': 'a URL is returned although the metadata has no source URL',
            'pkg_source_url': 'the source URL of the metadata is not returned', 'pkg_doi': 'a DOI is returned',
            'pkg_name': 'name differs from the package name'}.get(clause, clause)
    return f'Software.from_package_metadata: {text} (metadata {ev["meta"]}, module {ev["module"]})'


# ------------------------------------------------------------------------------------------ CIF beamline
FACILITIES = {
    'doc_spallation': ['ESS', 'SINQ'],
    'spallation': ['CSNS', 'ISIS', 'J-PARC', 'LANSCE', 'SNS'],
    'reactor': ['ILL', 'FRM II', 'HFIR', 'OPAL', 'NCNR', 'HANARO', 'BER II'],
    'synchrotron': ['ESRF', 'PETRA III', 'APS', 'MAX IV', 'SPring-8', 'Diamond Light Source', 'NSLS-II'],
}
_ALL_NAMES = [n for v in FACILITIES.values() for n in v]
_UNKNOWN_PLAIN = ['made up', 'XYZ', 'my-lab', 'Institute of Things', 'n/a', 'unknown', 'ES', 'ESSS', 'SN', 'ISI',
                  'SINQ2', 'J-PAR', 'ANS', 'xESS', 'E S S']
_BEAMLINES = ['Amor', 'ESTIA', 'POWGEN', 'fake', 'D20', 'some beamline', 'WISH', "O'Hara-1", 'dream']


def _unknown_names(rng, k):
    """Texts that name no facility: plain ones and concatenations of two facility names."""
    out = [(n, 'other text') for n in rng.sample(_UNKNOWN_PLAIN, min(k, len(_UNKNOWN_PLAIN)))]
    compact = [n for n in _ALL_NAMES if ' ' not in n]
    for _ in range(k):
        a, b = rng.sample(compact, 2)
        out.append((a + b, 'concatenation of two facility names'))
    return out


def _case_variant(rng, name):
    return rng.choice([name, name.lower(), name.upper(), name.capitalize()])


def _beamline_chunks(text, T):
    """Paragraphs of the written file that contain _diffrn_source.beamline, parsed to tag -> value."""
    chunks = []
    for para in text.split('\n\n'):
        if '_diffrn_source.beamline' not in para:
            continue
        blocks, le, pe = T.py_read('data_p\n' + para + '\n')
        if le or pe or len(blocks) != 1:
            chunks.append(None)
            continue
        d = {}
        for it in blocks[0]['items']:
            if it['k'] == 'pair':
                d[it['tags'][0]] = it['vals'][0]
        chunks.append(d)
    return chunks


class _Cif:
    def __init__(self, ctx):
        from scippneutron import metadata as M
        from scippneutron.io import cif
        from . import lib_textio as T

        self.ctx, self.M, self.cif, self.T = ctx, M, cif, T
        self.events = []
        self.concrete = {}     # tid -> list of concrete call descriptions

    def source(self, given, stype, probe):
        if not given:
            return None
        M = self.M
        t = {'spallation': M.SourceType.SpallationNeutronSource, 'reactor': M.SourceType.ReactorNeutronSource,
             'synchrotron': M.SourceType.SynchrotronXraySource}[stype]
        p = {'neutron': M.RadiationProbe.Neutron, 'xray': M.RadiationProbe.Xray}[probe]
        name = self.ctx.rng.choice([None, 'ESS Butterfly', 'the source'])
        return M.Source(name=name, source_type=t, probe=p)

    def program(self, calls, saves):
        """calls: list of dicts parent, fc, facility (text|None), given, type, probe.  Runs the program on
        the real builder and appends one event."""
        ctx, M, cif = self.ctx, self.M, self.cif
        rng = ctx.rng
        builders = [cif.CIF('growth')]
        ecalls, conc = [], []
        for c in calls:
            name = rng.choice(_BEAMLINES)
            kw = {'name': name}
            if c['facility'] is not None or rng.random() < 0.5:
                kw['facility'] = c['facility']
            if rng.random() < 0.3:
                kw['site'] = rng.choice(['PSI', 'ESS', 'ORNL', None])
            if rng.random() < 0.3:
                kw['revision'] = rng.choice(['2', 'rev. B', None])
            parent = c['parent'] if c['parent'] <= len(builders) else 1
            refused = False
            try:
                b = M.Beamline(**kw)
                s = self.source(c['given'], c['type'], c['probe'])
                args = (b,) if (s is None and rng.random() < 0.5) else (b, s)
                child = builders[parent - 1].with_beamline(*args)
                if rng.random() < 0.3:
                    child = child.with_reducers('growth-check 1.0')
                builders.append(child)
            except ValueError:
                refused = True
            except Exception as e:  # noqa: BLE001
                ctx.growth_finding(f'CIF.with_beamline raised {type(e).__name__}',
                                   {'facility': c['facility'], 'source': [c['given'], c['type'], c['probe']]})
                refused = True
            ecalls.append({'parent': parent, 'fc': c['fc'], 'given': bool(c['given']), 'type': c['type'],
                           'probe': c['probe'], 'refused': refused})
            conc.append({'name': name, 'facility': c['facility'], 'shape': c.get('shape', '')})
        esaves = []
        created = [k for k, c in enumerate(ecalls) if not c['refused']]   # call index of builder i+2
        for sid in saves:
            if sid > len(builders):
                continue
            f = io.StringIO()
            try:
                builders[sid - 1].save(f)
            except Exception as e:  # noqa: BLE001
                ctx.growth_finding(f'CIF.save after with_beamline raised {type(e).__name__}', {'calls': conc})
                continue
            chunks = _beamline_chunks(f.getvalue(), self.T)
            # which calls does builder sid consist of?  (only to compare the supplied name / facility text)
            chain, cur = [], sid
            while cur > 1:
                k = created[cur - 2]
                chain.append(k)
                cur = ecalls[k]['parent']
            chain.reverse()
            rec = []
            for j, ch in enumerate(chunks):
                if ch is None:
                    rec.append({'probe': 'unparsable', 'device': 'unparsable', 'name_ok': False, 'facility': 'wrong'})
                    continue
                want = conc[chain[j]] if j < len(chain) else {'name': None, 'facility': None}
                fac = ch.get('diffrn_source.facility')
                rec.append({'probe': ch.get('diffrn_radiation.probe', '-'),
                            'device': ch.get('diffrn_source.device', '-'),
                            'name_ok': ch.get('diffrn_source.beamline') == want['name'],
                            'facility': 'absent' if fac is None else ('ok' if fac == want['facility'] else 'wrong')})
            esaves.append({'id': sid, 'chunks': rec})
        tid = len(self.events) + 1
        self.events.append({'tid': tid, 'calls': ecalls, 'saves': esaves})
        self.concrete[tid] = conc
        return self.events[-1]

    def key(self, ev, clause, k):
        """Stable finding key for a rejected program (k = 1-based call index, 0 if none)."""
        if not k:
            return f'CIF.with_beamline: {clause}'
        c = ev['calls'][k - 1]
        conc = self.concrete[ev['tid']][k - 1]
        if clause == 'known_facility_not_recognised':
            return (f'CIF.with_beamline without Source: facility {str(conc["facility"]).upper()} (spallation source named '
                    'in the library documentation) is not recognised: no probe/device written')
        if clause == 'probe_or_device_invented':
            if c['fc'] == 'unknown':
                return ('CIF.with_beamline without Source: probe/device written for a text that names no facility '
                        f'({conc["shape"] or "other text"})')
            return f'CIF.with_beamline without Source: wrong probe/device for a {c["fc"]} facility'
        if clause == 'source_not_followed':
            return f'CIF.with_beamline with Source(type={c["type"]}, probe={c["probe"]}): written probe/device contradict the Source'
        return f'CIF.with_beamline: {clause} (facility class {c["fc"]}, source given {c["given"]})'


# ------------------------------------------------------------------------------------------ run
class _Lazy:
    """res[label] blocks until that TLC run has finished."""

    def __init__(self, futs):
        self.futs = futs

    def __getitem__(self, label):
        return self.futs[label].result()


def run(ctx):
    """TLC model runs go to a small thread pool; the replays start as soon as the generator run they need is
    done, and the three trace judges run concurrently at the end.  (States are accounted in this thread.)"""
    import os

    _self_test_pools()
    tmp = ctx.tmp
    files = {k: tmp / f'growth_{k}.ndjson' for k in ('cases', 'pkg', 'tok', 'schema', 'table', 'trace_meta', 'trace_cif',
                                                     'schema_cases', 'trace_schema')}
    suffix = '_thorough' if ctx.thorough else ''
    w = int(os.environ.get('VERIF_GROWTH_WORKERS', '0') or 0) or (4 if ctx.thorough else _W)
    jobs = [
        ('gen_meta', 'metadata/Growth_Gen_Metadata.tla', None,
         {'workers': 1, 'timeout': 600, 'gen': True,
          'env': {'CASE_FILE': files['cases'], 'PKG_FILE': files['pkg'], 'TOK_FILE': files['tok'],
                  'SCHEMA_FILE': files['schema']}}),
        ('gen_cif', 'metadata/Growth_Gen_CifBeamline.tla', None,
         {'workers': 1, 'timeout': 600, 'gen': True, 'env': {'TABLE_FILE': files['table']}}),
        ('gen_schema', 'metadata/Growth_Gen_CifSchema.tla', None,
         {'workers': 1, 'timeout': 600, 'gen': True, 'env': {'SCHEMA_CASES': files['schema_cases']}}),
        ('mc_meta', 'metadata/Growth_MetadataModels.tla', f'Growth_MC_MetadataModels{suffix}.cfg',
         {'workers': w, 'timeout': 900}),
        ('mc_cif', 'metadata/Growth_CifBeamline.tla', f'Growth_MC_CifBeamline{suffix}.cfg',
         {'workers': w, 'timeout': 900}),
        ('mc_schema', 'metadata/Growth_MC_CifSchema.tla', f'Growth_MC_CifSchema{suffix}.cfg',
         {'workers': w, 'timeout': 900}),
        ('neg_enum', 'metadata/Growth_MetadataModels.tla', 'Growth_Neg_MetadataModels_enum.cfg',
         {'workers': 1, 'timeout': 300, 'expect_error': True}),
        ('neg_url', 'metadata/Growth_MetadataModels.tla', 'Growth_Neg_MetadataModels_url.cfg',
         {'workers': 1, 'timeout': 300, 'expect_error': True}),
        ('neg_cif', 'metadata/Growth_CifBeamline.tla', 'Growth_Neg_CifBeamline.cfg',
         {'workers': 1, 'timeout': 300, 'expect_error': True}),
        ('neg_schema_copy', 'metadata/Growth_MC_CifSchema.tla', 'Growth_Neg_CifSchema_copy.cfg',
         {'workers': 1, 'timeout': 300, 'expect_error': True}),
        ('neg_schema_core', 'metadata/Growth_MC_CifSchema.tla', 'Growth_Neg_CifSchema_core.cfg',
         {'workers': 1, 'timeout': 300, 'expect_error': True}),
    ]

    def one(job):
        _, module, cfg, kw = job
        kw = {k: v for k, v in kw.items() if k != 'gen'}
        return ctx.tlc(module, cfg, count=False, **kw)

    def judge(req):
        module, cfg, env = req
        return ctx.tlc(module, cfg, workers=1, timeout=900, env=env, count=False)

    with ThreadPoolExecutor(max_workers=5) as ex:
        futs = {job[0]: ex.submit(one, job) for job in jobs}
        res = _Lazy(futs)
        parts = [_run_metadata(ctx, res, files), _run_cif(ctx, res, files), _run_schema(ctx, res, files)]
        tfuts = [ex.submit(judge, next(part)) for part in parts]      # replay, then hand the trace to TLC
        for label, _, _, kw in jobs:
            r = futs[label].result()
            if kw.get('expect_error'):
                continue
            require_ok(ctx, r, f'growth metadata: {label}')
            if not kw.get('gen'):
                ctx.states += r.generated
                ctx.distinct_states += r.distinct
                ctx.transitions += max(r.generated - 1, 0)
        for part, tf in zip(parts, tfuts, strict=True):
            try:
                part.send(tf.result())
            except StopIteration:
                pass
            else:
                raise MachineryError('growth metadata: a part did not finish after its trace verdict')


def _run_metadata(ctx, res, files):
    g = res['gen_meta'].tagged('GEN')      # blocks until the generator run is done
    cases, pkgrows = _load(files['cases']), _load(files['pkg'])
    if not g or g[0][1:] != [len(cases), len(pkgrows)]:
        raise MachineryError(f'growth metadata: case generation incomplete: {g}')
    schema = {r['cls']: r['fields'] for r in _load(files['schema'])}
    toks = {r['kind']: r['tokens'] for r in _load(files['tok'])}
    alts = {r['kind']: r['alt'] for r in _load(files['tok'])}
    mm = _Meta(ctx, schema, toks, alts)

    # ---- spec -> code: every enumerated call, outcome demanded by TLC compared here
    for c in cases:
        ev = mm.observe(c['cls'], c['given'], alt=c['alt'])
        ctx.case(nontrivial_id=('gm', c['cls'], tuple(sorted(c['given'].items())))
                 if any(t != 'absent' for t in c['given'].values()) else None)
        cls = c['cls']
        if ev['out'] == 'raised':
            for k in _culprit_keys(cls, f'exception {ev["exc"]} instead of ValidationError',
                                   [(f, c['given'][f]) for f in c['bad']], schema):
                ctx.growth_finding(k, {'given': c['given']})
            continue
        if ev['out'] != c['verdict']:
            clause = 'invalid input accepted' if ev['out'] == 'built' else 'valid input rejected'
            culprits = c['bad'] if ev['out'] == 'built' else ev['bad']
            for k in _culprit_keys(cls, clause, [(f, c['given'][f]) for f in culprits], schema):
                ctx.growth_finding(k, {'given': c['given'], 'blamed': ev['bad']})
            continue
        if c['verdict'] == 'rejected':
            # a refused call must blame exactly the faulty fields: a faulty field that is not blamed was
            # accepted, a blamed field that is not faulty was rejected
            _blame(ctx, cls, c['given'], ev['bad'], set(ev['bad']) ^ set(c['bad']), schema)
            continue
        diff = [f for f in c['obj'] if ev['obj'].get(f) != c['obj'][f]]
        if diff:
            for k in _culprit_keys(cls, 'wrong normal form', [(f, c['given'][f]) for f in diff], schema):
                ctx.growth_finding(k, {'given': c['given'], 'stored': ev['obj'], 'expected': c['obj']})
            continue
        if not ev['payload_ok']:
            ctx.growth_finding(f'metadata.{cls}: stored value differs from the supplied payload', {'given': c['given']})
        if ev['derived'] != c['derived']:
            for prop, want in c['derived'].items():
                ctx.growth_finding(f'metadata.{cls}.{_PROP.get(prop, prop)}: expected {want}, observed '
                                   f'{ev["derived"].get(prop)}', {'given': c['given']})
        for mode in ('python', 'json'):
            if ev['dump_' + mode] != c['dump_' + mode]:
                d = [f for f in c['dump_' + mode] if ev['dump_' + mode].get(f) != c['dump_' + mode][f]]
                for f in d:
                    ctx.growth_finding(f'metadata.{cls}.{f}: model_dump(mode={mode}) writes '
                                       f'{ev["dump_" + mode].get(f)} instead of {c["dump_" + mode][f]}',
                                       {'given': c['given']})
        for flag, what in (('rt_python', 'model_validate(model_dump()) differs from the object'),
                           ('rt_json', "model_validate(model_dump(mode='json')) differs from the object"),
                           ('rt_jsonstr', 'model_validate_json(model_dump_json()) differs from the object'),
                           ('json_plain', 'JSON-mode dump is not plain data'),
                           ('alt_equal', 'objects built from equivalent arguments are not equal')):
            if not ev[flag]:
                ctx.growth_finding(f'metadata.{cls}: {what}', {'given': c['given'], 'alt': c['alt']})
    n_replayed = len(cases)

    # ---- code -> spec: random calls far beyond two deviations, judged by TLC
    first_random = len(mm.events)
    n_random = 20000 if ctx.thorough else 2500
    rng = ctx.rng
    for _ in range(n_random):
        cls = rng.choice(list(schema))
        given = {}
        # half of the calls use plausible arguments only (in all their spellings) so that built objects and
        # their round trips are frequent; the other half mixes in arbitrary tokens
        p_any = rng.choice([0.0, 0.0, 0.1, 0.3])
        for f, kind in schema[cls].items():
            if rng.random() >= p_any:
                ok = [t for t in toks[kind] if alts[kind][t] != t or t in ('none', 'true', 'false', 'absent')]
                given[f] = rng.choice(ok)
            else:
                given[f] = rng.choice(toks[kind])
        mm.observe(cls, given)
        ctx.case(nontrivial_id=('gmr', cls, tuple(sorted(given.items()))))

    # ---- Software.from_package_metadata on fabricated packages (both directions)
    pkg_events = []
    with _Packages(ctx, mm.M) as pk:
        for row in pkgrows:
            for force_comma in ((False, True) if (row['meta'] == 'present' and row['url']) else (False,)):
                ev = pk.observe(0, row['meta'], row['module'], row['labels'], force_comma)
                ctx.case(nontrivial_id=('gpk', row['meta'], row['module'], tuple(row['labels']), force_comma))
                pkg_events.append(ev)
                clause = None
                if ev['out'] != row['out']:
                    clause = 'pkg_outcome'
                elif row['out'] == 'software':
                    if ev['version_from'] != row['version']:
                        clause = 'pkg_version_source'
                    elif not row['url'] and ev['url_idx'] != 0:
                        clause = 'pkg_url_invented'
                    elif row['url'] and ev['url_idx'] not in row['url']:
                        clause = 'pkg_source_url'
                    elif not ev['doi_none']:
                        clause = 'pkg_doi'
                    elif not ev['name_ok']:
                        clause = 'pkg_name'
                if clause:
                    ctx.growth_finding(_pkg_key(ev, clause), {k: ev[k] for k in ('meta', 'module', 'labels', 'urls', 'got_url', 'out')})
    trace = []
    for ev in mm.events:
        e = {k: v for k, v in ev.items() if k not in ('exc', 'dump_python', 'dump_json')}
        trace.append(e)
    for ev in pkg_events:
        e = {k: v for k, v in ev.items() if k not in ('urls', 'got_url')}
        e['tid'] = len(trace) + 1
        ev['tid'] = e['tid']
        trace.append(e)
    write_ndjson(files['trace_meta'], trace)
    tr = yield ('metadata/Growth_Trace_Metadata.tla', 'Growth_Trace_Metadata.cfg', {'TRACE_FILE': files['trace_meta']})
    require_ok(ctx, tr, 'Growth_Trace_Metadata')
    done = tr.tagged('DONE')
    if not done or done[0][1] != len(trace):
        raise MachineryError(f'Growth_Trace_Metadata judged {done} of {len(trace)} events')
    ctx.traces(len(trace))
    rejects = tr.tagged('REJECT')
    if len(rejects) != done[0][2]:
        raise MachineryError('Growth_Trace_Metadata: REJECT lines do not add up')
    for _, line, tid, clause, detail in rejects:
        ev = trace[line - 1]
        pairs = [tuple(x) for x in (detail.get('$set', []) if isinstance(detail, dict) else detail)]
        if ev['ev'] == 'pkg':
            full = next(p for p in pkg_events if p['tid'] == tid)
            ctx.growth_finding(_pkg_key(full, clause), {k: full[k] for k in ('meta', 'module', 'labels', 'urls', 'got_url', 'out')})
            continue
        cls = ev['cls']
        if clause == 'derived_property':
            for prop, want in pairs:
                ctx.growth_finding(f'metadata.{cls}.{_PROP.get(prop, prop)}: expected {want}, observed '
                                   f'{ev["derived"].get(prop)}', {'given': ev['given']})
            continue
        text = {'invalid_input_accepted': 'invalid input accepted', 'valid_input_rejected': 'valid input rejected',
                'wrong_fields_blamed': 'wrong fields blamed', 'wrong_normal_form': 'wrong normal form',
                'dump_validate_round_trip_python': 'model_validate(model_dump()) differs from the object',
                'dump_validate_round_trip_json': "model_validate(model_dump(mode='json')) differs from the object",
                'dump_validate_round_trip_json_text': 'model_validate_json(model_dump_json()) differs from the object',
                'json_dump_not_plain': 'JSON-mode dump is not plain data',
                'equivalent_inputs_unequal': 'objects built from equivalent arguments are not equal',
                'payload_changed': 'stored value differs from the supplied payload'}.get(clause, clause)
        if clause == 'wrong_normal_form':
            pairs = [(f, ev['given'][f]) for f, _ in pairs]
        if clause == 'wrong_fields_blamed':
            _blame(ctx, cls, ev['given'], ev['bad'], {f for f, _ in pairs}, schema)
            continue
        for k in _culprit_keys(cls, text, pairs, schema) if pairs else [f'metadata.{cls}: {text}']:
            ctx.growth_finding(k, {'given': ev['given'], 'blamed': ev['bad']})
    built = sum(1 for e in mm.events if e['out'] == 'built')
    ctx.sample({'growth_metadata': {'calls_replayed_from_TLC': n_replayed, 'random_calls_judged_by_TLC': n_random,
                                    'built': built, 'rejected': len(mm.events) - built,
                                    'package_cases': len(pkg_events), 'example': mm.events[first_random]['given']}})
    ctx.extra['growth_metadata_calls'] = len(mm.events)
    ctx.extra['growth_metadata_built'] = built
    ctx.extra['growth_metadata_package_cases'] = len(pkg_events)


_PROP = {'maybe_int': 'run_number_maybe_int', 'compact': 'compact_repr'}


def _run_cif(ctx, res, files):
    g = res['gen_cif'].tagged('GEN')
    table = _load(files['table'])
    if not g or g[0][1] != len(table) or len(table) != 42:
        raise MachineryError(f'growth cif: table generation incomplete: {g}')
    cc = _Cif(ctx)
    rng = ctx.rng
    reps = 6 if ctx.thorough else 3

    def names_for(fc):
        if fc == 'absent':
            return [(None, '')]
        if fc == 'unknown':
            return _unknown_names(rng, 2 * reps)
        pool = FACILITIES[fc]
        return [(_case_variant(rng, n) if i else n, '') for n in pool for i in range(2 if ctx.thorough else 1)] \
            + [(_case_variant(rng, n), '') for n in pool]

    # ---- spec -> code: the whole table, several concrete facility names per class; for the row "text that
    # names no facility, no Source" additionally every concatenation of two facility names
    compact = [n for n in _ALL_NAMES if ' ' not in n]
    all_concat = [(a + b, 'concatenation of two facility names') for a in compact for b in compact if a != b]
    for row in table:
        allowed = [(a['probe'], a['device']) for a in row['allowed']]
        extra = all_concat if (row['fc'] == 'unknown' and not row['given']) else []
        for fac, shape in names_for(row['fc']) + extra:
            ev = cc.program([{'parent': 1, 'fc': row['fc'], 'facility': fac, 'shape': shape, 'given': row['given'],
                              'type': row['type'], 'probe': row['probe']}], [2])
            ctx.case(nontrivial_id=('gcb', row['fc'], str(fac), row['given'], row['type'], row['probe']))
            call = ev['calls'][0]
            if call['refused']:
                if ('refused', 'refused') not in allowed:
                    ctx.growth_finding(f'CIF.with_beamline: refused (facility class {row["fc"]}, source given {row["given"]})',
                                       {'facility': fac})
                continue
            if not ev['saves'] or len(ev['saves'][0]['chunks']) != 1:
                ctx.growth_finding('CIF.with_beamline: number_of_beamline_chunks', {'facility': fac, 'event': ev})
                continue
            ch = ev['saves'][0]['chunks'][0]
            got = (ch['probe'], ch['device'])
            if got not in allowed or got == ('refused', 'refused'):
                if not row['given'] and got == ('-', '-'):
                    clause = 'known_facility_not_recognised'
                elif not row['given']:
                    clause = 'probe_or_device_invented'
                else:
                    clause = 'source_not_followed'
                ctx.growth_finding(cc.key(ev, clause, 1), {'facility': fac, 'source': [row['given'], row['type'], row['probe']],
                                                           'written': {'probe': got[0], 'device': got[1]},
                                                           'allowed': row['allowed']})
            elif not ch['name_ok']:
                ctx.growth_finding(cc.key(ev, 'beamline_name', 1), {'facility': fac})
            elif (ch['facility'] == 'ok') != (row['fc'] != 'absent'):
                ctx.growth_finding(cc.key(ev, 'facility_field', 1), {'facility': fac, 'observed': ch['facility']})
    n_table = len(cc.events)

    # ---- code -> spec: random builder programs (trees of builders, several saves), judged by TLC
    n_prog = 1500 if ctx.thorough else 250
    classes = ['absent', 'doc_spallation', 'spallation', 'reactor', 'synchrotron', 'unknown']
    for _ in range(n_prog):
        ncalls = rng.randint(1, 5)
        calls = []
        for k in range(ncalls):
            fc = rng.choice(classes)
            if fc == 'absent':
                fac, shape = None, ''
            elif fc == 'unknown':
                fac, shape = rng.choice(_unknown_names(rng, 2))
            else:
                fac, shape = _case_variant(rng, rng.choice(FACILITIES[fc])), ''
            given = rng.random() < 0.5
            calls.append({'parent': rng.randint(1, k + 1), 'fc': fc, 'facility': fac, 'shape': shape, 'given': given,
                          'type': rng.choice(['spallation', 'reactor', 'synchrotron']) if given else '-',
                          'probe': rng.choice(['neutron', 'xray']) if given else '-'})
        saves = [rng.randint(1, ncalls + 1) for _ in range(rng.randint(1, 3))]
        # saving a parent after its children were made must still give the parent's content
        cc.program(calls, saves)
        ctx.case(nontrivial_id=('gcp', json.dumps(cc.events[-1]['calls'])) if ncalls > 1 else None)
    write_ndjson(files['trace_cif'], cc.events)
    tr = yield ('metadata/Growth_Trace_CifBeamline.tla', 'Growth_Trace_CifBeamline.cfg', {'TRACE_FILE': files['trace_cif']})
    require_ok(ctx, tr, 'Growth_Trace_CifBeamline')
    done = tr.tagged('DONE')
    if not done or done[0][1] != len(cc.events):
        raise MachineryError(f'Growth_Trace_CifBeamline judged {done} of {len(cc.events)} events')
    rejects = tr.tagged('REJECT')
    if len(rejects) != done[0][2]:
        raise MachineryError('Growth_Trace_CifBeamline: REJECT lines do not add up')
    ctx.traces(len(cc.events))
    for _, line, tid, clause, k, s in rejects:
        ev = cc.events[line - 1]
        conc = cc.concrete[tid]
        ctx.growth_finding(cc.key(ev, clause, k), {'call': conc[k - 1] if k else None,
                                                   'source': ev['calls'][k - 1] if k else None,
                                                   'saved_builder': ev['saves'][s - 1] if s else None})
    ctx.sample({'growth_cif_beamline': {'table_rows': len(table), 'concrete_replays': n_table,
                                        'random_programs_judged_by_TLC': n_prog, 'example': cc.events[-1]['calls']}})
    ctx.extra['growth_cif_beamline_table_replays'] = n_table
    ctx.extra['growth_cif_beamline_programs'] = n_prog


# ------------------------------------------------------------------------------------------ CIF schema loop
_CONFORM = ['audit_conform.dict_name', 'audit_conform.dict_version', 'audit_conform.dict_location']


class _Schema:
    def __init__(self, ctx):
        import scipp as sc
        import scippneutron
        from scippneutron import metadata as M
        from scippneutron.io import cif
        from . import lib_textio as T

        self.ctx, self.cif, self.T, self.sc, self.M = ctx, cif, T, sc, M
        self.version = scippneutron.__version__
        self.sch = {'core': cif.CORE_SCHEMA, 'pd': cif.PD_SCHEMA,
                    'x': cif.CIFSchema(name='xCIF', version='1.0', location='https://x.example/x.dic'),
                    'y': cif.CIFSchema(name='yCIF', version='0.2.1', location='https://y.example/dicts/y.dic')}
        self.triples = {(v.name, v.version, v.location): k for k, v in self.sch.items()}
        self.events = []
        self.n_item = 0

    def ids(self, schemas):
        inv = {v: k for k, v in self.sch.items()}
        return sorted(inv.get(s, 'other') for s in schemas)

    def decl(self, d):
        """Refinement: declaration -> the `schema` argument (None / one schema / an iterable)."""
        rng = self.ctx.rng
        if not d['declared']:
            return None
        objs = [self.sch[k] for k in d['set']]
        if len(objs) == 1 and rng.random() < 0.5:
            return objs[0]
        objs = objs + [rng.choice(objs) for _ in range(rng.randint(0, 2))]   # duplicates collapse
        rng.shuffle(objs)
        form = rng.choice(['list', 'tuple', 'set', 'iter'])
        return {'list': list, 'tuple': tuple, 'set': set, 'iter': iter}[form](objs)

    def item(self, d):
        rng, cif, sc = self.ctx.rng, self.cif, self.sc
        self.n_item += 1
        tag = f'growth_item.v{self.n_item}'
        arg = self.decl(d)
        kind = rng.choice(['chunk', 'loop'] if d['declared'] else ['chunk', 'loop', 'dict', 'chunk_noarg'])
        if kind == 'dict':
            return {tag: self.n_item}
        if kind == 'chunk_noarg':
            return cif.Chunk({tag: self.n_item})
        if kind == 'chunk':
            return cif.Chunk({tag: self.n_item}, schema=arg)
        return cif.Loop({tag: sc.array(dims=['i'], values=[1, 2])}, schema=arg)

    def conformance(self, text):
        """(loop present?, rows as schema ids) of the first data block of a written file."""
        blocks, le, pe = self.T.py_read(text)
        if le or pe or not blocks:
            return None
        loops = [it for it in blocks[0]['items'] if it['k'] == 'loop' and it['tags'] and it['tags'][0].startswith('audit_conform.')]
        if not loops:
            return False, [], blocks[0]
        rows = []
        for lp in loops:
            if lp['tags'] != _CONFORM or lp is not blocks[0]['items'][0]:
                rows.append('other')
                continue
            v = lp['vals']
            for r in range(0, len(v), 3):
                rows.append(self.triples.get(tuple(v[r:r + 3]), 'other'))
        return True, rows, blocks[0]

    def block_program(self, steps):
        """steps: [('new', decl) | ('add', block, decl) | ('copy', block) | ('write', block)]."""
        ctx, cif = self.ctx, self.cif
        blocks, esteps = [], []
        for st in steps:
            try:
                if st[0] == 'new':
                    arg = self.decl(st[1])
                    blocks.append(cif.Block('growth') if (arg is None and ctx.rng.random() < 0.5)
                                  else cif.Block('growth', schema=arg))
                    esteps.append({'op': 'new', 'decl': st[1]})
                elif st[0] == 'add':
                    blocks[st[1] - 1].add(self.item(st[2]))
                    esteps.append({'op': 'add', 'block': st[1], 'decl': st[2]})
                elif st[0] == 'copy':
                    blocks.append(blocks[st[1] - 1].copy())
                    esteps.append({'op': 'copy', 'block': st[1]})
                else:
                    b = blocks[st[1] - 1]
                    f = io.StringIO()
                    cif.save_cif(f, b)
                    got = self.conformance(f.getvalue())
                    if got is None:
                        ctx.growth_finding('cif.Block with schemas: written file does not parse', {'steps': esteps})
                        continue
                    esteps.append({'op': 'write', 'block': st[1], 'loop': got[0], 'rows': got[1], 'prop': self.ids(b.schema)})
            except Exception as e:  # noqa: BLE001
                ctx.growth_finding(f'cif.Block/Chunk/Loop with schemas raised {type(e).__name__} ({st[0]})', {'steps': esteps})
                break
        ev = {'ev': 'block', 'tid': len(self.events) + 1, 'steps': esteps}
        self.events.append(ev)
        return ev

    def builder_program(self):
        ctx, cif, sc, M = self.ctx, self.cif, self.sc, self.M
        rng = ctx.rng
        b = cif.CIF('growth')
        npd = 0
        for _ in range(rng.randint(0, 5)):
            op = rng.choice(['beamline', 'reducers', 'authors', 'data', 'calib'])
            if op == 'beamline':
                b = b.with_beamline(M.Beamline(name='Amor', facility=rng.choice([None, 'SINQ', 'ESS'])))
            elif op == 'reducers':
                b = b.with_reducers(*[f'tool {i}' for i in range(rng.randint(1, 2))])
            elif op == 'authors':
                b = b.with_authors(M.Person(name='Jane Doe', corresponding=rng.random() < 0.5))
            elif op == 'data':
                dim = rng.choice(['tof', 'dspacing'])
                x = sc.array(dims=[dim], values=[1.0, 2.0, 3.0], unit='us' if dim == 'tof' else 'angstrom')
                b = b.with_reduced_powder_data(sc.DataArray(sc.array(dims=[dim], values=[4.0, 5.0, 6.0]), coords={dim: x}))
                npd += 1
            else:
                cal = sc.DataArray(sc.array(dims=['cal'], values=[3.4, 0.2]),
                                   coords={'power': sc.array(dims=['cal'], values=[0, 1])})
                b = b.with_powder_calibration(cal)
                npd += 1
        prop = self.ids(b.schema)
        f = io.StringIO()
        t0 = datetime.now(timezone.utc).replace(microsecond=0)
        b.save(f)
        t1 = datetime.now(timezone.utc)
        got = self.conformance(f.getvalue())
        ev = {'ev': 'builder', 'tid': len(self.events) + 1, 'npd': npd, 'loop': False, 'rows': [], 'prop': prop,
              'date_ok': False, 'method_ok': False}
        if got is not None:
            ev['loop'], ev['rows'] = got[0], got[1]
            pairs = {it['tags'][0]: it['vals'][0] for it in got[2]['items'] if it['k'] == 'pair'}
            d = pairs.get('audit.creation_date', '')
            try:
                t = datetime.fromisoformat(d)
                ev['date_ok'] = (t.utcoffset() == timedelta(0) and t.microsecond == 0 and t0 <= t <= t1
                                 and 'T' in d and len(d) in (20, 25))
            except ValueError:
                ev['date_ok'] = False
            ev['method_ok'] = pairs.get('audit.creation_method') == f'Written by scippneutron {self.version}'
        self.events.append(ev)
        return ev


def _run_schema(ctx, res, files):
    g = res['gen_schema'].tagged('GEN')
    cases = _load(files['schema_cases'])
    if not g or g[0][1] != len(cases):
        raise MachineryError(f'growth cif schema: case generation incomplete: {g}')
    ss = _Schema(ctx)
    rng = ctx.rng
    # ---- spec -> code: every enumerated block, rows demanded by TLC compared here
    for c in cases:
        steps = [('new', c['own'])] + [('add', 1, d) for d in c['items']] + [('write', 1)]
        ev = ss.block_program(steps)
        ctx.case(nontrivial_id=('gcs', json.dumps([c['own'], c['items']])) if (c['own']['declared'] or c['items']) else None)
        w = [s for s in ev['steps'] if s['op'] == 'write']
        if not w:
            continue
        w = w[0]
        want = sorted(c['rows'])
        if w['loop'] != bool(want) or sorted(w['rows']) != want or sorted(w['prop']) != want:
            ctx.growth_finding('cif.Block: conformance loop differs from the set of declared schemas',
                               {'own': c['own'], 'items': c['items'], 'written_rows': w['rows'], 'block.schema': w['prop'],
                                'expected': want})
    n_enum = len(ss.events)
    # ---- code -> spec: random block programs with copies, and builder programs
    decls = [{'declared': False, 'set': []}] + [{'declared': True, 'set': s} for s in
                                                (['core'], ['pd'], ['x'], ['y'], ['pd', 'x'], ['x', 'y'], ['core', 'pd', 'x', 'y'])]
    n_prog = 1500 if ctx.thorough else 250
    for _ in range(n_prog):
        steps = [('new', rng.choice(decls))]
        nb = 1
        for _ in range(rng.randint(1, 8)):
            op = rng.choice(['add', 'add', 'add', 'copy', 'write', 'new'])
            if op == 'new':
                steps.append(('new', rng.choice(decls)))
                nb += 1
            elif op == 'copy':
                steps.append(('copy', rng.randint(1, nb)))
                nb += 1
            elif op == 'add':
                steps.append(('add', rng.randint(1, nb), rng.choice(decls)))
            else:
                steps.append(('write', rng.randint(1, nb)))
        for i in range(1, nb + 1):
            steps.append(('write', i))
        ss.block_program(steps)
        ctx.case(nontrivial_id=('gcsp', json.dumps(ss.events[-1]['steps'])))
    n_builder = 600 if ctx.thorough else 120
    for _ in range(n_builder):
        ev = ss.builder_program()
        ctx.case(nontrivial_id=('gcsb', ev['npd'], tuple(ev['rows'])) if ev['npd'] else None)
    write_ndjson(files['trace_schema'], ss.events)
    tr = yield ('metadata/Growth_Trace_CifSchema.tla', 'Growth_Trace_CifSchema.cfg', {'TRACE_FILE': files['trace_schema']})
    require_ok(ctx, tr, 'Growth_Trace_CifSchema')
    done = tr.tagged('DONE')
    if not done or done[0][1] != len(ss.events):
        raise MachineryError(f'Growth_Trace_CifSchema judged {done} of {len(ss.events)} events')
    rejects = tr.tagged('REJECT')
    if len(rejects) != done[0][2]:
        raise MachineryError('Growth_Trace_CifSchema: REJECT lines do not add up')
    ctx.traces(len(ss.events))
    for _, line, _tid, clause, k in rejects:
        ev = ss.events[line - 1]
        if ev['ev'] == 'builder':
            key = {'builder_schema_property': 'cif.CIF.schema ("schemas used for the file") does not tell whether pdCIF is used',
                   'builder_rows_differ_from_used_schemas': 'cif.CIF.save: conformance loop differs from {coreCIF} + pdCIF iff powder items',
                   'audit_creation_date': 'cif.CIF.save: audit.creation_date is not the UTC time of saving in ISO 8601 (seconds)',
                   'audit_creation_method': "cif.CIF.save: audit.creation_method is not 'Written by scippneutron <version>'"}.get(
                       clause, f'cif.CIF.save: {clause}')
            ctx.growth_finding(key, {'event': ev})
            continue
        steps = ev['steps'][:k]
        blk = steps[-1]['block'] if steps else 0
        # was the written block made by copy() from a block that uses no schema at all?
        origin = [s for s in steps if s['op'] in ('new', 'copy')]
        made_by_copy = 0 < blk <= len(origin) and origin[blk - 1]['op'] == 'copy'
        if clause == 'conformance_loop_presence' and made_by_copy and steps[-1]['rows'] == ['core']:
            key = 'cif.Block.copy of a block that uses no schema declares coreCIF (the copy writes a conformance loop, the original none)'
        else:
            key = f'cif.Block: {clause}' + (' (block made by copy)' if made_by_copy else '')
        ctx.growth_finding(key, {'steps': steps})
    ctx.sample({'growth_cif_schema': {'enumerated_blocks': n_enum, 'random_block_programs': n_prog,
                                      'builder_programs': n_builder}})
    ctx.extra['growth_cif_schema_events'] = len(ss.events)
