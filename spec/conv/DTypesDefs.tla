----------------------------- MODULE DTypesDefs -----------------------------
(* Precision contract of the kernels (property C07): single-precision *data operands* give a  *)
(* single-precision result, every other numeric operand type gives double precision.          *)
(* Which operands are data operands is tabulated per kernel (UnitsKernelsDefs!Kernel.data).   *)
EXTENDS Integers, FiniteSets

AllDTypes == {"float64", "float32", "int64", "int32"}
IsInt(d) == d \in {"int64", "int32"}

(* D: function operand -> dtype; data: set of data operands.  Bug = "dtype_any" is the wrong *)
(* rule "single as soon as any operand is single" (negative control).                        *)
ResultDType(data, D, Bug) ==
    IF Bug = "dtype_any"
    THEN IF \E a \in DOMAIN D : D[a] = "float32" THEN "float32" ELSE "float64"
    ELSE IF data # {} /\ \A a \in data : D[a] = "float32" THEN "float32" ELSE "float64"
=============================================================================
