"""GROWTH module G07: the NeXus metadata readers of scippneutron.metadata.

    Beamline.from_nexus_entry(entry, *, instrument_name=None)
    Measurement.from_nexus_entry(entry)                       (+ Measurement.run_number_maybe_int on the result,
                                                                 + a short step into io.cif: CIF.with_beamline(...).save)

Beyond the 20 listed properties; deviations are reported with ``ctx.growth_finding`` only.  The repository's own
tests of these readers need a downloaded file; here every entry is an in-memory HDF5 file (h5py core driver, no
backing store) wrapped in ``scippnexus.Group``.

Specs (spec/metadata/, prefix ``Growth_``):

  Growth_NexusMetadataDefs.tla   (a) decision tables, written from the docstrings and the NeXus definitions of
                                 NXentry / NXinstrument: which NXinstrument is meant (0 / 1 / several direct children,
                                 instrument_name absent / names one of them / names something else = no verdict), what
                                 its ``name`` field gives (absent -> refusal; every admissible HDF5 spelling of one
                                 string -> exactly that text; empty / blank / padded texts; ``short_name`` attribute),
                                 facility / site only for instruments that stand there (ESS, SINQ@PSI; a library may
                                 know a subset, never a wrong pair; nothing for made-up names), recognition independent
                                 of letter case;  Measurement: model field <- NXentry field, absent -> None, text
                                 unchanged in every spelling, ISO 8601 times: naive stays naive with the same wall
                                 clock, zoned gives the same instant (minutes-since-epoch arithmetic, no 32-bit
                                 overflow), fraction cut or rounded to microseconds, a text without a time gives a
                                 refusal or None but never a time.  Three-valued: accept / refuse / unspecified.
  Growth_NexusMetadata.tla       (b) step machine: the entry is built item by item in any order and read by a procedure
                                 that walks the file in creation order; invariants Admitted, Delivers, OrderFree,
                                 ReadsStable, CaseInsensitive, action property ReadsDoNotWrite.  Bounds in
                                 Growth_MC_NexusMetadata.tla: quick 13 items / 4 per entry, thorough 28 items / 4 per
                                 entry plus 13 items / 5 per entry (_deep.cfg).  Negative controls (Bug): first,
                                 firstadmitted, ignorearg, swapids, endfromstart, tzdrop, case.
  Growth_Gen_NexusMetadata.tla   spec -> code: the rows of both tables with what they admit, the universe of the step
                                 machine, and (simulation) random build orders with the rows for their content.
  Growth_Trace_NexusMetadata.tla code -> spec: judge of every recorded read (table rows, build orders, seeded random
                                 entries far beyond the model: many instruments, deeper nesting, unrelated groups and
                                 near-miss field names, unicode / very long texts, every storage form, random instants).

Refinement mapping (abstract token -> HDF5 content) is `_render_*` / `_write_string`; the abstraction of results back
to the vocabulary of the spec is `_abstract_*`.  The oracle never calls the code under test: expected values come from
TLC (rows) or are judged by TLC (events); the harness only compares a returned text with the text it wrote itself and
turns a returned datetime into (day, second, microsecond) with the standard library.  Spec -> code and code -> spec
are cross-checked: for every table row the verdict computed here from the exported row must agree with the verdict of
the trace judge, otherwise the run is a machinery failure.

Not judged (the documentation is silent; counted in ctx.extra['growth_nexusmeta_observations']): instrument_name that
names no NXinstrument child, fields that are not one string, the exception class of a refusal, whether an empty / blank
name is refused, whether padded names are stripped or recognised, the utcoffset of an aware result (only the instant).
"""

from __future__ import annotations

import copy
import hashlib
import io
import json
import os
import threading
import time
from datetime import date, datetime, timedelta, timezone

import numpy as np

from .core import MachineryError
from .tlc import require_ok, write_ndjson

PREFIX = 'growth/nexusmeta'
SPEC = 'metadata/Growth_MC_NexusMetadata.tla'
GEN = 'metadata/Growth_Gen_NexusMetadata.tla'
JUDGE = 'metadata/Growth_Trace_NexusMetadata.tla'
NEGS = ('first', 'tzdrop', 'ignorearg', 'swapids', 'case', 'endfromstart', 'firstadmitted')
NON_TABLE_CLAUSES = {'the_file_is_modified_by_reading', 'a_second_read_gives_a_different_outcome',
                     'the_outcome_depends_on_the_creation_order',
                     'model_dump_then_model_validate_gives_a_different_object', 'run_number_maybe_int'}

# ------------------------------------------------------------------------------------------ vocabulary (harness side)
CANON = {'beer': 'BEER', 'bifrost': 'BIFROST', 'cspec': 'CSPEC', 'dream': 'DREAM', 'estia': 'ESTIA', 'freia': 'FREIA',
         'heimdal': 'HEIMDAL', 'loki': 'LoKI', 'magic': 'MAGiC', 'miracles': 'MIRACLES', 'nmx': 'NMX', 'odin': 'ODIN',
         'skadi': 'SKADI', 'tbl': 'TBL', 'trex': 'TREX', 'vespa': 'VESPA',
         'amor': 'Amor', 'boa': 'BOA', 'camea': 'CAMEA', 'dmc': 'DMC', 'eiger': 'EIGER', 'focus': 'FOCUS', 'hrpt': 'HRPT',
         'icon': 'ICON', 'neutra': 'NEUTRA', 'poldi': 'POLDI', 'tasp': 'TASP', 'zebra': 'ZEBRA',
         'powgen': 'POWGEN', 'nomad': 'NOMAD', 'wish': 'WISH', 'polaris': 'Polaris', 'd20': 'D20', 'in5': 'IN5',
         'fakeinst': 'FakeInst', 'dream2': 'DREAM2', 'xloki': 'xLoKI', 'amorph': 'Amorph', 'my instrument': 'My Instrument',
         'ess': 'ESS', 'estia b': 'ESTIA B', '': ''}
# where the instruments of the vocabulary stand; must equal the sets of the specification (checked against META)
VOCAB = {'ess': ['beer', 'bifrost', 'cspec', 'dream', 'estia', 'freia', 'heimdal', 'loki', 'magic', 'miracles', 'nmx',
                 'odin', 'skadi', 'tbl', 'trex', 'vespa'],
         'sinq': ['amor', 'boa', 'camea', 'dmc', 'eiger', 'focus', 'hrpt', 'icon', 'neutra', 'poldi', 'tasp', 'zebra'],
         'elsewhere': ['powgen', 'nomad', 'wish', 'polaris', 'd20', 'in5'],
         'madeup': ['fakeinst', 'dream2', 'xloki', 'amorph', 'my instrument', 'ess', 'estia b']}
PLAIN = ['diamond cw0.533 4.22e12 60Hz [10x30]', 'IPTS-2767', 'Vanadium rod, 300 K', 'p12345 calibration', 'EXP-1',
         'run 12b', "O'Brien's sample", 'LaB6 standard; 2nd try', 'proposal 2024/07', 'empty can']
DIGITS = ['4844', '007', '0', '123456789012345678901234567890', '31', '60213']
UNICODE = ['\xdcberstruktur \xb5-beam \xc5', '测量 α-quartz', 'na\xefve caf\xe9 ☃', 'T = 4 K, ΔE']
GARBAGE = ['garbage', 'unknown', '????']
EPOCH_N = datetime(1970, 1, 1)
EPOCH_A = datetime(1970, 1, 1, tzinfo=timezone.utc)
ADMISSIBLE = ('str', 'bytes', 'fixed', 'fixed_padded', 'vlen_ascii', 'arr1', 'arr1_fixed')
FOREIGN = ('arr2', 'int', 'group')
STR_KEYS = ('title', 'entry_identifier', 'experiment_identifier')
TIME_KEYS = ('start_time', 'end_time')
SRC = {'title': 'title', 'run_number': 'entry_identifier', 'experiment_id': 'experiment_identifier'}


def _render_name(inst, var):
    base = CANON[inst]
    if var == 'canon':
        return base
    if var == 'lower':
        return base.lower()
    if var == 'upper':
        return base.upper()
    if var == 'title':
        return base.title()
    if var == 'padded':
        return ' ' + base + '  '
    raise MachineryError(f'{PREFIX}: no refinement for name variant {var}')


def _decimal(d):
    v = 0
    for ch in d:
        v = v * 10 + '0123456789'.index(ch)
    return v


def _render_time(tv, rng):
    """ISO 8601 extended format of an abstract time field (refinement mapping; standard library only)."""
    if tv['kind'] == 'garbage':
        return rng.choice(GARBAGE)
    if tv['kind'] == 'empty':
        return ''
    d = date(1970, 1, 1) + timedelta(days=tv['day'])
    s = tv['sec']
    text = f'{d.year:04d}-{d.month:02d}-{d.day:02d}T{s // 3600:02d}:{s // 60 % 60:02d}:{s % 60:02d}'
    ns = tv['ns']
    if ns:
        digits = f'{ns:09d}'.rstrip('0')
        widths = [w for w in (len(digits), 3, 6, 9) if w >= len(digits)]
        digits = digits.ljust(rng.choice(widths), '0')
        text += '.' + digits
    if tv['zone'] == 'Z':
        text += 'Z'
    elif tv['zone'] == 'offset':
        off = tv['off']
        sign = '-' if off < 0 else '+'
        text += f'{sign}{abs(off) // 60:02d}:{abs(off) % 60:02d}'
    return text


def _self_test_vocabulary(meta):
    for k, v in VOCAB.items():
        if set(meta[k]) != set(v):
            raise MachineryError(f'{PREFIX}: instrument class {k} of the spec and of the harness differ')
    insts = set(meta['ess']) | set(meta['sinq']) | set(meta['elsewhere']) | set(meta['madeup'])
    missing = insts - set(CANON)
    if missing:
        raise MachineryError(f'{PREFIX}: no canonical spelling for instruments {sorted(missing)}')
    if set(meta['admissible']) != set(ADMISSIBLE) or set(meta['foreign']) != set(FOREIGN):
        raise MachineryError(f'{PREFIX}: spellings of the spec and of the harness differ')
    for i in insts:
        texts = {v: _render_name(i, v) for v in meta['vars']}
        for v, t in texts.items():
            if t.strip().lower() != i:
                raise MachineryError(f'{PREFIX}: rendering of {i}/{v} = {t!r} does not fold to the instrument key')
            if (v == 'padded') != (t != t.strip()):
                raise MachineryError(f'{PREFIX}: padding of {i}/{v}')
    for t in PLAIN:
        if not any(c.isalpha() for c in t) or t != t.strip() or not t.isascii():
            raise MachineryError(f'{PREFIX}: plain pool text {t!r}')
    for t in DIGITS:
        if not (t.isascii() and t.isdigit()):
            raise MachineryError(f'{PREFIX}: digits pool text {t!r}')
    for t in UNICODE:
        if t.isascii() or t != t.strip():
            raise MachineryError(f'{PREFIX}: unicode pool text {t!r}')
    # the renderer of times against the standard library
    tv = {'kind': 'iso', 'day': 19782, 'sec': 86399, 'ns': 123456000, 'zone': 'offset', 'off': -570}

    class _R:
        @staticmethod
        def choice(x):
            return x[0]
    want = datetime(2024, 2, 29, 23, 59, 59, 123456, tzinfo=timezone(timedelta(minutes=-570)))
    if datetime.fromisoformat(_render_time(tv, _R)) != want:
        raise MachineryError(f'{PREFIX}: time renderer self-test failed: {_render_time(tv, _R)}')


# ------------------------------------------------------------------------------------------ TLC runs in threads
class _Par:
    def __init__(self, ctx):
        self.ctx, self.jobs = ctx, []

    def start(self, module, cfg, **kw):
        job = {'res': None, 'exc': None, 'count': not kw.get('expect_error', False) and kw.pop('count', True)}
        kw['count'] = False

        def wrap():
            try:
                job['res'] = self.ctx.tlc(module, cfg, **kw)
            except BaseException as e:  # noqa: BLE001
                job['exc'] = e

        job['t'] = threading.Thread(target=wrap, daemon=True)
        job['t'].start()
        self.jobs.append(job)
        time.sleep(0.03)
        return job

    def chain(self, runs):
        """Run several TLC jobs one after the other in ONE background thread (keeps the number of JVMs down)."""
        job = {'res': None, 'exc': None, 'count': False, 'results': []}

        def wrap():
            try:
                for module, cfg, kw in runs:
                    job['results'].append(self.ctx.tlc(module, cfg, **{**kw, 'count': False}))
                job['res'] = job['results'][-1] if job['results'] else None
            except BaseException as e:  # noqa: BLE001
                job['exc'] = e

        job['t'] = threading.Thread(target=wrap, daemon=True)
        job['t'].start()
        self.jobs.append(job)
        time.sleep(0.03)
        return job

    def join(self, job):
        job['t'].join()
        if job['exc'] is not None:
            raise job['exc']
        r = job['res']
        if job['count'] and not job.get('counted'):
            job['counted'] = True
            self.ctx.states += r.generated
            self.ctx.distinct_states += r.distinct
            self.ctx.transitions += max(r.generated - 1, 0)
        return r

    def join_all(self):
        first = None
        for j in self.jobs:
            try:
                self.join(j)
            except BaseException as e:  # noqa: BLE001
                first = first or e
        if first is not None:
            raise first


# ------------------------------------------------------------------------------------------ building real entries
class _Lab:
    """Builds in-memory NeXus entries, reads them with the real readers, abstracts what happened."""

    def __init__(self, ctx):
        import h5py
        import scippnexus as snx
        from scippneutron import metadata as M

        self.ctx, self.h5, self.snx, self.M = ctx, h5py, snx, M
        self.defs = snx.base_definitions()
        self.vl = h5py.string_dtype('utf-8')
        self.nfile = 0
        self.open = []
        self.events = []
        self.info = []            # per event: concrete details for the finding
        self.obs_count = {}       # observations where the documentation is silent
        self.tzlabel = ''

    # ---- observations (not judged)
    def note(self, what):
        self.obs_count[what] = self.obs_count.get(what, 0) + 1

    # ---- files
    def new_file(self, track):
        self.nfile += 1
        f = self.h5.File(str(self.ctx.tmp / f'g07-{os.getpid()}-{self.nfile}.h5'), 'w', driver='core',
                         backing_store=False, track_order=track)
        self.open.append(f)
        e = f.create_group('entry', track_order=track)
        e.attrs['NX_class'] = 'NXentry'
        return f, e

    def close(self, f):
        try:
            f.close()
        finally:
            if f in self.open:
                self.open.remove(f)

    def close_all(self):
        for f in list(self.open):
            try:
                f.close()
            except Exception:  # noqa: BLE001
                pass
        self.open.clear()

    def write_string(self, parent, key, text, sp):
        """One NeXus string in the HDF5 spelling `sp`.  A text that the spelling cannot hold validly (non-ASCII
        bytes in an ASCII-declared type) is stored in the closest valid one (UTF-8 declared)."""
        h5, b, ascii_ = self.h5, text.encode('utf-8'), text.isascii()
        n = max(1, len(b))
        fixed = (lambda m: np.dtype(f'S{m}')) if ascii_ else (lambda m: h5.string_dtype('utf-8', m))
        if sp == 'str':
            return parent.create_dataset(key, data=text, dtype=self.vl)
        if sp == 'bytes':
            return parent.create_dataset(key, data=b) if ascii_ else parent.create_dataset(key, data=text, dtype=self.vl)
        if sp == 'fixed':
            return parent.create_dataset(key, data=np.array(b, dtype=fixed(n)), dtype=fixed(n))
        if sp == 'fixed_padded':
            return parent.create_dataset(key, data=np.array(b, dtype=fixed(n + 13)), dtype=fixed(n + 13))
        if sp == 'vlen_ascii':
            return parent.create_dataset(key, data=text, dtype=h5.string_dtype('ascii') if ascii_ else self.vl)
        if sp == 'arr1':
            return parent.create_dataset(key, data=[text], dtype=self.vl)
        if sp == 'arr1_fixed':
            return parent.create_dataset(key, data=np.array([b], dtype=fixed(n)), dtype=fixed(n))
        if sp == 'arr2':
            return parent.create_dataset(key, data=[text, text + ' (2)'], dtype=self.vl)
        if sp == 'int':
            return parent.create_dataset(key, data=42)
        if sp == 'group':
            g = parent.create_group(key)
            g.create_dataset('value', data=text, dtype=self.vl)
            return g
        raise MachineryError(f'{PREFIX}: no refinement for spelling {sp}')

    def build(self, plan, order=None, track=True):
        """plan: list of ops (dicts) in canonical order; order: permutation (indices into plan) respecting
        parent-before-child, or None.  Returns (file, entry)."""
        f, e = self.new_file(track)
        seq = plan if order is None else [plan[i] for i in order]
        for op in seq:
            kind = op['op']
            if kind == 'group':
                g = e.create_group(op['path'], track_order=track)
                if op['cls']:
                    # the class attribute in both spellings NeXus writers use (variable-length / fixed-length)
                    g.attrs['NX_class'] = op['cls'] if op.get('attr', 'str') == 'str' else np.bytes_(op['cls'].encode())
            elif kind == 'name':
                ds = self.write_string(e[op['path']], 'name', op['text'], op['sp'])
                if op.get('short') is not None:
                    ds.attrs['short_name'] = op['short']
            elif kind in ('str', 'time'):
                self.write_string(e, op['key'], op['text'], op['sp'])
            elif kind == 'extra':
                parent = e[op['path']] if op['path'] else e
                v = op['value']
                if isinstance(v, str):
                    parent.create_dataset(op['key'], data=v, dtype=self.vl)
                else:
                    parent.create_dataset(op['key'], data=v)
            else:
                raise MachineryError(f'{PREFIX}: unknown op {kind}')
        f.flush()
        return f, e

    def image(self, f):
        """Hash of the complete HDF5 file image (every byte of the in-memory file)."""
        f.flush()
        return hashlib.sha1(f.id.get_file_image()).hexdigest()

    def walk(self, f):
        """Walk the whole file: names, classes, attributes, types, shapes and values of every object."""
        h = hashlib.sha1()

        def attrs(o):
            return sorted((k, repr(np.asarray(v).tolist()), str(np.asarray(v).dtype)) for k, v in o.attrs.items())

        def visit(name, o):
            if isinstance(o, self.h5.Dataset):
                v = o[()]
                raw = v.tobytes() if isinstance(v, np.ndarray) and v.dtype.kind != 'O' else repr(np.asarray(v).tolist()).encode()
                h.update(repr(('D', name, str(o.dtype), o.shape, attrs(o))).encode())
                h.update(raw)
            else:
                h.update(repr(('G', name, list(o.keys()), attrs(o))).encode())

        h.update(repr(attrs(f)).encode())
        f.visititems(visit)
        return h.hexdigest()

    def wrap(self, e):
        return self.snx.Group(e, definitions=self.defs)

    # ---- abstraction of results
    def abstract_beamline(self, b, raw, short):
        M = self.M
        if not isinstance(b, M.Beamline):
            return {'out': 'beamline', 'name': 'other', 'fac': 'other', 'site': 'other', 'rev': 'set'}

        def tok(v):
            return 'none' if v is None else (v if v in ('ESS', 'SINQ', 'PSI') else 'other')

        if raw is not None and b.name == raw:
            name = 'raw'
        elif raw is not None and b.name == raw.strip():
            name = 'stripped'
        elif short is not None and b.name == short:
            name = 'short'
        else:
            name = 'other'
        return {'out': 'beamline', 'name': name, 'fac': tok(b.facility), 'site': tok(b.site),
                'rev': 'none' if b.revision is None else 'set'}

    @staticmethod
    def abstract_str(v, texts):
        if v is None:
            return {'src': '-', 'form': 'none'}
        if not isinstance(v, str):
            return {'src': '-', 'form': 'other'}
        if v == '':
            return {'src': '-', 'form': 'empty'}
        for k, t in texts.items():
            if v == t:
                return {'src': k, 'form': 'raw'}
        for k, t in texts.items():
            if v == t.strip():
                return {'src': k, 'form': 'stripped'}
        return {'src': '-', 'form': 'other'}

    @staticmethod
    def abstract_time(v):
        if v is None:
            return {'kind': 'none', 'day': 0, 'sec': 0, 'micro': 0, 'off': 0}
        if not isinstance(v, datetime):
            return {'kind': 'other', 'day': 0, 'sec': 0, 'micro': 0, 'off': 0}
        off = v.utcoffset()
        if off is None:
            d = v - EPOCH_N
            return {'kind': 'naive', 'day': d.days, 'sec': d.seconds, 'micro': d.microseconds, 'off': 0}
        d = v - EPOCH_A
        return {'kind': 'aware', 'day': d.days, 'sec': d.seconds, 'micro': d.microseconds,
                'off': int(off.total_seconds() // 60)}

    # ---- reads
    def read_beamline(self, g, arg, raw_of, short_of):
        """-> (obs, exc, rt, beamline).  raw_of / short_of: group path -> text of its name field / short_name."""
        kw = {'instrument_name': arg['target']} if arg['given'] else {}
        try:
            b = self.M.Beamline.from_nexus_entry(g, **kw)
        except Exception as ex:  # noqa: BLE001 - a refusal; whether one is allowed is the judge's business
            return {'out': 'refused', 'name': '-', 'fac': 'none', 'site': 'none', 'rev': 'none'}, type(ex).__name__, True, None
        # which group was meant?  (only to pick the text to compare the returned name with)
        cand = None
        if arg['given']:
            cand = arg['target']
        else:
            direct = [p for p in raw_of if raw_of[p][1] == 'NXinstrument' and '/' not in p]
            cand = direct[0] if len(direct) == 1 else None
        raw = raw_of[cand][0] if cand in raw_of else None
        obs = self.abstract_beamline(b, raw, short_of.get(cand))
        rt = True
        try:
            C = self.M.Beamline
            rt = bool(C.model_validate(b.model_dump()) == b) and bool(C.model_validate(b.model_dump(mode='json')) == b) \
                and bool(C.model_validate_json(b.model_dump_json()) == b)
        except Exception:  # noqa: BLE001
            rt = False
        return obs, '', rt, b

    def read_measurement(self, g, texts):
        """-> (obs, exc, rt, maybe_int)"""
        none_t = {'kind': 'none', 'day': 0, 'sec': 0, 'micro': 0, 'off': 0}
        none_s = {'src': '-', 'form': 'none'}
        try:
            m = self.M.Measurement.from_nexus_entry(g)
        except Exception as ex:  # noqa: BLE001
            return ({'out': 'refused', 'title': none_s, 'run_number': none_s, 'experiment_id': none_s, 'doi': 'none',
                     'start_time': none_t, 'end_time': none_t}, type(ex).__name__, True, 'none')
        if not isinstance(m, self.M.Measurement):
            other = {'src': '-', 'form': 'other'}
            return ({'out': 'measurement', 'title': other, 'run_number': other, 'experiment_id': other, 'doi': 'set',
                     'start_time': none_t, 'end_time': none_t}, '', False, 'other')
        obs = {'out': 'measurement',
               'title': self.abstract_str(m.title, texts), 'run_number': self.abstract_str(m.run_number, texts),
               'experiment_id': self.abstract_str(m.experiment_id, texts),
               'doi': 'none' if m.experiment_doi is None else 'set',
               'start_time': self.abstract_time(m.start_time), 'end_time': self.abstract_time(m.end_time)}
        try:
            C = self.M.Measurement
            rt = bool(C.model_validate(m.model_dump()) == m) and bool(C.model_validate(m.model_dump(mode='json')) == m) \
                and bool(C.model_validate_json(m.model_dump_json()) == m)
            if rt:
                # the JSON dump keeps the instants
                back = C.model_validate(m.model_dump(mode='json'))
                rt = self.abstract_time(back.start_time)['kind'] == obs['start_time']['kind'] \
                    and self.abstract_time(back.end_time)['kind'] == obs['end_time']['kind']
        except Exception:  # noqa: BLE001
            rt = False
        try:
            v = m.run_number_maybe_int
            if v is None:
                mi = 'none'
            elif isinstance(v, int) and not isinstance(v, bool):
                rn = m.run_number
                mi = 'int' if (isinstance(rn, str) and rn.isascii() and rn.isdigit() and v == _decimal(rn)) else 'other'
            elif isinstance(v, str):
                mi = 'text' if v == m.run_number else 'other'
            else:
                mi = 'other'
        except Exception as ex:  # noqa: BLE001
            mi = 'raised_' + type(ex).__name__
        return obs, '', rt, mi


# ------------------------------------------------------------------------------------------ abstract -> plan
def _name_op(path, nf):
    text = _render_name(nf['inst'], nf['var'])
    short = _render_name(nf['short_inst'], 'canon') if nf['short_present'] else None
    return {'op': 'name', 'path': path, 'sp': nf['sp'], 'text': text, 'short': short}


def _pick_texts(rng, strs):
    """Pairwise different concrete texts for the present string fields of one entry."""
    texts, used = {}, set()
    for k in STR_KEYS:
        sv = strs[k]
        if not sv['present']:
            continue
        cls = sv['cls']
        for _ in range(50):
            if cls == 'plain':
                t = rng.choice(PLAIN)
            elif cls == 'digits':
                t = rng.choice(DIGITS)
            elif cls == 'unicode':
                t = rng.choice(UNICODE)
            elif cls == 'long':
                t = f'long {k} ' + rng.choice(['ab', 'xyz ', '0123456789']) * rng.choice([600, 2500]) + ' end'
            elif cls == 'empty':
                t = ''
            elif cls == 'padded':
                t = '  ' + rng.choice(PLAIN) + ' '
            else:
                raise MachineryError(f'{PREFIX}: no refinement for string class {cls}')
            if cls == 'empty' or (t not in used and t.strip() not in used):
                break
        else:
            raise MachineryError(f'{PREFIX}: could not draw distinct texts')
        texts[k] = t
        used.update({t, t.strip()})
    return texts


def _entry_ops(rng, strs, times):
    texts = _pick_texts(rng, strs)
    ops = [{'op': 'str', 'key': k, 'sp': strs[k]['sp'], 'text': texts[k]} for k in STR_KEYS if strs[k]['present']]
    ttexts = {}
    for k in TIME_KEYS:
        if times[k]['present']:
            ttexts[k] = _render_time(times[k], rng)
            ops.append({'op': 'time', 'key': k, 'sp': times[k]['sp'], 'text': ttexts[k]})
    return ops, {k: t for k, t in texts.items() if t != ''}, ttexts


def _group_ops(groups, attr_bytes=False):
    """groups: list of [gname, cls, nested, name]; parents first."""
    ops = []
    for g in sorted(groups, key=lambda g: (g['gname'].count('/'), g['gname'])):
        ops.append({'op': 'group', 'path': g['gname'], 'cls': g['cls'], 'attr': 'bytes' if attr_bytes else 'str'})
    for g in groups:
        if g['name']['present']:
            ops.append(_name_op(g['gname'], g['name']))
    return ops


def _legal_order(rng, plan):
    """A random creation order in which every object is created after its parent group."""
    remaining = list(range(len(plan)))
    made, order = set(), []

    def ready(i):
        op = plan[i]
        if op['op'] == 'group':
            p = op['path'].rsplit('/', 1)[0] if '/' in op['path'] else ''
            return p == '' or p in made
        if op['op'] in ('name', 'extra'):
            return op['path'] == '' or op['path'] in made
        return True

    while remaining:
        cands = [i for i in remaining if ready(i)]
        if not cands:
            raise MachineryError(f'{PREFIX}: plan has an object without parent: {plan}')
        i = rng.choice(cands)
        remaining.remove(i)
        order.append(i)
        if plan[i]['op'] == 'group':
            made.add(plan[i]['path'])
    return order


def _maps(plan):
    cls = {op['path']: op['cls'] for op in plan if op['op'] == 'group'}
    raw_of = {op['path']: (op['text'], cls.get(op['path'], '')) for op in plan if op['op'] == 'name'}
    short_of = {op['path']: op['short'] for op in plan if op['op'] == 'name' and op.get('short') is not None}
    return raw_of, short_of


# ------------------------------------------------------------------------------------------ spec -> code comparators
def _bl_deviates(row, obs):
    if row['kind'] == 'unspecified':
        return False
    if row['kind'] == 'refuse':
        return obs['out'] != 'refused'
    if obs['out'] == 'refused':
        return not row['mayrefuse']
    if obs['name'] not in row['names']:
        return True
    if not row['anyfac'] and [obs['fac'], obs['site']] not in row['pairs']:
        return True
    return bool(row['rev_none'] and obs['rev'] != 'none')


def _ms_deviates(rec, obs):
    if not rec['specified']:
        return False
    if obs['out'] == 'refused':
        return not rec['mayrefuse']
    ex = rec['expect']
    for f in ('title', 'run_number', 'experiment_id'):
        if obs[f] not in ex[f]:
            return True
    if obs['doi'] != 'none':
        return True
    for f in TIME_KEYS:
        o, w = obs[f], ex[f]
        if o['kind'] != w['kind']:
            return True
        if w['kind'] != 'none' and ([o['day'] * 1440 + o['sec'] // 60, o['sec'] % 60] != [w['mins'], w['s']]
                                    or o['micro'] not in w['micros']):
            return True
    return False


# ------------------------------------------------------------------------------------------ event recording
def _observe_file(lab, family, plan, *, groups=None, args=(), rows=None, ms=None, order=None, track=True, alt=None,
                  again='all', walk=False):
    """Build ONE entry and read it: Beamline.from_nexus_entry for every argument of `args` (needs `groups`) and
    Measurement.from_nexus_entry (needs ms = (strs, times, texts, ttexts, rec)).  Every read is repeated (again='all'),
    only the first Beamline read and the Measurement read (again='first'), or none (again='none'); the file is compared before / after all reads (image of the whole file, and
    a walk over every object if `walk`); with `alt` = (order, track) the same content is created once more in another
    order and read again.  Appends one event per read; returns [(event, beamline or None)], measurement event."""
    ctx = lab.ctx
    raw_of, short_of = _maps(plan)
    f, e = lab.build(plan, order, track)
    bl, msr = [], None
    try:
        img = lab.image(f)
        wk = lab.walk(f) if walk else None
        e = lab.wrap(e)           # one scippnexus wrapper per file: every read of the file goes through it
        for k, arg in enumerate(args):
            obs, exc, rt, b = lab.read_beamline(e, arg, raw_of, short_of)
            same = True
            if again == 'all' or (again == 'first' and k == 0):
                obs2, exc2, _, _ = lab.read_beamline(e, arg, raw_of, short_of)
                same = (obs2, exc2) == (obs, exc)
            bl.append([obs, exc, rt, b, same])
        if ms is not None:
            obs, exc, rt, mi = lab.read_measurement(e, ms[2])
            same = True
            if again != 'none':
                obs2, exc2, _, mi2 = lab.read_measurement(e, ms[2])
                same = (obs2, exc2, mi2) == (obs, exc, mi)
            msr = [obs, exc, rt, mi, same]
        unchanged = lab.image(f) == img and (wk is None or lab.walk(f) == wk)
        if not unchanged and wk is None:
            lab.note('file image changed by reading')
    finally:
        lab.close(f)
    free_b, free_m = [True] * len(bl), True
    if alt is not None:
        f2, e2 = lab.build(plan, alt[0], alt[1])
        try:
            e2 = lab.wrap(e2)
            for k, arg in enumerate(args):
                obs3, exc3, _, _ = lab.read_beamline(e2, arg, raw_of, short_of)
                free_b[k] = obs3 == bl[k][0]
            if ms is not None:
                obs3, _, _, _ = lab.read_measurement(e2, ms[2])
                free_m = obs3 == msr[0]
        finally:
            lab.close(f2)
    out = []
    for k, arg in enumerate(args):
        obs, exc, rt, b, same = bl[k]
        ev = {'ev': 'beamline', 'tid': len(lab.events) + 1, 'family': family, 'groups': groups, 'arg': arg, 'obs': obs,
              'exc': exc, 'rt': rt, 'again': same, 'unchanged': unchanged, 'order_free': free_b[k], 'tz': lab.tzlabel}
        lab.events.append(ev)
        lab.info.append({'names': {p: t[0] for p, t in raw_of.items()}, 'returned': None if b is None else repr(b)[:200],
                         'row': None if rows is None else rows[k]})
        ctx.case(nontrivial_id=('g07b', family, json.dumps([groups, arg], sort_keys=True)))
        out.append((ev, b))
    mev = None
    if ms is not None:
        strs, times, texts, ttexts, rec = ms
        obs, exc, rt, mi, same = msr
        mev = {'ev': 'measurement', 'tid': len(lab.events) + 1, 'family': family, 'strs': strs, 'times': times, 'obs': obs,
               'exc': exc, 'rt': rt, 'again': same, 'unchanged': unchanged, 'order_free': free_m, 'maybe_int': mi,
               'tz': lab.tzlabel}
        lab.events.append(mev)
        lab.info.append({'texts': {k: (t if len(t) < 80 else t[:40] + '...') for k, t in texts.items()}, 'times': ttexts,
                         'rec': None if rec is None else rec['expect']})
        ctx.case(nontrivial_id=('g07m', family, json.dumps([strs, times], sort_keys=True)))
    return out, mev


# ------------------------------------------------------------------------------------------ observations (not judged)
def _observe_beamline(lab, ev, row_kind):
    obs, arg = ev['obs'], ev['arg']
    direct = [g for g in ev['groups'] if g['cls'] == 'NXinstrument' and not g['nested']]
    if row_kind == 'unspecified':
        what = 'instrument_name names no NXinstrument child' if arg['given'] and not any(
            g['gname'] == arg['target'] for g in direct) else 'name field is not one string'
        lab.note(f'{what}: ' + (f'refused with {ev["exc"]}' if obs['out'] == 'refused' else 'a Beamline is returned'))
        return
    if obs['out'] == 'refused':
        lab.note(f'refusal class {ev["exc"]}')
        return
    chosen = [g for g in direct if (g['gname'] == arg['target'] if arg['given'] else True)]
    if len(chosen) == 1 and chosen[0]['name']['present']:
        nf = chosen[0]['name']
        if nf['inst'] == '':
            lab.note('empty or blank name: a Beamline is returned')
        elif nf['var'] == 'padded':
            lab.note(f'blank-padded name: name {obs["name"]}, facility {"set" if obs["fac"] != "none" else "not set"}')
        if obs['fac'] != 'none':
            lab.note('facility set for a known instrument')
            if obs['site'] == 'none':
                lab.note('site omitted where facility is set')
        if obs['rev'] != 'none':
            lab.note('revision set')


def _observe_measurement(lab, ev):
    if ev['obs']['out'] == 'refused':
        lab.note(f'Measurement refusal class {ev["exc"]}')
        return
    for k in TIME_KEYS:
        tv, o = ev['times'][k], ev['obs'][k]
        if tv['present'] and tv['kind'] == 'iso' and tv['zone'] != 'naive' and o['kind'] == 'aware':
            lab.note('utcoffset of the text kept' if o['off'] == tv['off'] else 'utcoffset of the text not kept (same instant)')
        if tv['present'] and tv['kind'] != 'iso' and o['kind'] == 'none':
            lab.note('text without a time read as None')
    for f, k in SRC.items():
        sv = ev['strs'][k]
        if sv['present'] and sv['cls'] == 'empty':
            lab.note(f'empty string read as {ev["obs"][f]["form"]}')
        if sv['present'] and sv['cls'] == 'padded':
            lab.note(f'padded string read {ev["obs"][f]["form"]}')


# ------------------------------------------------------------------------------------------ random entries
_FOREIGN_CLASSES = ['NXsample', 'NXsource', 'NXuser', 'NXmonitor', 'NXdata', 'NXcollection', 'NXsubentry', 'NXnote', '']
_EXTRA_FIELDS = [('definition', 'NXtofraw'), ('duration', 3600), ('program_name', 'ecdc-kafka-to-nexus'),
                 ('experiment_description', 'a description that is no identifier'), ('collection_identifier', 'C-77'),
                 ('entry_identifier_uuid', '8d1f1c2e-0000-4000-8000-123456789abc'), ('run_cycle', '2024-B'),
                 ('collection_time', 12.5), ('titles', 'near miss of title'), ('start_time_estimated', 'soon'),
                 ('end_time_planned', '2031-01-01T00:00:00Z'), ('name', 'a name field of the entry itself'),
                 ('experiment_identifiers', 'X-1'), ('revision', '7'), ('facility', 'Moon base'), ('site', 'Tranquility')]
_GNAMES = ['instrument', 'instrument_2', 'inst', 'INSTRUMENT', 'beamline', 'b', 'zz', 'a1', 'second instrument',
           'ger\xe4t', 'i3', 'i4', 'i5', 'main', 'aux']


def _random_name_field(rng, meta):
    if rng.random() < 0.12:
        return {'present': False, 'sp': 'str', 'inst': '', 'var': 'canon', 'short_present': False, 'short_inst': ''}
    pool = rng.choice([meta['ess'], meta['ess'], meta['sinq'], meta['elsewhere'], meta['madeup'], ['']])
    inst = rng.choice(pool)
    var = rng.choice(['canon', 'canon', 'lower', 'upper', 'title', 'padded'])
    sp = rng.choice(ADMISSIBLE) if rng.random() < 0.93 else rng.choice(FOREIGN)
    short = rng.random() < 0.15
    return {'present': True, 'sp': sp, 'inst': inst, 'var': var, 'short_present': short,
            'short_inst': rng.choice(meta['ess'] + meta['madeup'] + ['']) if short else ''}


def _random_time(rng):
    r = rng.random()
    base = {'present': True, 'sp': rng.choice(ADMISSIBLE) if rng.random() < 0.95 else rng.choice(FOREIGN), 'kind': 'iso',
            'day': 0, 'sec': 0, 'ns': 0, 'zone': 'naive', 'off': 0}
    if r < 0.12:
        return {**base, 'present': False, 'sp': 'str'}
    if r < 0.18:
        return {**base, 'kind': rng.choice(['garbage', 'empty'])}
    base['day'] = rng.choice([rng.randrange(0, 25000), rng.randrange(19000, 20500), 0, 11016, 19782, 24855, 24856])
    base['sec'] = rng.choice([rng.randrange(86400), 0, 86399, 43200])
    nd = rng.choice([0, 0, 1, 3, 6, 7, 9])
    if nd:
        v = rng.randrange(10 ** nd)
        base['ns'] = min(v * 10 ** (9 - nd), 999999499)
    z = rng.random()
    if z < 0.25:
        pass
    elif z < 0.5:
        base['zone'] = 'Z'
    else:
        base['zone'] = 'offset'
        base['off'] = rng.choice([0, 60, 120, -240, -300, 330, 345, -570, 840, -720, 765, 15 * rng.randrange(-48, 57)])
    return base


def _random_entry(rng, meta):
    """A descriptor far beyond the model: up to 6 instruments, nesting up to 3 deep, unrelated groups and fields."""
    groups, extras = [], []
    names = rng.sample(_GNAMES, len(_GNAMES))
    ndirect = rng.choice([0, 1, 1, 1, 1, 2, 2, 3, 4, 6])
    for _ in range(ndirect):
        groups.append({'gname': names.pop(), 'cls': 'NXinstrument', 'nested': False, 'name': _random_name_field(rng, meta)})
    for _ in range(rng.choice([0, 1, 2, 3])):
        g = {'gname': names.pop(), 'cls': rng.choice(_FOREIGN_CLASSES), 'nested': False,
             'name': _random_name_field(rng, meta) if rng.random() < 0.6 else _random_name_field(rng, {**meta, 'ess': ['']})}
        if rng.random() < 0.3:
            g['name'] = {'present': False, 'sp': 'str', 'inst': '', 'var': 'canon', 'short_present': False, 'short_inst': ''}
        groups.append(g)
    # nested groups (an NXinstrument below another group is not a child of the entry)
    for _ in range(rng.choice([0, 0, 1, 2])):
        parent = rng.choice(groups) if groups else None
        if parent is None:
            break
        path = parent['gname'] + '/' + rng.choice(['sub', 'instrument', 'inner', 'x'])
        if any(g['gname'] == path for g in groups):
            continue
        groups.append({'gname': path, 'cls': rng.choice(['NXinstrument', 'NXinstrument', 'NXdetector', 'NXsource']),
                       'nested': True, 'name': _random_name_field(rng, meta)})
    for key, value in rng.sample(_EXTRA_FIELDS, rng.choice([0, 2, 4, 8])):
        extras.append({'op': 'extra', 'path': '', 'key': key, 'value': value})
    for g in groups:
        if rng.random() < 0.3:
            extras.append({'op': 'extra', 'path': g['gname'], 'key': rng.choice(['type', 'short_name', 'title', 'names']),
                           'value': rng.choice(['DREAM', 'ESTIA', 'Amor', 'x'])})
    # instrument_name
    direct = [g['gname'] for g in groups if g['cls'] == 'NXinstrument' and not g['nested']]
    r = rng.random()
    if r < 0.5 or not groups:
        arg = {'given': False, 'target': ''}
    elif r < 0.85 and direct:
        arg = {'given': True, 'target': rng.choice(direct)}
    else:
        arg = {'given': True, 'target': rng.choice([g['gname'] for g in groups] + ['missing', 'title'])}
    strs = {}
    for k in STR_KEYS:
        if rng.random() < 0.2:
            strs[k] = {'present': False, 'sp': 'str', 'cls': 'plain'}
        else:
            strs[k] = {'present': True, 'sp': rng.choice(ADMISSIBLE) if rng.random() < 0.95 else rng.choice(FOREIGN),
                       'cls': rng.choice(['plain', 'plain', 'digits', 'digits', 'unicode', 'long', 'empty', 'padded'])}
    times = {k: _random_time(rng) for k in TIME_KEYS}
    return groups, extras, arg, strs, times


# ------------------------------------------------------------------------------------------ finding keys
# A key names the clause and the part of the input class the clause is about - not the whole input, so that one
# defect gives a handful of keys; the complete event is in the detail.
_WHERE = {k: set(v) for k, v in VOCAB.items()}
_FAMILY = {'str': 'variable-length scalar', 'bytes': 'variable-length scalar', 'vlen_ascii': 'variable-length scalar',
           'fixed': 'fixed-length scalar', 'fixed_padded': 'fixed-length scalar', 'arr1': 'array of one',
           'arr1_fixed': 'array of one', 'arr2': 'array of two', 'int': 'integer', 'group': 'group'}


def _where(inst):
    return ('ESS' if inst in _WHERE['ess'] else 'SINQ' if inst in _WHERE['sinq'] else 'elsewhere' if inst in _WHERE['elsewhere']
            else 'empty' if inst == '' else 'made-up')


def _name_class(nf):
    if not nf['present']:
        return 'no name field'
    s = f'{_where(nf["inst"])} text, {nf["var"]}'
    if nf['short_present']:
        s += ', with short_name'
    return s


def _beamline_key(ev, clause):
    direct = [g for g in ev['groups'] if g['cls'] == 'NXinstrument' and not g['nested']]
    n = len(direct)
    arg = ev['arg']
    if not arg['given']:
        a = 'absent'
    elif any(g['gname'] == arg['target'] for g in direct):
        a = 'names an NXinstrument child'
    else:
        a = 'names something else'
    chosen = [g for g in direct if g['gname'] == arg['target']] if arg['given'] else (direct if n == 1 else [])
    nf = chosen[0]['name'] if len(chosen) == 1 else None
    sel = f'NXinstrument children: {min(n, 2)}{"+" if n >= 2 else ""}, instrument_name {a}'
    if clause.startswith(('refused_although', 'beamline_returned_although')):
        ctxt = sel
    elif clause.startswith('name_is'):
        ctxt = (f'name stored as {_FAMILY[nf["sp"]]}, {"blank-padded" if nf["var"] == "padded" else "not padded"}'
                f'{", with short_name" if nf["short_present"] else ""}') if nf is not None else sel
    elif clause.startswith(('wrong_facility', 'facility_or_site', 'revision_set')):
        ctxt = f'name: {_name_class(nf)}' if nf is not None else sel
    else:
        ctxt = sel
    exc = f' ({ev["exc"]})' if ev['obs']['out'] == 'refused' and ev['exc'] else ''
    return f'{PREFIX}: Beamline.from_nexus_entry: {clause}{exc} [{ctxt}]'


def _zone_class(tv):
    return {'naive': 'no zone', 'Z': 'Z', 'offset': 'numeric offset'}[tv['zone']]


def _frac_class(tv):
    ns = tv['ns']
    return 'no fraction' if ns == 0 else ('fraction <= 6 digits' if ns % 1000 == 0 else 'fraction > 6 digits')


def _time_class(tv):
    if not tv['present']:
        return 'absent'
    if tv['kind'] != 'iso':
        return f'{tv["kind"]} text'
    return f'ISO 8601, {_zone_class(tv)}, {_frac_class(tv)}, {_FAMILY[tv["sp"]]}'


def _str_class(sv):
    if not sv['present']:
        return 'absent'
    return f'{sv["cls"]} text, {_FAMILY[sv["sp"]]}'


def _measurement_key(ev, clause, field):
    tz = ''
    head = f'{PREFIX}: Measurement.from_nexus_entry'
    if clause == 'run_number_maybe_int':
        sv = ev['strs']['entry_identifier']
        cls = 'absent' if not sv['present'] else f'{sv["cls"]} text'
        return (f'{PREFIX}: Measurement.from_nexus_entry(...).run_number_maybe_int: {field} '
                f'[entry_identifier {cls}, run_number read as {ev["obs"]["run_number"]["form"]}]')
    if field in SRC:
        sv = ev['strs'][SRC[field]]
        if clause in ('taken_from_another_field', 'value_although_the_field_is_absent'):
            return f'{head}: {field}: {clause}{tz}'
        if clause == 'none_although_the_field_is_present':
            return f'{head}: {field}: {clause} [{SRC[field]} stored as {_FAMILY[sv["sp"]]}]{tz}'
        return f'{head}: {field}: {clause} [{SRC[field]}: {_str_class(sv)}]{tz}'
    if field in TIME_KEYS:
        tv = ev['times'][field]
        if clause in ('taken_from_the_other_time_field', 'value_although_the_field_is_absent'):
            return f'{head}: {field}: {clause}{tz}'
        if clause in ('time_zone_dropped', 'time_zone_invented'):
            return f'{head}: {field}: {clause} [{_zone_class(tv)}]{tz}'
        if clause == 'fraction_of_the_second_wrong':
            return f'{head}: {field}: {clause} [{_frac_class(tv)}]{tz}'
        if clause == 'different_instant':
            return f'{head}: {field}: {clause} [{_zone_class(tv)}, {_FAMILY[tv["sp"]]}]{tz}'
        if clause in ('none_although_the_field_is_present', 'not_a_datetime'):
            return f'{head}: {field}: {clause} [stored as {_FAMILY[tv["sp"]]}]{tz}'
        return f'{head}: {field}: {clause} [{_time_class(tv)}]{tz}'
    exc = f' ({ev["exc"]})' if ev['obs']['out'] == 'refused' and ev['exc'] else ''
    return f'{head}: {clause}{exc}{tz}'


# ------------------------------------------------------------------------------------------ self-test of the judge
def _synthetic(bl_rows, ms_rows):
    """Events that do not come from the implementation: for a few table rows an observation that is right by the row
    TLC exported (the judge must accept it) and deliberately wrong variants of it (the judge must reject them)."""
    good, bad = [], []

    def bl_event(row, obs, **kw):
        return {'ev': 'beamline', 'tid': 0, 'groups': row['groups'], 'arg': row['arg'], 'obs': obs, 'rt': True,
                'again': True, 'unchanged': True, 'order_free': True, **kw}

    ok_b = {'out': 'beamline', 'name': 'raw', 'fac': 'ESS', 'site': 'ESS', 'rev': 'none'}
    refused = {'out': 'refused', 'name': '-', 'fac': 'none', 'site': 'none', 'rev': 'none'}
    r1 = next((r for r in bl_rows if r['row']['kind'] == 'accept' and not r['row']['mayrefuse']
               and ['ESS', 'ESS'] in r['row']['pairs'] and r['row']['names'] == ['raw'] and not r['row']['anyfac']
               and ['SINQ', 'PSI'] not in r['row']['pairs']), None)
    r2 = next((r for r in bl_rows if r['row']['kind'] == 'refuse' and 'several' in r['row']['why']), None)
    r3 = next((r for r in bl_rows if r['row']['kind'] == 'accept' and r['row']['pairs'] == [['none', 'none']]
               and not r['row']['anyfac'] and not r['row']['mayrefuse']), None)
    if r1 is None or r2 is None or r3 is None:
        raise MachineryError(f'{PREFIX}: the table lacks the rows the self-test of the judge needs')
    good += [bl_event(r1, ok_b), bl_event(r2, refused), bl_event(r3, {**ok_b, 'fac': 'none', 'site': 'none'})]
    bad += [bl_event(r1, {**ok_b, 'fac': 'SINQ', 'site': 'PSI'}), bl_event(r1, {**ok_b, 'name': 'other'}),
            bl_event(r1, refused), bl_event(r2, {**ok_b, 'fac': 'none', 'site': 'none'}), bl_event(r3, ok_b),
            bl_event(r1, ok_b, unchanged=False), bl_event(r1, ok_b, again=False), bl_event(r1, ok_b, order_free=False),
            bl_event(r1, ok_b, rt=False)]

    def t_obs(w):
        if w['kind'] == 'none':
            return {'kind': 'none', 'day': 0, 'sec': 0, 'micro': 0, 'off': 0}
        return {'kind': w['kind'], 'day': w['mins'] // 1440, 'sec': (w['mins'] % 1440) * 60 + w['s'], 'micro': w['micros'][0],
                'off': 0}

    rec = next((r for r in ms_rows if r['specified'] and not r['mayrefuse']
                and r['expect']['start_time']['kind'] == 'aware' and r['expect']['end_time']['kind'] == 'aware'
                and r['times']['start_time']['off'] != 0
                and all(len(r['expect'][f]) == 1 and r['expect'][f][0]['form'] == 'raw' for f in SRC)), None)
    if rec is None:
        raise MachineryError(f'{PREFIX}: the table lacks the row the self-test of the judge needs')
    ex = rec['expect']
    ok_m = {'out': 'measurement', 'title': ex['title'][0], 'run_number': ex['run_number'][0],
            'experiment_id': ex['experiment_id'][0], 'doi': 'none', 'start_time': t_obs(ex['start_time']),
            'end_time': t_obs(ex['end_time'])}
    mi = 'int' if rec['strs']['entry_identifier']['cls'] == 'digits' else 'text'

    def ms_event(obs, **kw):
        return {'ev': 'measurement', 'tid': 0, 'strs': rec['strs'], 'times': rec['times'], 'obs': obs, 'rt': True,
                'again': True, 'unchanged': True, 'order_free': True, 'maybe_int': mi, **kw}

    def with_time(f, **ch):
        o = copy.deepcopy(ok_m)
        o[f].update(ch)
        return o

    good.append(ms_event(ok_m))
    st = ok_m['start_time']
    bad += [ms_event(with_time('start_time', sec=(st['sec'] + 1) % 86400)), ms_event(with_time('start_time', kind='naive')),
            ms_event(with_time('end_time', micro=ok_m['end_time']['micro'] + 7)),
            ms_event({**ok_m, 'end_time': copy.deepcopy(ok_m['start_time'])}),
            ms_event({**ok_m, 'run_number': ok_m['experiment_id'], 'experiment_id': ok_m['run_number']}),
            ms_event({**ok_m, 'title': {'src': '-', 'form': 'none'}}), ms_event({**ok_m, 'doi': 'set'}),
            ms_event({**MEAS_REFUSED}), ms_event(ok_m, unchanged=False), ms_event(ok_m, rt=False),
            ms_event(ok_m, maybe_int='raised_TypeError'),
            {'ev': 'casefam', 'tid': 0, 'inst': 'dream', 'outs': ['known', 'unknown', 'known']}]
    good.append({'ev': 'casefam', 'tid': 0, 'inst': 'dream', 'outs': ['known', 'known', 'known']})
    return good, bad


_NONE_T = {'kind': 'none', 'day': 0, 'sec': 0, 'micro': 0, 'off': 0}
_NONE_S = {'src': '-', 'form': 'none'}
MEAS_REFUSED = {'out': 'refused', 'title': _NONE_S, 'run_number': _NONE_S, 'experiment_id': _NONE_S, 'doi': 'none',
                'start_time': _NONE_T, 'end_time': _NONE_T}


# ------------------------------------------------------------------------------------------ CIF step
def _cif_step(lab, b, tag):
    """What from_nexus_entry produced arrives in the CIF file (CIF.with_beamline itself is checked elsewhere)."""
    ctx = lab.ctx
    try:
        from scippneutron.io import cif
        out = io.StringIO()
        cif.CIF('g07').with_beamline(b).save(out)
        text = out.getvalue()
    except Exception as ex:  # noqa: BLE001
        ctx.growth_finding(f'{PREFIX}: CIF.with_beamline(Beamline.from_nexus_entry(...)).save raised {type(ex).__name__} [{tag}]',
                           {'beamline': repr(b), 'exception': str(ex)[:300]})
        return
    vals = {}
    for line in text.splitlines():
        for tagname in ('_diffrn_source.beamline', '_diffrn_source.facility'):
            if line.startswith(tagname + ' '):
                v = line[len(tagname):].strip()
                if len(v) >= 2 and v[0] == v[-1] and v[0] in '\'"':
                    v = v[1:-1]
                vals[tagname] = v
    if vals.get('_diffrn_source.beamline') != b.name:
        ctx.growth_finding(f'{PREFIX}: CIF.with_beamline(Beamline.from_nexus_entry(...)): _diffrn_source.beamline is not the '
                           f'name read from the file [{tag}]', {'beamline': repr(b), 'written': vals})
    if vals.get('_diffrn_source.facility') != b.facility:
        ctx.growth_finding(f'{PREFIX}: CIF.with_beamline(Beamline.from_nexus_entry(...)): _diffrn_source.facility differs '
                           f'from the facility of the Beamline [{tag}]', {'beamline': repr(b), 'written': vals})
    lab.ncif = getattr(lab, 'ncif', 0) + 1


# ------------------------------------------------------------------------------------------ parts of the run
def _load(path):
    return [json.loads(line) for line in open(path) if line.strip()]


def _universe_plan(universe, ids, rng):
    """Step-machine items (ids in creation order) -> (plan in that order, groups, strs, times)."""
    plan, groups, strs, times = [], {}, {}, {}
    items = [universe[i - 1] for i in ids]
    names = {it['key']: it['nf'] for it in items if it['what'] == 'name'}
    for it in items:
        if it['what'] == 'group':
            groups[it['key']] = {'gname': it['key'], 'cls': it['cls'], 'nested': it['nested'],
                                 'name': names.get(it['key'], universe_noname(universe))}
    absent_s = {'present': False, 'sp': 'str', 'cls': 'plain'}
    absent_t = {'present': False, 'sp': 'str', 'kind': 'iso', 'day': 0, 'sec': 0, 'ns': 0, 'zone': 'naive', 'off': 0}
    strs = {k: next((it['sv'] for it in items if it['what'] == 'str' and it['key'] == k), absent_s) for k in STR_KEYS}
    times = {k: next((it['tv'] for it in items if it['what'] == 'time' and it['key'] == k), absent_t) for k in TIME_KEYS}
    eops, texts, ttexts = _entry_ops(rng, strs, times)
    by_key = {(o['op'], o['key']): o for o in eops}
    for it in items:
        if it['what'] == 'group':
            plan.append({'op': 'group', 'path': it['key'], 'cls': it['cls']})
        elif it['what'] == 'name':
            plan.append(_name_op(it['key'], it['nf']))
        else:
            plan.append(by_key[(it['what'], it['key'])])
    return plan, list(groups.values()), strs, times, texts, ttexts


def universe_noname(universe):
    return {'present': False, 'sp': 'str', 'inst': '', 'var': 'canon', 'short_present': False, 'short_inst': ''}


def _random_part(lab, meta, n, family='random'):
    rng = lab.ctx.rng
    for _ in range(n):
        groups, extras, arg, strs, times = _random_entry(rng, meta)
        eops, texts, ttexts = _entry_ops(rng, strs, times)
        plan = _group_ops(groups, rng.random() < 0.4) + eops + extras
        order = _legal_order(rng, plan)
        alt = (_legal_order(rng, plan), rng.random() < 0.5) if rng.random() < 0.25 else None
        try:
            _observe_file(lab, family, plan, groups=groups, args=[arg], ms=(strs, times, texts, ttexts, None), order=order,
                          track=rng.random() < 0.7, alt=alt, walk=rng.random() < 0.2)
        except MachineryError:
            raise
        except Exception as ex:  # noqa: BLE001 - building the file failed: the harness' own fault
            raise MachineryError(f'{PREFIX}: could not build a random entry: {type(ex).__name__}: {ex}') from ex


def _table_part(lab, bl_rows, ms_rows, meta):
    """Every row of both tables; one file holds one Beamline row and one Measurement row."""
    ctx, rng = lab.ctx, lab.ctx.rng
    fam = {}          # instrument -> {case variant: known/unknown/refused}
    path1 = {}        # tid -> deviates (spec -> code verdict)
    ncif = 0
    for i in range(max(len(bl_rows), len(ms_rows))):
        row = bl_rows[i] if i < len(bl_rows) else None
        rec = ms_rows[i] if i < len(ms_rows) else None
        plan, kw = [], {}
        if row is not None:
            plan += _group_ops(row['groups'], i % 3 == 1)
            kw.update(groups=row['groups'], args=[row['arg']], rows=[row['row']])
        if rec is not None:
            eops, texts, ttexts = _entry_ops(rng, rec['strs'], rec['times'])
            plan += eops
            kw['ms'] = (rec['strs'], rec['times'], texts, ttexts, rec)
        out, mev = _observe_file(lab, 'table', plan, order=_legal_order(rng, plan), track=rng.random() < 0.5,
                                 again='all' if i % 4 == 0 else 'none', walk=i % 8 == 0, **kw)
        if mev is not None:
            path1[mev['tid']] = _ms_deviates(rec, mev['obs'])
            _observe_measurement(lab, mev)
        if row is None:
            continue
        ev, b = out[0]
        groups, arg = row['groups'], row['arg']
        path1[ev['tid']] = _bl_deviates(row['row'], ev['obs'])
        _observe_beamline(lab, ev, row['row']['kind'])
        if len(groups) == 1 and groups[0]['cls'] == 'NXinstrument' and not groups[0]['nested'] and not arg['given'] \
                and groups[0]['name']['present']:
            nf = groups[0]['name']
            if nf['sp'] == 'str' and nf['var'] in meta['casevars'] and nf['inst'] != '' and not nf['short_present']:
                o = 'refused' if ev['obs']['out'] == 'refused' else ('known' if ev['obs']['fac'] != 'none' else 'unknown')
                fam.setdefault(nf['inst'], {})[nf['var']] = o
            if b is not None and nf['var'] in ('canon', 'lower') and nf['sp'] in ('str', 'arr1') and ncif < 120 \
                    and isinstance(b, lab.M.Beamline) and isinstance(b.name, str) and b.name.replace(' ', '').isalnum():
                ncif += 1
                _cif_step(lab, b, _name_class(nf))
    for inst in sorted(fam):
        variants = sorted(fam[inst])
        if len(variants) < 2:
            continue
        lab.events.append({'ev': 'casefam', 'tid': len(lab.events) + 1, 'inst': inst, 'variants': variants,
                           'outs': [fam[inst][v] for v in variants]})
        lab.info.append({'texts': {v: _render_name(inst, v) for v in variants}})
    return path1


def _build_part(lab, builds, universe, args):
    """Replays of the build orders simulated by TLC: the order as given (creation order tracked), and the same
    content in canonical order without tracking; every instrument_name argument of the model is read."""
    rng = lab.ctx.rng
    path1 = {}
    for _, ids, rows in builds:
        plan, groups, strs, times, texts, ttexts = _universe_plan(universe, ids, rng)
        canon = sorted(range(len(ids)), key=lambda i: ids[i])
        if len(rows) != len(args):
            raise MachineryError(f'{PREFIX}: a BUILD line has {len(rows)} rows for {len(args)} arguments')
        rr = [{**row, 'names': row['names']['$set'], 'pairs': row['pairs']['$set']} for row in rows]
        out, _ = _observe_file(lab, 'build', plan, groups=groups, args=args, rows=rr, ms=(strs, times, texts, ttexts, None),
                               order=None, track=True, alt=(canon, False), again='first', walk=True)
        for (ev, _b), r in zip(out, rr, strict=True):
            path1[ev['tid']] = _bl_deviates(r, ev['obs'])
    return path1


# ------------------------------------------------------------------------------------------ run
def run(ctx):
    t0 = time.time()
    th = ctx.thorough
    tmp = ctx.tmp
    workers = int(os.environ.get('VERIF_GROWTH_WORKERS', '0') or 0) or (3 if th else 2)
    files = {k: str(tmp / f'g07_{k}.ndjson') for k in ('bl', 'ms', 'universe', 'meta', 'trace')}
    ctx.assume(f'{PREFIX}: a refusal is any exception (no class is documented); instrument_name that names no '
               'NXinstrument child, fields that are not one string, empty / blank / padded names and the utcoffset of an '
               'aware result are not judged (observations); a fraction beyond microseconds may be cut or rounded; '
               'NXinstrument groups that are not direct children of the entry do not count')
    par = _Par(ctx)
    lab = _Lab(ctx)
    old_tz = os.environ.get('TZ')
    try:
        sfx = '_thorough' if th else ''
        nsim = 600 if th else 50
        gen = par.start(GEN, f'Growth_Gen_NexusMetadata{sfx}.cfg', workers=1, timeout=600, count=False,
                        simulate=f'num={nsim}', depth=40, extra=['-seed', str(ctx.seed + 7)],
                        env={'G07_BL': files['bl'], 'G07_MS': files['ms'], 'G07_UNIVERSE': files['universe'],
                             'G07_META': files['meta']})
        model = par.start(SPEC, f'Growth_MC_NexusMetadata{sfx}.cfg', workers=workers, timeout=900)

        # ---- code -> spec: seeded random entries far beyond the model (while TLC generates the tables), some of
        # them under a foreign local time zone
        _random_part(lab, VOCAB, 3000 if th else 200)
        if hasattr(time, 'tzset'):
            zones = ('Pacific/Chatham', 'America/St_Johns', 'Asia/Kathmandu')
            for zone in zones if th else (zones[ctx.seed % 3],):
                try:
                    os.environ['TZ'] = zone
                    time.tzset()
                    lab.tzlabel = zone
                    _random_part(lab, VOCAB, 400 if th else 30, family='random_tz')
                finally:
                    lab.tzlabel = ''
                    if old_tz is None:
                        os.environ.pop('TZ', None)
                    else:
                        os.environ['TZ'] = old_tz
                    time.tzset()
        n_random = len(lab.events)
        marks = {'random_s': round(time.time() - t0, 1)}

        # ---- spec -> code: every table row, every simulated build order
        res = par.join(gen)
        require_ok(ctx, res, 'Growth_Gen_NexusMetadata')
        meta = _load(files['meta'])[0]
        _self_test_vocabulary(meta)
        bl_rows, ms_rows, universe = _load(files['bl']), _load(files['ms']), _load(files['universe'])
        g = res.tagged('GEN')
        if not g or g[0][1:] != [len(bl_rows), len(ms_rows), len(universe)] or not bl_rows or not ms_rows:
            raise MachineryError(f'{PREFIX}: table generation incomplete: {g}')
        builds = res.tagged('BUILD')
        if len(builds) < nsim // 2:
            raise MachineryError(f'{PREFIX}: only {len(builds)} build orders were simulated')
        negs = NEGS if th else tuple(NEGS[(ctx.seed + i) % len(NEGS)] for i in (0, 1, 4))
        par.chain([(SPEC, f'Growth_Neg_NexusMetadata_{bug}.cfg', {'workers': 1, 'expect_error': True, 'timeout': 300})
                   for bug in negs])
        deep = par.start(SPEC, 'Growth_MC_NexusMetadata_deep.cfg', workers=2, timeout=900) if th else None
        marks['gen_wait_s'] = round(time.time() - t0, 1)
        path1 = _table_part(lab, bl_rows, ms_rows, meta)
        marks['table_s'] = round(time.time() - t0, 1)
        path1.update(_build_part(lab, builds, universe, meta['args']))
        marks['build_s'] = round(time.time() - t0, 1)
        n_real = len(lab.events)
        good, bad = _synthetic(bl_rows, ms_rows)
        events = lab.events + good + bad
        for i, e in enumerate(events):
            e['tid'] = i + 1
        write_ndjson(files['trace'], [{k: v for k, v in e.items() if k not in ('family', 'exc', 'tz', 'variants')}
                                      for e in events])
        tr = par.join(par.start(JUDGE, 'Growth_Trace_NexusMetadata.cfg', workers=1, timeout=900, count=False,
                                env={'TRACE_FILE': files['trace']}))
        require_ok(ctx, tr, 'Growth_Trace_NexusMetadata')
        done = tr.tagged('DONE')
        if not done or done[0][1] != len(events):
            raise MachineryError(f'{PREFIX}: trace validation incomplete: {done} vs {len(events)} events')
        rejects = {r[1]: r for r in tr.tagged('REJECT')}
        if len(rejects) != done[0][2]:
            raise MachineryError(f'{PREFIX}: REJECT lines do not add up')
        wrong_good = [rejects[i] for i in range(n_real + 1, n_real + len(good) + 1) if i in rejects]
        missed_bad = [events[i - 1] for i in range(n_real + len(good) + 1, len(events) + 1) if i not in rejects]
        if wrong_good or missed_bad:
            raise MachineryError(f'{PREFIX}: self-test of the trace judge failed: right observations rejected {wrong_good}, '
                                 f'wrong observations accepted {missed_bad}')
        ctx.traces(n_real)
        marks['judge_s'] = round(time.time() - t0, 1)
        ctx.extra['growth_nexusmeta_marks'] = marks

        # ---- cross-check of the two directions, then the findings
        for tid, deviates in path1.items():
            rej = rejects.get(tid)
            table_reject = rej is not None and rej[3] not in NON_TABLE_CLAUSES
            if deviates != table_reject:
                raise MachineryError(f'{PREFIX}: spec->code and code->spec disagree on event {tid}: row verdict '
                                     f'{"deviates" if deviates else "conforms"}, judge {rej}: {events[tid - 1]}')
        # events recorded under a foreign local time zone come last; a deviation that was already seen under the
        # machine's own zone keeps its key, one that shows only there gets the zone appended
        seen = set()
        for line in sorted(rejects, key=lambda i: (bool(events[i - 1].get('tz')), i)):
            if line > n_real:
                continue
            _, _, _tid, clause, field = rejects[line]
            ev, info = events[line - 1], lab.info[line - 1]
            if clause == 'unknown_event':
                raise MachineryError(f'{PREFIX}: bad event {ev}')
            if ev['ev'] == 'beamline':
                key = _beamline_key(ev, clause)
            elif ev['ev'] == 'measurement':
                key = _measurement_key(ev, clause, field)
            else:
                by = {}
                for v, o in zip(ev['variants'], ev['outs'], strict=True):
                    by.setdefault(o, []).append(v)
                key = f'{PREFIX}: Beamline.from_nexus_entry: {clause} [' + '; '.join(
                    f'{o} for spelling {"/".join(vs)}' for o, vs in sorted(by.items())) + ']'
            if ev.get('tz') and key not in seen:
                key += f' [only under local time zone {ev["tz"]}]'
            elif not ev.get('tz'):
                seen.add(key)
            ctx.growth_finding(key, {'event': {k: v for k, v in ev.items() if k != 'tid'}, **info})
        require_ok(ctx, par.join(model), 'Growth_NexusMetadata model')
        if deep is not None:
            require_ok(ctx, par.join(deep), 'Growth_NexusMetadata model (five items)')
    finally:
        lab.close_all()
        try:
            par.join_all()          # negative controls must have been rejected; never leave a TLC process behind
        finally:
            for p in tmp.glob(f'g07-{os.getpid()}-*.h5'):
                p.unlink(missing_ok=True)
    fams = {}
    for e in lab.events:
        fams[e.get('family', 'casefam')] = fams.get(e.get('family', 'casefam'), 0) + 1
    accepted = sum(1 for e in lab.events if e['ev'] != 'casefam' and e['obs']['out'] != 'refused')
    ctx.sample({'growth_nexusmeta': {'table_rows_beamline': len(bl_rows), 'table_rows_measurement': len(ms_rows),
                                     'build_orders': len(builds), 'events_by_family': fams, 'accepted_reads': accepted,
                                     'files_built': lab.nfile, 'random_events': n_random}})
    ctx.extra['growth_nexusmeta_events'] = n_real
    ctx.extra['growth_nexusmeta_files_built'] = lab.nfile
    ctx.extra['growth_nexusmeta_cif_steps'] = getattr(lab, 'ncif', 0)
    ctx.extra['growth_nexusmeta_observations'] = dict(sorted(lab.obs_count.items()))
    ctx.extra['growth_nexusmeta_wall_s'] = round(time.time() - t0, 1)
