----------------------- MODULE Growth_Trace_CifSchema -----------------------
(* code -> spec: judges recorded programs over cif.Block / Chunk / Loop (ev = "block") and   *)
(* over the high-level builder cif.CIF (ev = "builder").                                     *)
(* block:   steps = sequence of                                                              *)
(*            [op |-> "new", decl]            Block(name, schema=decl)  -> next block number  *)
(*            [op |-> "add", block, decl]     block.add(Chunk|Loop(..., schema=decl)) or a     *)
(*                                            plain mapping (decl not declared)               *)
(*            [op |-> "copy", block]          block.copy()              -> next block number  *)
(*            [op |-> "write", block, loop, rows, prop]  save_cif + parse: is there a          *)
(*                     conformance loop, its rows (schema ids; "other" for a row that is no    *)
(*                     known (name, version, location) triple), and the ids in block.schema    *)
(*          decl = [declared, set]                                                            *)
(* builder: npd (powder data / calibration items added), loop, rows, prop (ids in CIF.schema  *)
(*          before saving), date_ok (audit.creation_date is an ISO 8601 UTC time with seconds  *)
(*          resolution inside the window of the save call), method_ok (audit.creation_method  *)
(*          is 'Written by scippneutron <version>')                                          *)
(* A rejected line prints <<"REJECT", line, tid, clause, step>>.                              *)
EXTENDS Growth_CifSchemaDefs, TLC, Json, IOUtils

Tr == ndJsonDeserialize(IOEnv.TRACE_FILE)

VARIABLES l, nbad
tvars == <<l, nbad>>

SeqSet(s) == {s[i] : i \in 1..Len(s)}
D(j) == [declared |-> j.declared, set |-> SeqSet(j.set)]

WriteVerdict(b, st) ==
    LET want == BlockSchema(b) IN
    IF st.loop # (want # {}) THEN "conformance_loop_presence"
    ELSE IF "other" \in SeqSet(st.rows) THEN "row_is_no_declared_schema"
    ELSE IF SeqSet(st.rows) # want THEN "rows_differ_from_used_schemas"
    ELSE IF Len(st.rows) # Cardinality(want) THEN "schema_listed_twice"
    ELSE IF SeqSet(st.prop) # want THEN "schema_property"
    ELSE "ok"

RECURSIVE Walk(_, _, _)
Walk(steps, k, bs) ==
    IF k > Len(steps) THEN <<"ok", 0>>
    ELSE LET st == steps[k] IN
         IF st.op = "new" THEN Walk(steps, k + 1, Append(bs, [own |-> D(st.decl), items |-> <<>>]))
         ELSE IF st.block \notin 1..Len(bs) THEN <<"malformed_event", k>>
         ELSE IF st.op = "add"
              THEN Walk(steps, k + 1, [bs EXCEPT ![st.block].items = Append(@, D(st.decl))])
         ELSE IF st.op = "copy"
              THEN LET s == BlockSchema(bs[st.block])
                   IN Walk(steps, k + 1, Append(bs, [own |-> IF s = {} THEN NoDecl ELSE Decl(s),
                                                     items |-> bs[st.block].items]))
         ELSE LET v == WriteVerdict(bs[st.block], st)
              IN IF v = "ok" THEN Walk(steps, k + 1, bs) ELSE <<v, k>>

JudgeBuilder(e) ==
    LET want == BuilderSchema(e.npd) IN
    IF ~e.loop THEN <<"conformance_loop_presence", 0>>
    ELSE IF ~RowsOk(e.rows, want) THEN <<"builder_rows_differ_from_used_schemas", 0>>
    ELSE IF ~BuilderPropOk(SeqSet(e.prop), e.npd) THEN <<"builder_schema_property", 0>>
    ELSE IF ~e.date_ok THEN <<"audit_creation_date", 0>>
    ELSE IF ~e.method_ok THEN <<"audit_creation_method", 0>>
    ELSE <<"ok", 0>>

Judge(e) == IF e.ev = "block" THEN Walk(e.steps, 1, <<>>)
            ELSE IF e.ev = "builder" THEN JudgeBuilder(e)
            ELSE <<"unknown_event", 0>>

TInit == l = 1 /\ nbad = 0
TNext == /\ l <= Len(Tr)
         /\ l' = l + 1
         /\ LET v == Judge(Tr[l]) IN
            /\ nbad' = IF v[1] = "ok" THEN nbad ELSE nbad + 1
            /\ (v[1] = "ok" \/ PrintT(<<"REJECT", l, Tr[l].tid, v[1], v[2]>>))
TSpec == TInit /\ [][TNext]_tvars
Done == (l = Len(Tr) + 1) => PrintT(<<"DONE", l - 1, nbad>>)
=============================================================================
