#!/bin/sh
# tools/selftest_mutants.sh [ID...]  — run every hand-written mutant (mutants/CNN/*.diff, not PROPOSED_FIX*)
# and every seeded change (seeded/CNN-*/patch.diff) against the quick check of its property and print a table:
# caught (exit 1 with VIOLATION) / MISSED / not-applicable (patch does not apply to the current tree).
cd "$(dirname "$0")/.."
ids="$*"
[ -n "$ids" ] || ids=$(ls mutants | grep -E '^C[0-9]+$')
for id in $ids; do
  for d in mutants/$id/*.diff mutants/$id/*.patch seeded/$id-*/patch.diff; do
    [ -e "$d" ] || continue
    case "$d" in *PROPOSED_FIX*|*proposed_fix*) continue;; esac
    scratch=$(mktemp -d /tmp/st-XXXXXX); mkdir -p "$scratch/src"; cp -r /repo/src/scippneutron "$scratch/src/"
    if ! (cd "$scratch" && patch -s -p1 --dry-run < "/verif/$d" >/dev/null 2>&1); then
      echo "$id $d NOT-APPLICABLE(patch does not apply)"; rm -rf "$scratch"; continue
    fi
    rm -rf "$scratch"
    out=$(tools/mutant_run.sh "$d" "$id" quick 2>&1)
    rc=$(echo "$out" | grep -o 'exit=[0-9]*' | tail -1)
    nk=$(echo "$out" | grep -c 'key=')
    case "$rc" in
      exit=1) echo "$id $d caught ($nk keys shown)";;
      exit=0) if [ -e "$(dirname "$d")/NOTE.md" ]; then echo "$id $d silent-by-design (see NOTE.md next to it)"; else echo "$id $d MISSED"; fi;;
      *) echo "$id $d $rc (machinery)";;
    esac
  done
done
