------------------------ MODULE Trace_ChopperCascade ------------------------
(* Code -> spec.  Judges frames observed on the real scippneutron API (one NDJSON line per   *)
(* observed frame, written by harness/drivers/c11.py; integers only).  An event says which   *)
(* cascade the program applied (pulse, choppers in the order listed by the caller, distance  *)
(* of the observed frame) and what the code reported:                                         *)
(*   pts      grid neutrons <<te2, w2, inside>>: is the neutron strictly inside one of the   *)
(*            reported polygons?  Judged with the NEUTRON layer alone (Transmitted).          *)
(*   verts    TRUE if the reported vertices were mapped onto the integer lattice of the      *)
(*            model (scale L): polys holds them, onlattice says whether every vertex was     *)
(*            within tolerance of a lattice point.  Judged against the clipping of the        *)
(*            sheared rectangle (polygon layer) as convex regions (corner sets).              *)
(*   band / regular / bounds   flags measured on the reported floats.                         *)
EXTENDS ChopperCascadeDefs, Json, IOUtils

Tr == ndJsonDeserialize(IOEnv.TRACE_FILE)

VARIABLES l, nbad
tvars == <<l, nbad>>

(* corners of a convex polygon given by its vertex list: vertices not lying between two      *)
(* other vertices; fewer than 3 corners = no interior                                        *)
Between(v, a, b) ==
    /\ Cross(a, b, v[1], v[2]) = 0
    /\ (v[1] - a[1]) * (v[1] - b[1]) + (v[2] - a[2]) * (v[2] - b[2]) < 0
Corners(poly) ==
    LET V == { poly[i] : i \in 1..Len(poly) }
    IN { v \in V : ~\E a \in V \ {v} : \E b \in V \ {v} : a # b /\ Between(v, a, b) }
Regions(polys) == { c \in { Corners(polys[k]) : k \in 1..Len(polys) } : Cardinality(c) >= 3 }

PulseOf(e) == [t0 |-> e.pulse[1], t1 |-> e.pulse[2], w0 |-> e.pulse[3], w1 |-> e.pulse[4]]

JudgeFrame(e) ==
    LET p == PulseOf(e)
        cs == e.choppers
        bad1 == { i \in 1..Len(e.pts) :  Transmitted(<<e.pts[i][1], e.pts[i][2]>>, cs) /\ ~e.pts[i][3] }
        bad2 == { i \in 1..Len(e.pts) : ~Transmitted(<<e.pts[i][1], e.pts[i][2]>>, cs) /\  e.pts[i][3] }
    IN  IF \E i \in 1..Len(e.pts) : e.pts[i][1] % 2 = 0 \/ e.pts[i][2] % 2 = 0
             \/ \E k \in 1..Len(cs) : cs[k].d % 2 # 0
          THEN "driver_error_grid"
        ELSE IF bad1 # {} THEN "transmitted_neutron_outside_all_polygons"
        ELSE IF bad2 # {} THEN "blocked_neutron_inside_a_polygon"
        ELSE IF e.verts /\ ~e.onlattice THEN "vertex_off_the_model_lattice"
        ELSE IF e.verts /\ Regions(e.polys) #
                Regions(PropagateFrame(ChopList([d |-> 0, polys |-> <<Rect(p, e.L)>>], cs, e.L, "none"),
                                       e.dist, "none").polys)
          THEN "polygons_differ_from_clipped_sheared_rectangle"
        ELSE IF ~e.band THEN "polygon_leaves_wavelength_band"
        ELSE IF ~e.regular THEN "subframe_not_regular"
        ELSE IF ~e.bounds THEN "bounds_unavailable_or_wrong"
        ELSE "ok"

Judge(e) == IF e.ev = "frame" THEN JudgeFrame(e) ELSE "unknown_event"

TInit == l = 1 /\ nbad = 0
TNext == /\ l <= Len(Tr)
         /\ l' = l + 1
         /\ LET v == Judge(Tr[l]) IN
            /\ nbad' = IF v = "ok" THEN nbad ELSE nbad + 1
            /\ (v = "ok" \/ PrintT(<<"REJECT", l, Tr[l].tid, v>>))
TSpec == TInit /\ [][TNext]_tvars
Done == (l = Len(Tr) + 1) => PrintT(<<"DONE", l - 1, nbad>>)
=============================================================================
