#!/bin/sh
# tools/confirm_seed.sh <worktree> [-k]  — confirm an independently seeded change:
#   demo fails with the change and passes without it; the repository's baseline tests still pass.
# Writes <worktree>/SEED/confirm.json. The worktree is left with the change applied.
wt=$(realpath "$1")
cd "$wt" || exit 2
export PYTHONPATH="$wt/src" PYTHONHASHSEED=0
git diff -- src > SEED/patch.diff
[ -s SEED/patch.diff ] || { echo "empty patch"; exit 2; }
/venv/bin/python -W ignore SEED/demo.py > SEED/demo_with.txt 2>&1; with=$?
git apply -R SEED/patch.diff || exit 2
/venv/bin/python -W ignore SEED/demo.py > SEED/demo_without.txt 2>&1; without=$?
git apply SEED/patch.diff || exit 2
/venv/bin/python -m pytest -q -p no:cacheprovider --timeout=900 --continue-on-collection-errors --junitxml=SEED/junit.xml > SEED/pytest.txt 2>&1
/venv/bin/python - <<PY
import json, xml.etree.ElementTree as ET
base = set(json.load(open('/root/.vp/BASELINE.json'))['stable_pass'])
t = ET.parse('SEED/junit.xml')
passed = set()
for tc in t.iter('testcase'):
    if not any(c.tag in ('failure', 'error', 'skipped') for c in tc):
        passed.add(tc.get('classname') + '::' + tc.get('name'))
missing = sorted(base - passed)
res = {'demo_exit_with_change': $with, 'demo_exit_without_change': $without,
       'baseline_tests': len(base), 'baseline_tests_passing_with_change': len(base & passed),
       'baseline_tests_failing_with_change': missing[:20]}
json.dump(res, open('SEED/confirm.json', 'w'), indent=1)
print(json.dumps(res, indent=1))
ok = $with != 0 and $without == 0 and not missing
print('CONFIRMED' if ok else 'NOT CONFIRMED')
PY
tail -3 SEED/demo_with.txt; tail -2 SEED/demo_without.txt
