--------------------------- MODULE PeakModelsDefs ---------------------------
(* State-free definitions for the peak / background models of scippneutron.peaks.model,    *)
(* shared by the state machine PeakModels and the trace specification Trace_PeakModels.    *)
(* Written from the class docstrings (parameter names, prefix, composite = left + right,   *)
(* "the parameters of the composite are the union of the component parameters ... clashes  *)
(* must be disambiguated by using prefixes") and the standard closed forms.                *)
(*                                                                                          *)
(* A name is a sequence of letters (one-character strings).  A model expression is a        *)
(* record  [kind, deg, prefix]  for a leaf ("poly" with deg >= 1, "gauss", "lorentz",       *)
(* "pvoigt"; deg = 0 for peaks) and  [kind |-> "comp", deg |-> 0, prefix, left, right]     *)
(* for a composite.                                                                        *)
EXTENDS Integers, Sequences, FiniteSets

Digits == <<"0", "1", "2", "3", "4", "5", "6", "7", "8", "9">>
AMP == <<"a", "m", "p", "l", "i", "t", "u", "d", "e">>
LOC == <<"l", "o", "c">>
SCALE == <<"s", "c", "a", "l", "e">>
FRAC == <<"f", "r", "a", "c", "t", "i", "o", "n">>
PolyName(i) == <<"a", Digits[i + 1]>>            \* a0 .. a9

LeafKinds == {"poly", "gauss", "lorentz", "pvoigt"}

LeafBase(m) ==
    CASE m.kind = "poly" -> {PolyName(i) : i \in 0..m.deg}
      [] m.kind = "gauss" -> {AMP, LOC, SCALE}
      [] m.kind = "lorentz" -> {AMP, LOC, SCALE}
      [] m.kind = "pvoigt" -> {AMP, LOC, SCALE, FRAC}

(* Names(m): the parameter names a caller must supply = prefix \o (unprefixed names);      *)
(* the unprefixed names of a composite are the (prefixed) names of its parts.              *)
RECURSIVE Names(_)
Base(m) == IF m.kind = "comp" THEN Names(m.left) \cup Names(m.right) ELSE LeafBase(m)
Names(m) == {m.prefix \o n : n \in Base(m)}

(* a composite of parts with a common name is refused *)
RECURSIVE WellFormed(_)
WellFormed(m) ==
    IF m.kind = "comp"
    THEN /\ WellFormed(m.left) /\ WellFormed(m.right)
         /\ Names(m.left) \cap Names(m.right) = {}
    ELSE m.kind \in LeafKinds /\ (m.kind = "poly" => m.deg >= 1)

ComposeOutcome(left, right) == IF Names(left) \cap Names(right) = {} THEN "ok" ELSE "refused"

WithPrefix(m, p) == [m EXCEPT !.prefix = p]

(* a call is accepted iff the supplied keys are exactly the parameter names *)
CallOutcome(m, keys) == IF keys = Names(m) THEN "ok" ELSE "refused"

RECURSIVE NLeaves(_)
NLeaves(m) == IF m.kind = "comp" THEN NLeaves(m.left) + NLeaves(m.right) ELSE 1

-----------------------------------------------------------------------------
(* Routing of parameter values.  Values are symbolic: the value supplied under key k is k  *)
(* itself, so the result records which supplied value reaches which parameter of which     *)
(* leaf.  A result is the sequence of leaves, left to right, each with the function        *)
(* unprefixed leaf parameter -> key whose value it received.                               *)
HasPrefix(n, p) == Len(n) >= Len(p) /\ SubSeq(n, 1, Len(p)) = p
Strip(n, p) == SubSeq(n, Len(p) + 1, Len(n))

(* declarative: leaf parameter b of a leaf reached through the prefixes path receives      *)
(* the value supplied under  path \o prefix \o b                                           *)
RECURSIVE RouteDecl(_, _)
RouteDecl(m, path) ==
    IF m.kind = "comp"
    THEN RouteDecl(m.left, path \o m.prefix) \o RouteDecl(m.right, path \o m.prefix)
    ELSE <<[kind |-> m.kind, deg |-> m.deg,
            args |-> [b \in LeafBase(m) |-> path \o m.prefix \o b]]>>

(* operational, as a model evaluates: the dict it receives is keyed by its own Names; it   *)
(* strips its prefix from every key (by length) and hands each part the entries whose      *)
(* stripped key is one of that part's names.  `given` = function  key -> value.            *)
RECURSIVE RouteOp(_, _)
RouteOp(m, given) ==
    LET stripped == [n \in {Strip(k, m.prefix) : k \in DOMAIN given} |->
                        given[CHOOSE k \in DOMAIN given : Strip(k, m.prefix) = n]]
    IN IF m.kind = "comp"
       THEN RouteOp(m.left, [n \in Names(m.left) |-> stripped[n]])
            \o RouteOp(m.right, [n \in Names(m.right) |-> stripped[n]])
       ELSE <<[kind |-> m.kind, deg |-> m.deg, args |-> [b \in LeafBase(m) |-> stripped[b]]]>>

Identity(S) == [k \in S |-> k]

-----------------------------------------------------------------------------
(* Polynomial over the integers: coefficients as a sequence <<a0, a1, ..., an>>            *)
RECURSIVE Pow(_, _)
Pow(x, i) == IF i = 0 THEN 1 ELSE x * Pow(x, i - 1)

RECURSIVE PolySum(_, _, _)
PolySum(a, x, i) == IF i > Len(a) THEN 0 ELSE a[i] * Pow(x, i - 1) + PolySum(a, x, i + 1)
PolyValue(a, x) == PolySum(a, x, 1)                       \* sum a_i x^i

RECURSIVE HornerFrom(_, _, _)
HornerFrom(a, x, i) == IF i = Len(a) THEN a[i] ELSE a[i] + x * HornerFrom(a, x, i + 1)
HornerValue(a, x) == HornerFrom(a, x, 1)

-----------------------------------------------------------------------------
(* Lorentzian  L(x; A, mu, s) = (A/pi) * s / ((x-mu)^2 + s^2), s > 0: an exact rational    *)
(* multiple of 1/pi.  Rationals are pairs <<num, den>> with den > 0.                        *)
LorentzCoef(A, mu, s, x) == <<A * s, (x - mu) * (x - mu) + s * s>>
RatEq(p, q) == p[1] * q[2] = q[1] * p[2]
RatHalf(p) == <<p[1], 2 * p[2]>>
RatLess(p, q) == p[1] * q[2] < q[1] * p[2]
RatAbs(p) == <<IF p[1] < 0 THEN -p[1] ELSE p[1], p[2]>>
LorentzFwhm(s) == 2 * s                                     \* the FWHM the model reports

(* Gaussian and pseudo-Voigt, symbolically.  With h = FWHM/2 of the Gaussian part           *)
(* (h = s*sqrt(2 ln 2); for the pseudo-Voigt the Gaussian part has s_G = s/sqrt(2 ln 2),    *)
(* i.e. h = s), the Gaussian at x = mu + t*h/k (t, k integers) is its peak value times      *)
(*   exp(-(t h/k)^2 / (2 s_G^2)) = 2^(-(t*t)/(k*k)).                                        *)
(* The exponent of 2 is the rational <<-(t*t), k*k>>; it equals -1 exactly at t = +-k.       *)
GaussExp2(t, k) == <<-(t * t), k * k>>

-----------------------------------------------------------------------------
(* Units.  A unit is a triple <<p, i, j>> = 10^p * u1^i * u2^j  (u1, u2 two independent    *)
(* base units; no implicit conversion between different powers of ten).                    *)
UMul(a, b) == <<a[1] + b[1], a[2] + b[2], a[3] + b[3]>>
UDiv(a, b) == <<a[1] - b[1], a[2] - b[2], a[3] - b[3]>>
UOne == <<0, 0, 0>>
RECURSIVE UPow(_, _)
UPow(a, n) == IF n = 0 THEN UOne ELSE UMul(a, UPow(a, n - 1))

(* the unit of a result: <<1, p, i, j>>, or URefused = <<0, 0, 0, 0>> when the evaluation is  *)
(* refused (operands with different units added, non-dimensionless exponent)                *)
URefused == <<0, 0, 0, 0>>
UOk(u) == <<1, u[1], u[2], u[3]>>

(* polynomial sum a_i x^i: every term must carry the same unit; pu = <<u(a0), ..., u(an)>>  *)
PolyUnit(pu, ux) ==
    IF \A i \in 1..Len(pu) : UMul(pu[i], UPow(ux, i - 1)) = pu[1] THEN UOk(pu[1]) ELSE URefused

(* x - mu and (x - mu)/s need equal units; the result carries amplitude / scale            *)
PeakUnit(kind, uA, umu, us, uf, ux) ==
    IF umu # ux \/ us # ux THEN URefused
    ELSE IF kind = "pvoigt" /\ uf # UOne THEN URefused
    ELSE UOk(UDiv(uA, us))

(* kinds for unit cases: "poly1" .. "poly6", "gauss", "lorentz", "pvoigt" *)
PolyKinds == <<"poly1", "poly2", "poly3", "poly4", "poly5", "poly6">>
IsPolyKind(k) == \E d \in 1..6 : PolyKinds[d] = k
PolyDeg(k) == CHOOSE d \in 1..6 : PolyKinds[d] = k

NParams(k) == IF IsPolyKind(k) THEN PolyDeg(k) + 1 ELSE IF k = "pvoigt" THEN 4 ELSE 3

(* canonical units for data unit uy over coordinate unit ux; parameter order:               *)
(* poly: a0, a1, (a2);  peaks: amplitude, loc, scale, (fraction)                            *)
Canonical(k, ux, uy) ==
    IF IsPolyKind(k) THEN [i \in 1..(PolyDeg(k) + 1) |-> UDiv(uy, UPow(ux, i - 1))]
    ELSE IF k = "pvoigt" THEN <<UMul(uy, ux), ux, ux, UOne>>
    ELSE <<UMul(uy, ux), ux, ux>>

ResultUnit(k, pu, ux) ==
    IF IsPolyKind(k) THEN PolyUnit(pu, ux)
    ELSE PeakUnit(IF k = "pvoigt" THEN "pvoigt" ELSE k, pu[1], pu[2], pu[3],
                  IF k = "pvoigt" THEN pu[4] ELSE UOne, ux)

SumUnit(a, b) == IF a = URefused \/ b = URefused \/ a # b THEN URefused ELSE a

-----------------------------------------------------------------------------
(* Evaluation variants (hardening round).  The property quantifies over parameter *values*  *)
(* and over x; the same values can be handed over in many forms, and none of them may       *)
(* change the outcome:                                                                      *)
(*   xd      element type of x (int32: channel / detector numbers)                          *)
(*   pd      typing of the parameters: all of one element type, or only the location /      *)
(*           only the leading coefficient integer-typed ("int_loc" / "int_leading"), or     *)
(*           every parameter except the leading coefficient ("float_leading")               *)
(*   layout  x as a 1-d array, a scalar (0-d), a strided view, 2-d, a transposed 2-d view   *)
(*   order   order in which the keyword arguments are listed                                *)
(* An integer embeds exactly in the floats, so a typing only changes how a value is stored. *)
IntTypes == {"int32", "int64"}
FloatTypes == {"float32", "float64"}
DTypes == IntTypes \cup FloatTypes
IsIntType(d) == d \in IntTypes
Typings == (DTypes \ {"int32"}) \cup {"int_loc", "int_leading", "float_leading"}
XLayouts == {"1d", "0d", "strided", "2d", "2dT"}
KeyOrders == {"declared", "reversed", "rotated"}
EvalVariants == [xd : DTypes, pd : Typings, layout : XLayouts, order : KeyOrders]

(* integer-typed and floating-point operands meet in one evaluation *)
MixedTypes(ds) == (\E d \in ds : IsIntType(d)) /\ (\E d \in ds : ~IsIntType(d))

(* element type that holds every value of both operand types (what an evaluation that does  *)
(* not narrow any operand produces)                                                         *)
JoinType(a, b) ==
    IF IsIntType(a) /\ IsIntType(b) THEN (IF a = b THEN a ELSE "int64")
    ELSE IF IsIntType(a) THEN b
    ELSE IF IsIntType(b) THEN a
    ELSE IF a = b THEN a ELSE "float64"

(* an in-place update  acc (op)= operand  can hold the result only if the accumulator's     *)
(* type already is the join                                                                 *)
InPlaceFits(acc, operand) == ~(IsIntType(acc) /\ ~IsIntType(operand))
=============================================================================
