---------------------------- MODULE BeamlineDefs ----------------------------
(* Straight-beamline geometry (scippneutron.conversion.beamline), state-free part.      *)
(* A configuration is a record [src, smp, det] of lattice positions.  All quantities    *)
(* are exact integers: beams, squared lengths, dot and squared cross product.          *)
(*   L1 = sqrt(L1sq), L2 = sqrt(L2sq), Ltotal(scatter) = sqrt(L1sq) + sqrt(L2sq),       *)
(*   Ltotal(no scatter) = sqrt(LnsSq), 2theta = atan2(sqrt(Cross2), DotB)               *)
(* are symbolic terms over these integers that the harness evaluates with mpmath.      *)
EXTENDS Lattice

IncidentBeam(c)  == VSub(c.smp, c.src)          \* points from the source to the sample
ScatteredBeam(c) == VSub(c.det, c.smp)          \* points from the sample to the detector
L1sq(c)   == Norm2(IncidentBeam(c))
L2sq(c)   == Norm2(ScatteredBeam(c))
LnsSq(c)  == Norm2(VSub(c.det, c.src))          \* straight source -> detector, no scattering
DotB(c)   == Dot(IncidentBeam(c), ScatteredBeam(c))
Cross2(c) == Norm2(Cross(IncidentBeam(c), ScatteredBeam(c)))
Cls(c)    == AngleClass(IncidentBeam(c), ScatteredBeam(c))
Proper(c) == c.src # c.smp /\ c.det # c.smp     \* both beams non-zero

(* everything the harness needs to build its reference values for c *)
Exact(c) == [n1 |-> L1sq(c), n2 |-> L2sq(c), nns |-> LnsSq(c), dot |-> DotB(c), cr2 |-> Cross2(c)]

(* ------------------------------------------------------------ group actions *)
RotateCfg(R, c)    == [src |-> MatVec(R, c.src), smp |-> MatVec(R, c.smp), det |-> MatVec(R, c.det)]
TranslateCfg(t, c) == [src |-> VAdd(c.src, t), smp |-> VAdd(c.smp, t), det |-> VAdd(c.det, t)]
(* rescale one beam by k > 0 keeping the sample where it is *)
ScaleIncidentCfg(k, c)  == [c EXCEPT !.src = VSub(c.smp, VScale(k, IncidentBeam(c)))]
ScaleScatteredCfg(k, c) == [c EXCEPT !.det = VAdd(c.smp, VScale(k, ScatteredBeam(c)))]
(* exchange the two beams: new incident beam = old scattered beam and vice versa *)
SwapCfg(c) == [src |-> VSub(c.smp, ScatteredBeam(c)), smp |-> c.smp, det |-> VAdd(c.smp, IncidentBeam(c))]

(* One transformation as data: <<name, parameter>>; used by the case export and by the  *)
(* trace specification to recompute what the harness fed to the implementation.        *)
Apply(act, p, c) ==
    CASE act = "rot"    -> RotateCfg(p, c)
      [] act = "trans"  -> TranslateCfg(p, c)
      [] act = "scale1" -> ScaleIncidentCfg(p, c)
      [] act = "scale2" -> ScaleScatteredCfg(p, c)
      [] act = "swap"   -> SwapCfg(c)

(* ------------------------------------------------------ layouts (broadcasting) *)
(* One call receives a BATCH of configurations.  Each of the three positions is either  *)
(* shared (one 0-d value for all pixels) or given per pixel; a layout names the shared   *)
(* roles.  Broadcasting must give pixel i the configuration Element(layout, shared, p_i):*)
(* the result for a pixel does not depend on how its configuration was supplied.         *)
Layouts == {"pixelwise", "scalar_geometry", "scalar_sample", "pixel_source", "scalars"}
SharedRoles(layout) ==
    CASE layout = "pixelwise"       -> {}
      [] layout = "scalar_geometry" -> {"src", "smp"}    \* the usual instrument: one source, one sample, many pixels
      [] layout = "scalar_sample"   -> {"smp"}
      [] layout = "pixel_source"    -> {"smp", "det"}    \* many source positions, one detector
      [] layout = "scalars"         -> {"src", "smp", "det"}
Element(layout, shared, pix) ==
    [src |-> IF "src" \in SharedRoles(layout) THEN shared.src ELSE pix.src,
     smp |-> IF "smp" \in SharedRoles(layout) THEN shared.smp ELSE pix.smp,
     det |-> IF "det" \in SharedRoles(layout) THEN shared.det ELSE pix.det]
(* how the per-pixel operands lie in memory / list their dims: flat 1-d, every other     *)
(* element of a longer array, a 2-d grid, a 2-d grid whose operands list the two dims in *)
(* different orders.  None of this changes Element.                                      *)
Memories == {"flat", "strided", "grid", "grid_mixed_order"}

(* --------------------------------------------- near-degenerate dyadic families *)
(* b2 = sgn*k*b1 + 2^-e p   (angle ~ 2^-e from 0 or pi) :                               *)
(*     b1.b2     = sgn*k*|b1|^2 + 2^-e (b1.p)                                           *)
(*     |b1xb2|^2 = 2^-2e |b1 x p|^2                         (b1 x b1 = 0)               *)
(* b2 = q + 2^-e p with q.b1 = 0   (angle ~ 2^-e from pi/2) :                           *)
(*     b1.b2     = 2^-e (b1.p)                                                           *)
(*     |b1xb2|^2 = |b1xq|^2 + 2^(1-e) (b1xq).(b1xp) + 2^-2e |b1xp|^2                    *)
(* The terms are small integers; the powers of two are applied by the harness with     *)
(* unbounded integers (2^80 exceeds TLC's 32 bits).                                    *)
NearParallelTerms(b1, k, sgn, p) ==
    [d0 |-> sgn * k * Norm2(b1), d1 |-> Dot(b1, p), c0 |-> 0, c1 |-> 0,
     c2 |-> Norm2(Cross(b1, p))]
NearPerpTerms(b1, q, p) ==
    [d0 |-> 0, d1 |-> Dot(b1, p), c0 |-> Norm2(Cross(b1, q)),
     c1 |-> 2 * Dot(Cross(b1, q), Cross(b1, p)), c2 |-> Norm2(Cross(b1, p))]
(* which end of [0, pi] such a pair is close to (decided without the big numbers:       *)
(* |2^-e b1.p| < |b1|^2 <= k |b1|^2 for e >= 4 and p, b1 in the unit box)              *)
NearClass(kind, sgn) == IF kind = "perp" THEN "halfpi" ELSE IF sgn > 0 THEN "zero" ELSE "pi"
=============================================================================
