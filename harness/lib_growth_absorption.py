"""Growth module 'absorption' (beyond property C18; deviations are GROWTH-FINDINGs, never violations).

Specs (spec/absorption/):
  Growth_QuadratureDefs.tla     planar point groups as integer matrices (square and Eisenstein lattice), orbits,
                                weighted rules as measures, symbolic Gauss-Legendre / sin-weighted Chebyshev line
                                rules, product rule, exact disk moments, node-count rule, constants of the three
                                bundled tables (group, published degree)
  Growth_QuadratureTables.tla   state machine: disk rule grown by whole orbits x symmetric line rule -> product;
                                15 invariants (+ Growth_MC_*.tla/.cfg bounds, Growth_Neg_* negative controls)
  Growth_LayoutDefs.tla         dense labelled arrays (order, extents, row-major buffer), slice, stack
  Growth_TransmissionLayout.tla state machine of compute_transmission_map's layout (Direct / Chunked / Slice)
  Growth_Trace_Absorption.tla   judge of the recorded observations (both growth specs)

1. TLC, exhaustive: both state machines within small bounds, three negative controls (orbit expanded under the
   generators only; one coordinate tiled instead of repeated; chunks glued under the wrong labels).
2. spec -> code: TLC exports (a) abstract disk x line rules with the expected product -> replayed into
   cylinder._cylinder_quadrature_from_product (exact integers); (b) aspect ratios with the admissible number of
   line nodes per kind -> Cylinder.quadrature; (c) every input configuration of the layout model with the
   documented outcome, labels and extents -> compute_transmission_map; (d) exact disk moments and the symbolic
   line rules, against which the harness' own oracles (lib_absorption.disk_moment_over_pi, the mpmath
   Gauss-Legendre / Chebyshev rules below) are checked first (a mismatch is a machinery failure).
3. code -> spec: one NDJSON event per observation, every event judged by Growth_Trace_Absorption.tla:
   table  the REAL tables of scippneutron.absorption.quadratures: listed entries merged into distinct points, the
          permutation each generator of the table's group induces (0 = image missing), weight classes, centre flags;
          numerically: inside the unit disk, weights > 0, sum = pi, all monomials up to the published degree
   quad   Cylinder.quadrature(kind) for z-aligned cylinders of many aspect ratios (radius and height in the same
          and, for a few, in different length units): index pairs (disk entry, line node) of every returned point,
          k = N / D, nodes / line weights / product weights against the oracle
   kind   'mc', ('mc',), ('mc', n) and unknown kinds
   layout compute_transmission_map for 0-d..3-d detector_position, 1-d / scalar / empty wavelength, label clashes,
          length / wavelength units: labels, extents, coords, unit and - for EVERY cell - the set of (detector id,
          wavelength index) pairs whose single-point evaluation reproduces the cell; thorough tier: the
          memory-bounded path (points x detectors > 2e7) compared with the map evaluated in pieces
   Corrupted copies of events (one field each) are appended as controls: TLC must reject each with the expected
   clause (controls derived from an event that is itself rejected are skipped), otherwise machinery failure.

What is numeric and how the tolerances are derived (never tuned to the tree):
  * tables: every literal is trusted to d = 1e-8 (disk55, disk256_cheb: "8-digit tables", DESIGN 3.4) resp. 1e-14
    (disk12: 15 significant digits from a double precision computation).  Perturbing each x, y, w by at most d
    changes the moment of x^a y^b by at most  d * sum_i (|x|^a |y|^b + w (a |x|^(a-1) |y|^b + b |x|^a |y|^(b-1)));
    that (times 1 + 1e-6) is the tolerance of the moment; sums are evaluated with mpmath on the exact doubles,
    the exact moments are pi * rational.  Points coincide / are images of each other within 4d, weights are in
    one class when they differ by at most 2d per merged entry.
  * quad: unit coordinates are recovered by dividing by radius and height/2 (a few ulp): table entries are matched
    within 1e-12, nodes and weights compared to 1e-13 relative.
  * layout: a cell matches a reference evaluation when it agrees to 1e-11 relative; the reference values of the
    pool are required to differ pairwise by more than 1e-7 relative (otherwise machinery failure), except where
    the model says they coincide (flat material, repeated wavelength).  The references are single-detector,
    single-wavelength calls: a metamorphic relation of the implementation, the integral itself is C18's business.
"""
from __future__ import annotations

import copy
import json
import math
import os
import time
from concurrent.futures import ThreadPoolExecutor
from fractions import Fraction as F

import mpmath
import numpy as np

from . import lib_absorption as L
from .core import MachineryError
from .tlc import require_actions, require_ok, write_ndjson

P = 'growth/absorption'
WORKERS = int(os.environ.get('VERIF_TLC_WORKERS', '16'))
TABLE_DELTA = {'disk12': 1e-14, 'disk55': 1e-8, 'disk256_cheb': 1e-8}
KINDS = ('cheap', 'medium', 'expensive')
ACTIONS = {'quadrature coverage': ('AddOrbit', 'AddListedOrbit', 'AddPair', 'AddCentre', 'MakeProduct'),
           'layout coverage': ('ComputeDirect', 'ComputeChunked', 'Refuse', 'SliceAny')}
TABLE_OF_KIND = {'cheap': 'disk12', 'medium': 'disk55', 'expensive': 'disk256_cheb'}
_mp = mpmath.mp.clone()
_mp.prec = 160


# ------------------------------------------------------------------------------------------------ oracles
def _legendre_p(k, x):
    """P_k(x) and P_k'(x) from the three-term recurrence."""
    if k == 0:
        return _mp.mpf(1), _mp.mpf(0)
    p0, p1 = _mp.mpf(1), x
    for n in range(2, k + 1):
        p0, p1 = p1, ((2 * n - 1) * x * p1 - (n - 1) * p0) / n
    return p1, k * (x * p1 - p0) / (x * x - 1)


def _legendre(k):
    """Gauss-Legendre nodes (ascending) and weights to 40+ digits: Newton on P_k, Christoffel weights."""
    xs, ws = [], []
    for j in range(1, k + 1):
        x = _mp.cos(_mp.pi * (4 * j - 1) / (4 * k + 2))
        for _ in range(80):
            p, dp = _legendre_p(k, x)
            dx = p / dp
            x -= dx
            if abs(dx) < _mp.mpf(10) ** -45:
                break
        p, dp = _legendre_p(k, x)
        xs.append(x)
        ws.append(2 / ((1 - x * x) * dp * dp))
    order = sorted(range(k), key=lambda i: xs[i])
    return [xs[i] for i in order], [ws[i] for i in order]


def _chebyshev_sin(k):
    """Nodes cos((2j-1) pi / 2k), weights proportional to sin of the same angle, total weight 2 (ascending)."""
    th = [_mp.pi * (2 * j - 1) / (2 * k) for j in range(1, k + 1)]
    s = sum(_mp.sin(t) for t in th)
    pairs = sorted((_mp.cos(t), 2 * _mp.sin(t) / s) for t in th)
    return [p[0] for p in pairs], [p[1] for p in pairs]


_LINE_CACHE: dict = {}


def line_rule(family, k):
    key = (family, k)
    if key not in _LINE_CACHE:
        xs, ws = _legendre(k) if family == 'legendre' else _chebyshev_sin(k)
        # self-test of the oracle: symmetric, inside (-1, 1), positive, total 2, degree of exactness
        tiny = _mp.mpf(10) ** -40
        ok = all(abs(xs[i] + xs[k - 1 - i]) < tiny and abs(ws[i] - ws[k - 1 - i]) < tiny for i in range(k))
        ok &= all(-1 < x < 1 for x in xs) and all(w > 0 for w in ws) and abs(sum(ws) - 2) < tiny
        ok &= all(xs[i] < xs[i + 1] for i in range(k - 1))
        deg = 2 * k - 1 if family == 'legendre' else 1
        for c in range(deg + 1):
            want = 0 if c % 2 else _mp.mpf(2) / (c + 1)
            ok &= abs(sum(w * x ** c for x, w in zip(xs, ws, strict=True)) - want) < tiny
        if not ok:
            raise MachineryError(f'line rule oracle {family}({k}) fails its own identities')
        _LINE_CACHE[key] = (xs, ws, np.array([float(x) for x in xs]), np.array([float(w) for w in ws]))
    return _LINE_CACHE[key]


def _check_oracles_against_tlc(cases):
    for rec in cases:
        if rec['ev'] == 'moment':
            if L.disk_moment_over_pi(rec['a'], rec['b']) != F(*rec['m']):
                raise MachineryError(f'oracle/TLC disk moment mismatch {rec}')
        elif rec['ev'] == 'symline':
            xs, ws, _, _ = line_rule(rec['family'], rec['k'])
            want = sorted((F(*n['z2']), F(*n['w'])) for n in rec['nodes'] for _ in range(n['mult']))
            got = sorted(zip(xs, ws, strict=True), key=lambda p: (p[0] * p[0], p[1]))
            if len(want) != len(got) or any(
                    abs(g[0] * g[0] - _mp.mpf(w[0].numerator) / w[0].denominator) > _mp.mpf(10) ** -40
                    or abs(g[1] - _mp.mpf(w[1].numerator) / w[1].denominator) > _mp.mpf(10) ** -40
                    for g, w in zip(got, want, strict=True)):
                raise MachineryError(f'oracle/TLC symbolic line rule mismatch {rec}')


# ------------------------------------------------------------------------------------------------ tables
def _cartesian_matrix(m, hex_):
    """Matrix of the spec (lattice basis) -> Cartesian 2x2 (the refinement mapping of the group action)."""
    M = np.array([[m[0], m[1]], [m[2], m[3]]], dtype=float)
    if not hex_:
        return M
    B = np.array([[1.0, 0.5], [0.0, math.sqrt(3) / 2]])
    return B @ M @ np.linalg.inv(B)


def table_event(name, table, spec, tid):
    """Observation of one bundled table; `spec` is TLC's record for it (group, generators, degree)."""
    d = TABLE_DELTA[name]
    x, y, w = (np.array(table[k], dtype=float) for k in ('x', 'y', 'weights'))
    ev = {'ev': 'table', 'tid': tid, 'name': name, 'group': spec['grp'], 'gens': spec['gens'], 'degree': spec['degree'],
          'n_listed': int(len(w)), 'n_distinct': 0, 'perms': [], 'wclass': [], 'origin': [], 'mult': [],
          'inside_ok': True, 'pos_ok': True, 'sum_ok': True, 'n_mom_bad': 0}
    info = {'name': name}
    if not (len(x) == len(y) == len(w) and len(w) > 0 and np.isfinite(x).all() and np.isfinite(y).all()
            and np.isfinite(w).all()):
        ev['inside_ok'] = False
        info['malformed'] = (len(x), len(y), len(w))
        return ev, info
    ev['inside_ok'] = bool((np.hypot(x, y) < 1).all())
    ev['pos_ok'] = bool((w > 0).all())
    # ---- merge coincident listed entries into distinct points (the measure)
    z = x + 1j * y
    rep, members = [], []
    for i in range(len(z)):
        for c, r in enumerate(rep):
            if abs(z[i] - z[r]) <= 4 * d:
                members[c].append(i)
                break
        else:
            rep.append(i)
            members.append([i])
    zc = np.array([z[m].mean() for m in members])
    wc = np.array([w[m].sum() for m in members])
    mult = [len(m) for m in members]
    n = len(rep)
    sep = np.abs(zc[:, None] - zc[None, :]) + np.eye(n)
    info['min_separation'] = float(sep.min())
    ev['n_distinct'] = n
    ev['mult'] = mult
    ev['origin'] = [bool(abs(p) <= 4 * d) for p in zc]
    # ---- weight classes: chains of weights closer than 2 d per merged entry
    order = np.argsort(wc)
    cls = np.zeros(n, dtype=int)
    c = 1
    for a, b in zip(order[:-1], order[1:], strict=True):
        cls[a] = c
        if wc[b] - wc[a] > 2 * d * max(mult[a], mult[b]):
            c += 1
    cls[order[-1]] = c
    ev['wclass'] = [int(v) for v in cls]
    # ---- permutation induced by every generator (0 = no point within 4 d of the image)
    for g in spec['gens']:
        C = _cartesian_matrix(g, spec['hex'])
        img = (C[0, 0] * zc.real + C[0, 1] * zc.imag) + 1j * (C[1, 0] * zc.real + C[1, 1] * zc.imag)
        dist = np.abs(img[:, None] - zc[None, :])
        j = dist.argmin(axis=1)
        ev['perms'].append([int(j[i]) + 1 if dist[i, j[i]] <= 4 * d else 0 for i in range(n)])
    # ---- moments up to the published degree (mpmath on the exact doubles, tolerance derived in the docstring)
    deg = spec['degree']
    ax, ay = np.abs(x), np.abs(y)
    mx, my, mw = [_mp.mpf(float(v)) for v in x], [_mp.mpf(float(v)) for v in y], [_mp.mpf(float(v)) for v in w]
    px = [[_mp.mpf(1)] * len(w)]
    py = [[_mp.mpf(1)] * len(w)]
    for _ in range(deg):
        px.append([a * b for a, b in zip(px[-1], mx, strict=True)])
        py.append([a * b for a, b in zip(py[-1], my, strict=True)])
    wpx = [[a * b for a, b in zip(row, mw, strict=True)] for row in px]
    bad, worst = [], 0.0
    with np.errstate(all='ignore'):
        for a in range(deg + 1):
            for b in range(deg + 1 - a):
                got = _mp.fsum(p * q for p, q in zip(wpx[a], py[b], strict=True))
                fr = L.disk_moment_over_pi(a, b)
                want = _mp.pi * fr.numerator / fr.denominator
                t = ax ** a * ay ** b
                if a:
                    t = t + w * a * ax ** (a - 1) * ay ** b
                if b:
                    t = t + w * b * ax ** a * ay ** (b - 1)
                tol = d * float(t.sum()) * (1 + 1e-6)
                err = float(abs(got - want))
                worst = max(worst, err / tol)
                if not err <= tol:
                    bad.append(((a, b), err, tol))
    ev['n_mom_bad'] = len(bad)
    ev['sum_ok'] = not any(m == (0, 0) for m, _, _ in bad)
    if not ev['sum_ok']:
        ev['n_mom_bad'] -= 1
    info.update(bad_moments=[(m, e, t) for m, e, t in bad[:5]], worst_err_over_tol=worst, n_moments=(deg + 1) * (deg + 2) // 2,
                merged_pairs=sum(1 for m in mult if m > 1))
    return ev, info


# ------------------------------------------------------------------------------------------------ product replay
def replay_products(ctx, cases):
    try:
        from scippneutron.absorption.cylinder import _cylinder_quadrature_from_product as product
    except ImportError:
        ctx.extra.setdefault('growth_absorption', {})['product_replay'] = 'skipped: private helper not present'
        return 0
    n = 0
    for rec in cases:
        if rec['ev'] != 'prod':
            continue
        n += 1
        disk = {'x': [float(v) for v in rec['dx']], 'y': [float(v) for v in rec['dy']], 'weights': [float(v) for v in rec['dw']]}
        line = {'x': np.array([float(v) for v in rec['lz']]), 'weights': np.array([float(v) for v in rec['lw']])}
        want = {}
        for e in rec['entries']:
            want[(e['x'], e['y'], e['z'], e['w'])] = e['n']
        try:
            q = product(disk, line)
            got = {}
            arrs = [np.asarray(q[k], dtype=float) for k in ('x', 'y', 'z', 'weights')]
            if len({a.shape for a in arrs}) != 1 or arrs[0].ndim != 1:
                raise ValueError(f'shapes {[a.shape for a in arrs]}')
            for t in zip(*arrs, strict=True):
                got[t] = got.get(t, 0) + 1
        except Exception as e:  # noqa: BLE001
            ctx.growth_finding(f'{P}: _cylinder_quadrature_from_product raised {type(e).__name__}',
                               {'disk': disk, 'line': rec['lz'], 'exc': repr(e)[:200]})
            continue
        got = {tuple(int(v) if float(v).is_integer() else v for v in k): c for k, c in got.items()}
        if got != want:
            ctx.growth_finding(f'{P}: product of a disk rule and a line rule is not the Cartesian product with product weights',
                               {'disk': disk, 'line_z': rec['lz'], 'line_w': rec['lw'], 'missing': sorted(set(want) - set(got))[:4],
                                'unexpected': sorted(set(got) - set(want))[:4]})
        elif sum(k[3] * c for k, c in got.items()) != rec['total']:
            raise MachineryError(f'TLC product case inconsistent: {rec}')
        ctx.case(nontrivial_id=('gprod', n) if len(rec['dx']) * len(rec['lz']) > 1 else None)
    return n


# ------------------------------------------------------------------------------------------------ quadrature events
def _z_cylinder(Pn, Qn, u, r_unit, h_unit):
    """z-aligned cylinder with height / radius = Pn / Qn: radius Qn*u in r_unit; base and height in h_unit."""
    import scipp as sc
    from scippneutron.absorption import Cylinder

    return Cylinder(sc.vector([0.0, 0.0, 1.0]), sc.vector([0.0, 0.0, 0.0], unit=h_unit),
                    sc.scalar(float(Qn * u), unit=r_unit),
                    sc.scalar(float(Pn * u) * (_LEN[r_unit] / _LEN[h_unit]), unit=h_unit))


_LEN = {'m': 1.0, 'cm': 1e-2, 'mm': 1e-3, 'um': 1e-6}


def quad_event(kind, Pn, Qn, u, r_unit, h_unit, tables, full, tid):
    tname = TABLE_OF_KIND[kind]
    family = 'legendre' if kind == 'cheap' else 'chebyshev_sin'
    tab = tables[tname]
    D = len(tab['weights'])
    ev = {'ev': 'quad', 'tid': tid, 'kind': kind, 'table': tname, 'family': family, 'P': Pn, 'Q': Qn, 'raised': False,
          'D': D, 'N': 0, 'full': bool(full), 'di': [], 'lj': [], 'nodes_ok': True, 'lw_ok': True, 'w_ok': True,
          'mixed': r_unit != h_unit}
    info = {'kind': kind, 'P': Pn, 'Q': Qn, 'scale': str(u), 'radius_unit': r_unit, 'height_unit': h_unit}
    try:
        cyl = _z_cylinder(Pn, Qn, u, r_unit, h_unit)
        p, w = cyl.quadrature(kind)
        pts = np.array(p.to(unit=r_unit, copy=False).values, dtype=float)
        wts = np.array(w.to(unit=f'{r_unit}**3', copy=False).values, dtype=float)
        if pts.ndim != 2 or pts.shape[1] != 3 or wts.shape != (pts.shape[0],):
            raise ValueError(f'shapes {pts.shape} {wts.shape}')
    except Exception as e:  # noqa: BLE001
        ev['raised'] = True
        info['exc'] = repr(e)[:200]
        return ev, info
    r, h = float(Qn * u), float(Pn * u)
    N = len(wts)
    ev['N'] = N
    if N == 0 or N % D:
        return ev, info
    k = N // D
    X, Y, Z = pts[:, 0] / r, pts[:, 1] / r, (pts[:, 2] - h / 2) / (h / 2)
    W = wts / (r * r * h / 2)
    # ---- index of the disk entry / line node every returned point consists of (0 = none)
    tx, ty, tw = (np.array(tab[c], dtype=float) for c in ('x', 'y', 'weights'))
    uniq, inv = np.unique(np.stack([X, Y], axis=1), axis=0, return_inverse=True)
    inv = np.asarray(inv).reshape(-1)
    dist = np.hypot(uniq[:, 0][:, None] - tx[None, :], uniq[:, 1][:, None] - ty[None, :])
    j = dist.argmin(axis=1)
    dmatch = np.where(dist[np.arange(len(uniq)), j] <= 1e-12, j + 1, 0)
    if len(uniq) == D and len(set(dmatch.tolist())) < D and 0 not in dmatch:
        # coincident table entries (listed twice within 1e-12): assign them in order of their coordinates
        for e in set(dmatch.tolist()):
            rows = np.where(dmatch == e)[0]
            if len(rows) > 1:
                cands = np.where(np.hypot(tx - tx[e - 1], ty - ty[e - 1]) <= 1e-12)[0]
                if len(cands) == len(rows):
                    rows = rows[np.lexsort((uniq[rows, 1], uniq[rows, 0]))]
                    cands = cands[np.lexsort((ty[cands], tx[cands]))]
                    dmatch[rows] = cands + 1
    di = dmatch[inv]
    _, _, nodes, lws = line_rule(family, k) if 1 <= k <= 200 else (None, None, np.zeros(0), np.zeros(0))
    if len(nodes):
        dz = np.abs(Z[:, None] - nodes[None, :])
        jz = dz.argmin(axis=1)
        zerr = dz[np.arange(N), jz]
        lj = np.where(zerr <= 1e-13, jz + 1, 0)
        ev['nodes_ok'] = bool((zerr <= 1e-13).all())
        ok = (di > 0) & (lj > 0)
        lw_got = np.where(ok, W / np.where(di > 0, tw[np.maximum(di, 1) - 1], 1.0), np.nan)
        lw_want = np.where(lj > 0, lws[np.maximum(lj, 1) - 1], np.nan)
        with np.errstate(all='ignore'):
            rel = np.abs(lw_got - lw_want) / lw_want
        # 'lw_ok': the line weights (ratio to the disk weight) are those of the family;
        # 'w_ok' : the ratio is the same for every disk entry (the weight is a product)
        ev['lw_ok'] = bool(np.nanmax(rel) <= 1e-13) if ok.any() else False
        ratio_by_node = {}
        w_ok = True
        for jj in range(1, k + 1):
            sel = ok & (lj == jj)
            if sel.any():
                vals = lw_got[sel]
                w_ok &= bool((np.abs(vals - vals[0]) <= 1e-13 * abs(vals[0])).all())
                ratio_by_node[jj] = float(vals[0])
        ev['w_ok'] = w_ok and bool(ok.all())
        info['worst_node_err'] = float(zerr.max())
        info['worst_line_weight_rel'] = float(np.nanmax(rel)) if ok.any() else None
    else:
        lj = np.zeros(N, dtype=int)
        ev['nodes_ok'] = False
    if full:
        ev['di'] = [int(v) for v in di]
        ev['lj'] = [int(v) for v in lj]
    else:
        # the bijection is decided here for the events whose index lists are not shipped to TLC
        pairs = set(zip(di.tolist(), lj.tolist(), strict=True))
        if len(pairs) != N or 0 in di or 0 in lj:
            ev['full'] = True
            ev['di'] = [int(v) for v in di]
            ev['lj'] = [int(v) for v in lj]
    info['k'] = k
    return ev, info


def kind_events(ctx, events):
    import scipp as sc
    from scippneutron.absorption import Cylinder

    cyl = Cylinder(sc.vector([0.0, 0.6, 0.8]), sc.vector([1.0, -2.0, 0.5], unit='mm'), sc.scalar(1.5, unit='mm'),
                   sc.scalar(4.0, unit='mm'))
    vol = math.pi * 1.5 ** 2 * 4.0
    n_req = ctx.rng.choice([1, 7, 100, 1234])
    for label, kind in (('mc', 'mc'), ('mc_tuple1', ('mc',)), ('mc_n', ('mc', n_req)), ('unknown', 'Cheap'),
                        ('unknown', 'gauss'), ('unknown', None), ('unknown', ('cheap',)), ('unknown', ()), ('unknown', 3)):
        ev = {'ev': 'kind', 'tid': len(events), 'kind': label, 'n_req': n_req, 'raised': False, 'N': 0, 'equal_w': True,
              'sum_ok': True, 'inside_ok': True}
        info = {'kind_arg': repr(kind)}
        try:
            p, w = cyl.quadrature(kind)
            pts = np.array(p.to(unit='mm', copy=False).values, dtype=float)
            wts = np.array(w.to(unit='mm**3', copy=False).values, dtype=float)
            ev['N'] = int(len(wts))
            if len(wts):
                ev['equal_w'] = bool((np.abs(wts - wts[0]) <= 1e-12 * abs(wts[0])).all())
                ev['sum_ok'] = bool(abs(wts.sum() / vol - 1) <= 1e-12)
                c = np.array([1.0, -2.0, 0.5]) + 2.0 * np.array([0.0, 0.6, 0.8])
                a = np.array([0.0, 0.6, 0.8])
                rel = pts - c
                ax = rel @ a
                rad = np.linalg.norm(rel - ax[:, None] * a, axis=1)
                ev['inside_ok'] = bool((rad <= 1.5 * (1 + 1e-9)).all() and (np.abs(ax) <= 2.0 * (1 + 1e-9)).all())
        except Exception as e:  # noqa: BLE001
            ev['raised'] = True
            info['exc'] = type(e).__name__
        events.append((ev, info))
        ctx.case(nontrivial_id=('gkind', len(events)) if not ev['raised'] else None)


# ------------------------------------------------------------------------------------------------ layout
class LayoutBench:
    """A fixed cylinder, two materials, a pool of detector positions and three wavelengths with the reference
    transmission of every (position, wavelength) from single-detector single-wavelength calls."""

    LAM = {1: 1.0, 2: 2.5, 3: 6.0}     # abstract wavelength value -> angstrom

    def __init__(self, ctx, n_pool):
        import scipp as sc
        from scippneutron.absorption import Cylinder, Material, compute_transmission_map
        from scippneutron.atoms import ScatteringParams

        self.sc = sc
        self.fn = compute_transmission_map
        self.cyl = Cylinder(sc.vector([0.0, 1.0, 0.0]), sc.vector([0.0, -1.0, 0.0], unit='mm'), sc.scalar(1.0, unit='mm'),
                            sc.scalar(2.0, unit='mm'))
        self.beam = sc.vector([0.0, 0.0, 1.0])
        self.mat = {
            'flat': Material(ScatteringParams('Fake', absorption_cross_section=sc.scalar(0.0, unit='mm**2'),
                                              total_scattering_cross_section=sc.scalar(0.6, unit='mm**2')),
                             sc.scalar(1.0, unit='1/mm**3')),
            'absorbing': Material(ScatteringParams('Fake', absorption_cross_section=sc.scalar(0.5, unit='mm**2'),
                                                   total_scattering_cross_section=sc.scalar(0.2, unit='mm**2')),
                                  sc.scalar(1.0, unit='1/mm**3')),
        }
        rng = np.random.default_rng(ctx.seed + 1803)
        v = rng.normal(size=(n_pool, 3))
        v /= np.linalg.norm(v, axis=1)[:, None]
        self.pool = v * rng.uniform(20.0, 400.0, size=(n_pool, 1))          # mm
        self.ref = {}
        for m in self.mat:
            tab = np.zeros((n_pool, 3))
            for i in range(n_pool):
                for val, lam in self.LAM.items():
                    tm = compute_transmission_map(
                        self.cyl, self.mat[m], beam_direction=self.beam,
                        wavelength=sc.array(dims=['wavelength'], values=[lam], unit='angstrom'),
                        detector_position=sc.vector(self.pool[i], unit='mm'), quadrature_kind='cheap')
                    tab[i, val - 1] = float(np.asarray(tm.values).reshape(-1)[0])
            if not (np.isfinite(tab).all() and (tab > 0).all()):
                raise MachineryError('layout bench: reference transmissions not finite / positive')
            self.ref[m] = tab
        # distinctness (needed to decode provenance): different detectors, and different wavelengths when absorbing
        a = self.ref['absorbing'].reshape(-1)
        gap = np.abs(a[:, None] - a[None, :]) / a[:, None] + np.eye(len(a))
        f = self.ref['flat']
        gapf = np.abs(f[:, 0][:, None] - f[:, 0][None, :]) / f[:, 0][:, None] + np.eye(n_pool)
        if gap.min() <= 1e-7 or gapf.min() <= 1e-7:
            raise MachineryError(f'layout bench: reference values not distinct ({gap.min():.2e}, {gapf.min():.2e})')
        if np.abs(f - f[:, :1]).max() > 1e-13:
            # a flat material must not depend on the wavelength: recorded as an observation of its own
            self.flat_dependent = float(np.abs(f - f[:, :1]).max())
        else:
            self.flat_dependent = 0.0

    def event(self, tid, det_dims, det_shape, wl_mode, wl_dim, wl_vals, material, det_unit='mm', wl_unit='angstrom',
              kind='cheap'):
        sc = self.sc
        n_det = int(np.prod(det_shape)) if det_shape else 1
        ids = np.arange(n_det)
        pos = self.pool[ids] * (_LEN['mm'] / _LEN[det_unit])
        if det_dims:
            det = sc.vectors(dims=list(det_dims), values=pos.reshape(*det_shape, 3), unit=det_unit)
        else:
            det = sc.vector(pos[0], unit=det_unit)
        lam = np.array([self.LAM[v] for v in wl_vals], dtype=float) * {'angstrom': 1.0, 'nm': 0.1, 'm': 1e-10}[wl_unit]
        if wl_mode == 'scalar':
            wl = sc.scalar(float(lam[0]), unit=wl_unit)
        else:
            wl = sc.array(dims=[wl_dim], values=lam, unit=wl_unit)
        ev = {'ev': 'layout', 'tid': tid, 'det_dims': list(det_dims), 'det_shape': [int(s) for s in det_shape],
              'wl_mode': wl_mode, 'wl_dim': wl_dim, 'wl_n': len(wl_vals), 'wl_vals': [int(v) for v in wl_vals],
              'material': material, 'raised': False, 'res_dims': [], 'res_shape': [], 'unit_ok': True, 'coords_ok': True,
              'cells': [], 'chunk_ok': True, 'decoded': True}
        info = {'det_unit': det_unit, 'wl_unit': wl_unit, 'kind': kind}
        det_in, wl_in = det.copy(), wl.copy()
        try:
            tm = self.fn(self.cyl, self.mat[material], beam_direction=self.beam, wavelength=wl, detector_position=det,
                         quadrature_kind=kind)
            ev['res_dims'] = [str(d) for d in tm.dims]
            ev['res_shape'] = [int(s) for s in tm.shape]
            ev['unit_ok'] = bool(tm.unit == sc.units.dimensionless and tm.dtype == sc.DType.float64)
            cs = dict(tm.coords.items())
            ev['coords_ok'] = bool(
                set(cs) == {'detector_position', 'wavelength'} and len(tm.masks) == 0
                and sc.identical(cs['detector_position'], det_in) and sc.identical(cs['wavelength'], wl_in)
                and sc.identical(det, det_in) and sc.identical(wl, wl_in))
            vals = np.asarray(tm.values, dtype=float).reshape(tm.shape)
        except Exception as e:  # noqa: BLE001
            ev['raised'] = True
            info['exc'] = f'{type(e).__name__}: {str(e)[:120]}'
            return ev, info
        ev['decoded'] = bool(vals.size <= 4096 and kind == 'cheap' and all(s <= 10 for s in vals.shape))
        if ev['decoded']:
            ref = self.ref[material][:n_det][:, [v - 1 for v in wl_vals]] if len(wl_vals) else np.zeros((n_det, 0))
            for idx in np.ndindex(*vals.shape):
                v = vals[idx]
                with np.errstate(all='ignore'):
                    hit = np.argwhere(np.abs(ref - v) <= 1e-11 * np.abs(ref))
                ev['cells'].append({'i': [int(i) + 1 for i in idx], 'm': [[int(a) + 1, int(b) + 1] for a, b in hit]})
        info['values'] = vals
        return ev, info


def _random_layout_args(rng, thorough):
    labels = ['x', 'y', 'row', 'column', 'detector', 'wavelength', 'lam', 'a']
    nd = rng.choice([0, 1, 1, 2, 2, 3])
    dims = rng.sample([x for x in labels if x not in ('wavelength', 'lam')], nd)
    shape = [rng.choice([1, 2, 3, 4] if nd < 3 else [1, 2, 3]) for _ in range(nd)]
    wl_dim = rng.choice(['wavelength', 'wavelength', 'lam'] + (dims[:1] if rng.random() < 0.15 else []))
    n = rng.choice([1, 2, 3, 4, 5])
    vals = [rng.choice([1, 2, 3]) for _ in range(n)]
    return dims, shape, 'array', wl_dim, vals, rng.choice(['flat', 'absorbing']), rng.choice(['mm', 'm', 'cm', 'um']), \
        rng.choice(['angstrom', 'nm', 'm'])


def chunk_event(bench, tid, det_dims, det_shape, kind, aspect_h):
    """The memory-bounded path (points x detectors > 2e7): compared cell by cell with the same map computed in
    pieces small enough to be evaluated at once."""
    import scipp as sc
    from scippneutron.absorption import Cylinder

    rng = np.random.default_rng(tid)
    n_det = int(np.prod(det_shape))
    v = rng.normal(size=(n_det, 3))
    v /= np.linalg.norm(v, axis=1)[:, None]
    pos = (v * rng.uniform(20.0, 400.0, size=(n_det, 1))).reshape(*det_shape, 3)
    cyl = Cylinder(sc.vector([0.0, 1.0, 0.0]), sc.vector([0.0, -1.0, 0.0], unit='mm'), sc.scalar(1.0, unit='mm'),
                   sc.scalar(float(aspect_h), unit='mm'))
    det = sc.vectors(dims=list(det_dims), values=pos, unit='mm')
    wl = sc.array(dims=['wavelength'], values=[1.0, 6.0, 2.5], unit='angstrom')
    ev = {'ev': 'layout', 'tid': tid, 'det_dims': list(det_dims), 'det_shape': [int(s) for s in det_shape],
          'wl_mode': 'array', 'wl_dim': 'wavelength', 'wl_n': 3, 'wl_vals': [1, 3, 2], 'material': 'absorbing', 'raised': False,
          'res_dims': [], 'res_shape': [], 'unit_ok': True, 'coords_ok': True, 'cells': [], 'chunk_ok': True, 'decoded': False}
    info = {'kind': kind, 'chunked': True}
    try:
        npts = cyl.quadrature(kind)[1].sizes['quad']
        info['points_x_detectors'] = npts * n_det
        tm = bench.fn(cyl, bench.mat['absorbing'], beam_direction=bench.beam, wavelength=wl, detector_position=det,
                      quadrature_kind=kind)
        ev['res_dims'] = [str(d) for d in tm.dims]
        ev['res_shape'] = [int(s) for s in tm.shape]
        ev['unit_ok'] = bool(tm.unit == sc.units.dimensionless)
        ev['coords_ok'] = bool(sc.identical(tm.coords['detector_position'], det) and sc.identical(tm.coords['wavelength'], wl))
        # reference: flat list of detectors in pieces below the threshold
        flat = sc.vectors(dims=['flat'], values=pos.reshape(-1, 3), unit='mm')
        step = max(1, 15_000_000 // npts)
        parts = []
        for s in range(0, n_det, step):
            piece = bench.fn(cyl, bench.mat['absorbing'], beam_direction=bench.beam, wavelength=wl,
                             detector_position=flat['flat', s:s + step], quadrature_kind=kind)
            parts.append(piece.transpose(['flat', 'wavelength']).values)
        ref = np.concatenate(parts, axis=0).reshape(*det_shape, 3)
        got = tm.transpose([*det_dims, 'wavelength']).values
        err = np.abs(got - ref) / ref
        ev['chunk_ok'] = bool(got.shape == ref.shape and np.isfinite(got).all() and err.max() <= 1e-11)
        info['chunk_worst_rel'] = float(err.max())
    except Exception as e:  # noqa: BLE001
        ev['raised'] = True
        info['exc'] = f'{type(e).__name__}: {str(e)[:120]}'
    return ev, info


# ------------------------------------------------------------------------------------------------ controls
def _controls(events):
    """Corrupted copies of events, one field each: (event, expected clause, index of the event it derives from)."""
    out = []

    def pick(pred):
        for i, (e, _) in enumerate(events):
            if pred(e):
                return i, copy.deepcopy(e)
        return None, None

    def add(base, items):
        out.extend((e, clause, base) for e, clause in items)

    i, t = pick(lambda e: e['ev'] == 'table' and e['name'] == 'disk55' and e['n_distinct'] > 8 and len(e['perms']) == 1)
    if t:
        a = copy.deepcopy(t)
        a['wclass'][1] += 100
        b = copy.deepcopy(t)
        b['perms'][0][3] = 0
        c = copy.deepcopy(t)
        c['perms'][0][5] = c['perms'][0][6]
        d = copy.deepcopy(t)
        d['origin'] = [False] * len(d['origin'])
        # two images exchanged: still a permutation that keeps the weight classes only if both are in one orbit
        e = copy.deepcopy(t)
        p = e['perms'][0]
        m = next(m for m in range(len(p)) if p[m] != m + 1)
        n = p[m] - 1
        p[m], p[n] = p[n], p[m]
        add(i, [(a, 'weights_differ_within_orbit'), (b, 'image_of_point_missing'), (c, 'symmetry_is_not_a_permutation'),
                (d, 'rotation_fixes_non_centre_point'), (e, 'group_relation_broken'),
                (dict(t, n_mom_bad=1), 'moments_up_to_published_degree_wrong'), (dict(t, sum_ok=False), 'weights_do_not_sum_to_pi'),
                (dict(t, degree=16), 'oracle_wrong_degree'), (dict(t, group='C2'), 'oracle_wrong_group'),
                (dict(t, n_listed=t['n_listed'] + 1), 'listed_entries_lost'), (dict(t, inside_ok=False), 'point_outside_unit_disk')])
    i, q = pick(lambda e: e['ev'] == 'quad' and e['full'] and not e['raised'] and e['N'] > e['D'] > 1 and not e['mixed'])
    if q:
        a = copy.deepcopy(q)
        a['di'][0] = a['di'][-1]
        add(i, [(a, 'not_the_cartesian_product'), (dict(q, N=q['N'] + 3 * q['D']), 'number_of_line_nodes'),
                (dict(q, N=q['N'] + 3 * q['D'], mixed=True), 'number_of_line_nodes_depends_on_units'),
                (dict(q, N=q['N'] + 1), 'point_count_not_a_multiple_of_the_disk_rule'),
                (dict(q, nodes_ok=False), 'line_nodes_differ_from_family'), (dict(q, lw_ok=False), 'line_weights_differ_from_family'),
                (dict(q, w_ok=False), 'weight_is_not_the_product'),
                (dict(q, family='legendre' if q['family'] != 'legendre' else 'chebyshev_sin'), 'oracle_wrong_table_or_family')])
    i, k = pick(lambda e: e['ev'] == 'kind' and e['kind'] == 'mc_n' and not e['raised'])
    if k:
        add(i, [(dict(k, N=k['N'] + 1), 'monte_carlo_point_count'), (dict(k, kind='unknown'), 'unknown_kind_accepted'),
                (dict(k, equal_w=False), 'monte_carlo_weights_not_equal')])
    i, la = pick(lambda e: e['ev'] == 'layout' and not e['raised'] and e['decoded'] and len(e['det_dims']) == 2 and e['wl_n'] >= 2
                 and e['material'] == 'absorbing' and len(set(e['wl_vals'])) == e['wl_n'] and len(e['cells']) >= 4
                 and e['det_shape'][0] * e['det_shape'][1] >= 2 and e['wl_dim'] not in e['det_dims'])
    if la:
        a = copy.deepcopy(la)
        a['cells'][0]['m'], a['cells'][-1]['m'] = a['cells'][-1]['m'], a['cells'][0]['m']
        b = copy.deepcopy(la)
        b['res_dims'] = b['res_dims'][:-1] + ['other']
        c = copy.deepcopy(la)
        c['res_shape'][0] += 1
        d = copy.deepcopy(la)
        d['cells'] = d['cells'][:-1]
        add(i, [(a, 'value_not_at_the_labels_of_its_inputs'), (b, 'result_labels'), (c, 'result_extents'), (d, 'oracle_cells_incomplete'),
                (dict(la, coords_ok=False), 'coordinates_are_not_the_inputs'), (dict(la, raised=True), 'raised_on_documented_input'),
                (dict(la, unit_ok=False), 'result_not_dimensionless'), (dict(la, decoded=False, chunk_ok=False), 'chunked_evaluation_differs')])
    i, lf = pick(lambda e: e['ev'] == 'layout' and not e['raised'] and e['decoded'] and e['material'] == 'flat' and e['wl_n'] >= 2
                 and e['cells'] and e['wl_dim'] not in e['det_dims'])
    if lf:
        a = copy.deepcopy(lf)
        a['cells'][0]['m'] = a['cells'][0]['m'][:1]
        add(i, [(a, 'value_not_at_the_labels_of_its_inputs')])
    i, lr = pick(lambda e: e['ev'] == 'layout' and e['raised'] and e['wl_mode'] == 'array' and e['wl_dim'] in e['det_dims']
                 and e['wl_n'] >= 2)
    if lr:
        add(i, [(dict(lr, raised=False), 'silent_result_for_a_label_used_twice')])
    return out


# ------------------------------------------------------------------------------------------------ reporting
def _report(ctx, ev, info, clause):
    if clause.startswith('oracle_') or clause == 'unknown_event':
        raise MachineryError(f'growth absorption: harness and TLA+ specification disagree: {clause} on event {ev["tid"]} ({ev["ev"]})')
    if ev['ev'] == 'table':
        text = {'point_outside_unit_disk': 'a point lies outside the unit disk',
                'weight_not_positive': 'a weight is not positive',
                'listed_entries_lost': 'listed entries lost when merging coincident points',
                'image_of_point_missing': 'the image of a point under the symmetry of the rule is not in the table',
                'symmetry_is_not_a_permutation': 'the symmetry of the rule does not permute the points',
                'weights_differ_within_orbit': 'points of one symmetry orbit carry different weights',
                'group_relation_broken': 'the symmetry of the rule does not have the order of its group element',
                'rotation_fixes_non_centre_point': 'a rotation fixes a point that is not the centre',
                'orbit_size_does_not_divide_group_order': 'an orbit size does not divide the group order',
                'weights_do_not_sum_to_pi': 'the weights do not sum to pi within the precision of the table',
                'moments_up_to_published_degree_wrong': 'monomials up to the published degree are not integrated exactly within the precision of the table',
                }.get(clause, clause)
        ctx.growth_finding(f'{P}: table {ev["name"]}: {text}',
                           {'group': ev['group'], 'degree': ev['degree'], 'n_listed': ev['n_listed'], 'n_distinct': ev['n_distinct'],
                            'bad_moments': info.get('bad_moments'), 'clause': clause})
    elif ev['ev'] == 'quad':
        text = {'quadrature_raised': f'quadrature raised {info.get("exc", "")[:40].split("(")[0]}',
                'point_count_not_a_multiple_of_the_disk_rule': 'number of points is not a multiple of the size of the disk table',
                'number_of_line_nodes': 'number of line nodes differs from the rule for the aspect ratio',
                'number_of_line_nodes_depends_on_units': 'number of line nodes depends on the units of radius and height',
                'not_the_cartesian_product': 'points are not the Cartesian product of the disk table and the line nodes',
                'line_nodes_differ_from_family': 'line nodes are not those of the family of the kind',
                'line_weights_differ_from_family': 'line weights are not those of the family of the kind',
                'weight_is_not_the_product': 'weights are not products of a disk weight and a line weight'}.get(clause, clause)
        if clause == 'number_of_line_nodes_depends_on_units':
            ctx.growth_finding(f'{P}: Cylinder.quadrature: the number of line nodes depends on the units in which radius and height '
                               'are given (height / radius is used without unit conversion)',
                               {'kind': ev['kind'], 'height/radius': f'{ev["P"]}/{ev["Q"]}', 'radius_unit': info['radius_unit'],
                                'height_unit': info['height_unit'], 'k_got': info.get('k'), 'N': ev['N'], 'D': ev['D']})
            return
        ctx.growth_finding(f"{P}: quadrature('{ev['kind']}'): {text}",
                           {'height/radius': f'{ev["P"]}/{ev["Q"]}', 'N': ev['N'], 'D': ev['D'], 'k': info.get('k'), 'info':
                            {k: v for k, v in info.items() if k not in ('kind',)}, 'clause': clause})
    elif ev['ev'] == 'kind':
        ctx.growth_finding(f'{P}: quadrature kind {ev["kind"]}: {clause.replace("_", " ")}', {'arg': info.get('kind_arg'), 'N': ev['N'],
                                                                                             'exc': info.get('exc')})
    else:
        shape = f'{len(ev["det_dims"])}-d detector_position, ' + ('scalar wavelength' if ev['wl_mode'] == 'scalar' else
                                                                  'wavelength along a detector dimension' if ev['wl_dim'] in ev['det_dims'] else '1-d wavelength')
        if info.get('chunked'):
            shape += ', memory-bounded path'
        ctx.growth_finding(f'{P}: compute_transmission_map layout: {clause.replace("_", " ")} [{shape}]',
                           {'det_dims': ev['det_dims'], 'det_shape': ev['det_shape'], 'wl_dim': ev['wl_dim'], 'wl_vals': ev['wl_vals'],
                            'material': ev['material'], 'res_dims': ev['res_dims'], 'res_shape': ev['res_shape'], 'exc': info.get('exc'),
                            'units': (info.get('det_unit'), info.get('wl_unit')), 'chunk_worst_rel': info.get('chunk_worst_rel'),
                            'first_cells': ev['cells'][:3]})


# ------------------------------------------------------------------------------------------------ main
def run(ctx):
    t0 = time.time()
    timing = {}
    last = [t0]

    def mark(name):
        timing[name] = round(time.time() - last[0], 1)
        last[0] = time.time()

    sfx = '_thorough' if ctx.thorough else ''
    cases_file = ctx.tmp / 'growth-abs-cases.ndjson'
    layout_file = ctx.tmp / 'growth-abs-layout.ndjson'
    per = max(2, WORKERS // 4)
    jobs = [
        ('quadrature model', 'absorption/Growth_MC_QuadratureTables.tla', f'Growth_MC_QuadratureTables{sfx}.cfg',
         {'env': {'CASES_FILE': cases_file}, 'workers': max(per, WORKERS // 2)}),
        ('layout model', 'absorption/Growth_MC_TransmissionLayout.tla', f'Growth_MC_TransmissionLayout{sfx}.cfg',
         {'env': {'LAYOUT_FILE': layout_file}, 'workers': per}),
        ('neg', 'absorption/Growth_MC_QuadratureTables.tla', 'Growth_Neg_QuadratureTables_halforbit.cfg', {'expect_error': True, 'workers': 2}),
        ('neg', 'absorption/Growth_MC_QuadratureTables.tla', 'Growth_Neg_QuadratureTables_tiledx.cfg', {'expect_error': True, 'workers': 2}),
        ('neg', 'absorption/Growth_MC_TransmissionLayout.tla', 'Growth_Neg_TransmissionLayout.cfg', {'expect_error': True, 'workers': 2}),
    ]
    if ctx.thorough:
        # vacuity guard (-coverage doubles TLC's run time, so only here and on the small configurations): every
        # action of both state machines is taken; in the quick tier the negative controls alone show that the
        # invariants can fire
        jobs += [('quadrature coverage', 'absorption/Growth_MC_QuadratureTables.tla', 'Growth_MC_QuadratureTables.cfg',
                  {'coverage': True, 'workers': 2, 'count': False}),
                 ('layout coverage', 'absorption/Growth_MC_TransmissionLayout.tla', 'Growth_MC_TransmissionLayout.cfg',
                  {'coverage': True, 'workers': 2, 'count': False})]
    pool = ThreadPoolExecutor(max_workers=len(jobs))
    futs = []
    for what, mod, cfg, kw in jobs:
        futs.append((what, pool.submit(ctx.tlc, mod, cfg, timeout=900, **kw)))
        time.sleep(0.05)

    # ---- meanwhile: the implementation side that does not need TLC's exports
    import scipp as sc  # noqa: F401
    from scippneutron.absorption import quadratures as Q

    tables = {}
    for name in TABLE_DELTA:
        t = getattr(Q, name, None)
        if not isinstance(t, dict) or not {'x', 'y', 'weights'} <= set(t):
            ctx.growth_finding(f'{P}: bundled table {name} is missing', {})
            continue
        tables[name] = t
    other = [n for n in dir(Q) if isinstance(getattr(Q, n), dict) and n not in TABLE_DELTA and not n.startswith('_')]
    bench = LayoutBench(ctx, 36)
    mark('bench')

    for what, f in futs:
        res = f.result()
        if what != 'neg':
            require_ok(ctx, res, f'growth absorption: {what}')
            if what in ACTIONS:
                require_actions(res, ACTIONS[what])
    pool.shutdown()
    mark('tlc_models')
    cases = [json.loads(x) for x in open(cases_file)]
    layout_cases = [json.loads(x) for x in open(layout_file)]
    _check_oracles_against_tlc(cases)
    tspec = {c['table']: c for c in cases if c['ev'] == 'table'}

    events = []
    # ---- tables
    for name, t in tables.items():
        ev, info = table_event(name, t, tspec[name], len(events))
        events.append((ev, info))
        ctx.case(nontrivial_id=('gtable', name))
    mark('tables')
    # ---- products (spec -> code)
    n_prod = replay_products(ctx, cases)
    # ---- node counts / product structure of the public quadrature
    kcases = [c for c in cases if c['ev'] == 'kcount']
    if not ctx.thorough:
        pick = []
        for kind in KINDS:          # per kind: exact ties, clipped below, clipped above, interior
            mine = [c for c in kcases if c['kind'] == kind]
            ctx.rng.shuffle(mine)
            lo, hi = min(c['ks'][0] for c in mine), max(c['ks'][-1] for c in mine)
            strata = [[c for c in mine if len(c['ks']) == 2], [c for c in mine if c['ks'] == [lo] and c['P'] < c['Q']],
                      [c for c in mine if c['ks'] == [hi]], [c for c in mine if len(c['ks']) == 1 and lo < c['ks'][0] < hi]]
            for stratum, n in zip(strata, (8, 5, 3, 14), strict=True):
                pick += stratum[:n]
        kcases = pick
    n_full = {k: 0 for k in KINDS}
    n_seen = {k: 0 for k in KINDS}
    for i, c in enumerate(kcases):
        if TABLE_OF_KIND[c['kind']] not in tables:
            continue
        u = [F(1), F(1, 4), F(3, 1000), F(7)][i % 4]
        r_unit = ['mm', 'm', 'cm', 'um'][(i // 4) % 4]
        # radius and height in different units for a few cases (the physical aspect ratio stays P/Q)
        h_unit = ['m', 'mm', 'um', 'cm'][(i // 4) % 4] if i % 15 == 7 else r_unit
        n_seen[c['kind']] += 1
        full = n_full[c['kind']] < (12 if ctx.thorough else 4) and (n_seen[c['kind']] % 3 == 1)
        n_full[c['kind']] += bool(full)
        ev, info = quad_event(c['kind'], c['P'], c['Q'], u, r_unit, h_unit, tables, full, len(events))
        events.append((ev, info))
        # spec -> code, directly: the number of line nodes TLC computed for this aspect ratio
        if not ev['raised'] and ev['N'] and ev['N'] % ev['D'] == 0 and ev['N'] // ev['D'] not in c['ks']:
            info['tlc_ks'] = c['ks']
        ctx.case(nontrivial_id=('gquad', c['kind'], c['P'], c['Q']))
    for _ in range(60 if ctx.thorough else 6):      # aspect ratios far beyond the model
        Pn, Qn = ctx.rng.randint(1, 2000), ctx.rng.randint(1, 300)
        kind = ctx.rng.choice([k for k in KINDS if TABLE_OF_KIND[k] in tables])
        ev, info = quad_event(kind, Pn, Qn, F(1, 64), 'mm', 'mm', tables, False, len(events))
        events.append((ev, info))
        ctx.case(nontrivial_id=('gquad', kind, Pn, Qn))
    kind_events(ctx, events)
    mark('quadrature')

    # ---- layout: every configuration of the model (spec -> code), then random ones beyond it
    mats = ['absorbing', 'flat']
    n_lay = 0
    for i, c in enumerate(sorted(layout_cases, key=lambda c: json.dumps(c, sort_keys=True))):
        if int(np.prod(c['det_shape'])) > 36:
            continue
        ev, info = bench.event(len(events), c['det_dims'], c['det_shape'], c['wl_mode'], c['wl_dim'], c['wl_vals'], mats[i % 2],
                               det_unit=['mm', 'm', 'cm'][i % 3], wl_unit=['angstrom', 'nm'][(i // 2) % 2])
        events.append((ev, info))
        n_lay += 1
        # direct comparison with TLC's expected labels / extents
        if c['outcome'] == 'map' and not ev['raised']:
            want = dict(zip(c['labels'], c['sizes'], strict=True))
            if dict(zip(ev['res_dims'], ev['res_shape'], strict=True)) != want:
                info['tlc_expected'] = want
        ctx.case(nontrivial_id=('glayout', i) if c['outcome'] == 'map' else None)
    for _ in range(400 if ctx.thorough else 60):
        dims, shape, mode, wl_dim, vals, material, du, wu = _random_layout_args(ctx.rng, ctx.thorough)
        ev, info = bench.event(len(events), dims, shape, mode, wl_dim, vals, material, det_unit=du, wl_unit=wu)
        events.append((ev, info))
        n_lay += 1
        ctx.case(nontrivial_id=('glayoutr', len(events)))
    if ctx.thorough:
        # the memory-bounded path: 257 x 35 points x 2304 detectors > 2e7
        events.append(chunk_event(bench, len(events), ['row', 'column'], [48, 48], 'expensive', 4.0))
        events.append(chunk_event(bench, len(events), ['pixel'], [2300], 'expensive', 4.0))
        events.append(chunk_event(bench, len(events), ['a', 'b', 'c'], [3, 28, 28], 'expensive', 4.0))
        n_lay += 3
    mark('layout')

    # ---- judge everything (controls appended)
    controls = _controls(events)
    n_real = len(events)
    recs = [e for e, _ in events]
    for i, (b, _, _) in enumerate(controls):
        b = dict(b)
        b['tid'] = n_real + i
        recs.append(b)
    tf = ctx.tmp / 'growth-abs-trace.ndjson'
    write_ndjson(tf, recs)
    tr = ctx.tlc('absorption/Growth_Trace_Absorption.tla', workers=1, env={'TRACE_FILE': str(tf), '_JAVA_OPTIONS': '-Xss32m'},
                 timeout=900)
    require_ok(ctx, tr, 'Growth_Trace_Absorption')
    done = tr.tagged('DONE')
    if not done or done[0][1] != len(recs):
        raise MachineryError(f'growth absorption: trace validation incomplete: {done} vs {len(recs)} events')
    rejected = {line: clause for _, line, _tid, clause in tr.tagged('REJECT')}
    n_ctl = 0
    for i, (_, want, base) in enumerate(controls):
        if (base + 1) in rejected:
            continue            # the event the control was derived from is itself rejected: nothing to learn from it
        n_ctl += 1
        got = rejected.get(n_real + i + 1)
        if got != want:
            raise MachineryError(f'growth absorption: control event {i} expected {want}, TLC said {got}')
    if n_ctl < 25 and not any(line <= n_real for line in rejected):
        raise MachineryError(f'growth absorption: only {n_ctl} control events although every observation was accepted')
    ctx.traces(n_real)
    mark('tlc_trace')
    for line, clause in sorted(rejected.items()):
        if line <= n_real:
            ev, info = events[line - 1]
            _report(ctx, ev, info, clause)
    # direct spec -> code comparisons that the judge also covers must not disagree with it
    for i, (ev, info) in enumerate(events):
        if ('tlc_ks' in info or 'tlc_expected' in info) and (i + 1) not in rejected:
            raise MachineryError(f'growth absorption: TLC case export and trace judge disagree on event {i}')
    if bench.flat_dependent:
        ctx.growth_finding(f'{P}: compute_transmission_map: wavelength-independent material gives wavelength-dependent values',
                           {'max_abs_difference': bench.flat_dependent})

    tinfo = {e['name']: {'listed': e['n_listed'], 'distinct': e['n_distinct'], 'coincident_entries_merged': i.get('merged_pairs'),
                         'monomials': i.get('n_moments'), 'worst_err_over_tol': round(i.get('worst_err_over_tol', 0.0), 3)}
             for e, i in events if e['ev'] == 'table'}
    ctx.extra['growth_absorption'] = {
        **ctx.extra.get('growth_absorption', {}),
        'tables': tinfo, 'other_tables_not_specified': other, 'product_cases_replayed': n_prod,
        'quad_events': sum(1 for e, _ in events if e['ev'] == 'quad'), 'quad_events_with_index_pairs': sum(
            1 for e, _ in events if e['ev'] == 'quad' and e['full']),
        'layout_events': n_lay, 'layout_model_cases': len(layout_cases), 'controls_rejected_as_expected': n_ctl,
        'timing_s': timing, 'wall_s': round(time.time() - t0, 1)}
    ctx.sample({'growth_absorption_tables': tinfo})
    ctx.assume('growth/absorption: literals of disk55 / disk256_cheb are trusted to 1e-8, of disk12 to 1e-14; the symmetry group '
               'and algebraic degree of each table are those of the cited sources (fixed in Growth_QuadratureDefs.tla)')
