SPECIFICATION Spec
CONSTANTS
  TimeUnits = {"s"}
  LengthUnits = {"angstrom", "m"}
  EnergyUnits = {"J"}
  AngleUnits = {"rad"}
  AccelUnits <- MC_AccelQuick
  InvLengthUnits <- MC_InvQuick
  DTypeSet = {"float64", "float32", "int64"}
  Kernels <- MC_AllKernels
  WithShapes = TRUE
  Bug = "scalar_param"
INVARIANT TypeOK
INVARIANT DimensionOK
INVARIANT UnitEquivariance
INVARIANT OutUnitRule
INVARIANT DTypeRule
PROPERTY OutUnitStep
PROPERTY DTypeStep
PROPERTY ShapeStep
CHECK_DEADLOCK FALSE
