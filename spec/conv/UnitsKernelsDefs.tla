-------------------------- MODULE UnitsKernelsDefs --------------------------
(* Signature table of the conversion / geometry kernels (property C07), from the documented  *)
(* formulas: per kernel the operands (with their unit family), the formula as a sum of        *)
(* monomials in h, m_n and the operands (exponents doubled), internal quantities with a       *)
(* required dimension (t0 of the inelastic kernels), the documented output unit rule, and     *)
(* the data operands that decide the precision class.                                         *)
EXTENDS UnitsDefs, DTypesDefs

(* operand -> unit family *)
ArgFam == [ tof |-> "time", time |-> "time",
            Ltotal |-> "length", L1 |-> "length", L2 |-> "length", distance |-> "length",
            wavelength |-> "length", incident_beam |-> "length", scattered_beam |-> "length",
            energy |-> "energy", incident_energy |-> "energy", final_energy |-> "energy",
            two_theta |-> "angle", Q |-> "invlength", gravity |-> "accel" ]

(* a monomial: doubled exponents of h, m_n and of operands (absent operand = exponent 0) *)
Mono(h2, m2, e) == [h |-> h2, m |-> m2, e |-> e]

(* out: <<"fixed", unit>> | <<"like", operand>> | <<"inv", operand>> (inverse of a length unit)  *)
(* trig: operands that enter only through sin / as directions (must be angles resp. any length)   *)
Kernel ==
  [ wavelength_from_tof |->
      [ args |-> <<"tof", "Ltotal">>, out |-> <<"fixed", "angstrom">>, data |-> {"tof"}, trig |-> {},
        terms |-> { Mono(2, -2, [tof |-> 2, Ltotal |-> -2]) }, aux |-> {} ],
    dspacing_from_tof |->
      [ args |-> <<"tof", "Ltotal", "two_theta">>, out |-> <<"fixed", "angstrom">>, data |-> {"tof"},
        trig |-> {"two_theta"},
        terms |-> { Mono(2, -2, [tof |-> 2, Ltotal |-> -2]) }, aux |-> {} ],
    energy_from_tof |->
      [ args |-> <<"tof", "Ltotal">>, out |-> <<"fixed", "meV">>, data |-> {"tof"}, trig |-> {},
        terms |-> { Mono(0, 2, [tof |-> -4, Ltotal |-> 4]) }, aux |-> {} ],
    energy_from_wavelength |->
      [ args |-> <<"wavelength">>, out |-> <<"fixed", "meV">>, data |-> {"wavelength"}, trig |-> {},
        terms |-> { Mono(4, -2, [wavelength |-> -4]) }, aux |-> {} ],
    wavelength_from_energy |->
      [ args |-> <<"energy">>, out |-> <<"fixed", "angstrom">>, data |-> {"energy"}, trig |-> {},
        terms |-> { Mono(2, -1, [energy |-> -1]) }, aux |-> {} ],
    Q_from_wavelength |->
      [ args |-> <<"wavelength", "two_theta">>, out |-> <<"inv", "wavelength">>, data |-> {"wavelength"},
        trig |-> {"two_theta"},
        terms |-> { Mono(0, 0, [wavelength |-> -2]) }, aux |-> {} ],
    wavelength_from_Q |->
      [ args |-> <<"Q", "two_theta">>, out |-> <<"fixed", "angstrom">>, data |-> {"Q"},
        trig |-> {"two_theta"},
        terms |-> { Mono(0, 0, [Q |-> -2]) }, aux |-> {} ],
    (* Q_vec = 2 pi / lambda * (e_i - e_f): three components in the inverse unit of the wavelength;   *)
    (* the beams enter as directions only.  The components are products with vector3 operands, which *)
    (* scipp holds in double: no single-precision promise is read into the property (weakest reading) *)
    Q_elements_from_wavelength |->
      [ args |-> <<"wavelength", "incident_beam", "scattered_beam">>, out |-> <<"inv", "wavelength">>,
        data |-> {}, trig |-> {"incident_beam", "scattered_beam"},
        terms |-> { Mono(0, 0, [wavelength |-> -2]) }, aux |-> {} ],
    dspacing_from_wavelength |->
      [ args |-> <<"wavelength", "two_theta">>, out |-> <<"fixed", "angstrom">>, data |-> {"wavelength"},
        trig |-> {"two_theta"},
        terms |-> { Mono(0, 0, [wavelength |-> 2]) }, aux |-> {} ],
    dspacing_from_energy |->
      [ args |-> <<"energy", "two_theta">>, out |-> <<"fixed", "angstrom">>, data |-> {"energy"},
        trig |-> {"two_theta"},
        terms |-> { Mono(2, -1, [energy |-> -1]) }, aux |-> {} ],
    (* dE = Ei - m L2^2 / (2 (t - t0)^2),  t0 = sqrt(m L1^2 / (2 Ei)) must be a time *)
    energy_transfer_direct_from_tof |->
      [ args |-> <<"tof", "L1", "L2", "incident_energy">>, out |-> <<"like", "incident_energy">>,
        data |-> {"tof", "incident_energy"}, trig |-> {},
        terms |-> { Mono(0, 0, [incident_energy |-> 2]), Mono(0, 2, [L2 |-> 4, tof |-> -4]) },
        aux |-> { <<Mono(0, 1, [L1 |-> 2, incident_energy |-> -1]), "time">> } ],
    energy_transfer_indirect_from_tof |->
      [ args |-> <<"tof", "L1", "L2", "final_energy">>, out |-> <<"like", "final_energy">>,
        data |-> {"tof", "final_energy"}, trig |-> {},
        terms |-> { Mono(0, 0, [final_energy |-> 2]), Mono(0, 2, [L1 |-> 4, tof |-> -4]) },
        aux |-> { <<Mono(0, 1, [L2 |-> 2, final_energy |-> -1]), "time">> } ],
    (* drop = |g| m^2 / (2 h^2) * distance^2 * lambda^2, in the unit of the distance *)
    drop_due_to_gravity |->
      [ args |-> <<"distance", "wavelength", "gravity">>, out |-> <<"like", "distance">>,
        data |-> {"wavelength"}, trig |-> {},
        terms |-> { Mono(-4, 4, [gravity |-> 2, distance |-> 4, wavelength |-> 4]) }, aux |-> {} ],
    (* angles: functions of the dimensionless ratio drop / |scattered_beam| and of directions *)
    scattering_angles_with_gravity |->
      [ args |-> <<"incident_beam", "scattered_beam", "wavelength", "gravity">>, out |-> <<"fixed", "rad">>,
        data |-> {"wavelength"}, trig |-> {"incident_beam"},
        terms |-> {},
        aux |-> { <<Mono(-4, 4, [gravity |-> 2, scattered_beam |-> 2, wavelength |-> 4]), "one">> } ],
    scattering_angle_in_yz_plane |->
      [ args |-> <<"incident_beam", "scattered_beam", "wavelength", "gravity">>, out |-> <<"fixed", "rad">>,
        data |-> {"wavelength"}, trig |-> {"incident_beam"},
        terms |-> {},
        aux |-> { <<Mono(-4, 4, [gravity |-> 2, scattered_beam |-> 2, wavelength |-> 4]), "one">> } ],
    two_theta |->
      [ args |-> <<"incident_beam", "scattered_beam">>, out |-> <<"fixed", "rad">>, data |-> {},
        trig |-> {"incident_beam", "scattered_beam"}, terms |-> {}, aux |-> {} ],
    (* t + distance * lambda * m / h, in the unit of the time operand; computed in double *)
    propagate_times |->
      [ args |-> <<"time", "wavelength", "distance">>, out |-> <<"like", "time">>, data |-> {}, trig |-> {},
        terms |-> { Mono(0, 0, [time |-> 2]), Mono(-2, 2, [wavelength |-> 2, distance |-> 2]) }, aux |-> {} ],
    wavelength_to_inverse_velocity |->
      [ args |-> <<"wavelength">>, out |-> <<"fixed", "s/m">>, data |-> {}, trig |-> {},
        terms |-> { Mono(-2, 2, [wavelength |-> 2]) }, aux |-> {} ] ]

KernelNames == DOMAIN Kernel
ArgSet(k) == { Kernel[k].args[i] : i \in 1..Len(Kernel[k].args) }
Donors(k) == IF Kernel[k].out[1] = "fixed" THEN {} ELSE {Kernel[k].out[2]}

(* documented output unit for the operand units U.  Bug = "qunit": Q documented in the unit  *)
(* of the wavelength instead of its inverse (negative control).                               *)
OutName(k, U, Bug) ==
    LET o == Kernel[k].out IN
    CASE o[1] = "fixed" -> o[2]
      [] o[1] = "like"  -> U[o[2]]
      [] o[1] = "inv"   -> IF Bug = "qunit" THEN U[o[2]] ELSE "1/" \o U[o[2]]

Exp(mono, a) == IF a \in DOMAIN mono.e THEN mono.e[a] ELSE 0

(* doubled dimension of a monomial *)
RECURSIVE SumDim(_, _, _)
SumDim(mono, args, i) ==
    IF i > Len(args) THEN Z4
    ELSE V4Add(V4Scale(Exp(mono, args[i]), FamDim[ArgFam[args[i]]]), SumDim(mono, args, i + 1))
MonoDim(k, mono) ==
    V4Add(V4Add(V4Scale(mono.h, DimH), V4Scale(mono.m, DimMn)), SumDim(mono, Kernel[k].args, 1))

(* doubled scale of the operand part of a monomial for operand units U *)
RECURSIVE SumScale(_, _, _, _)
SumScale(mono, args, U, i) ==
    IF i > Len(args) THEN Z3
    ELSE V3Add(V3Scale(Exp(mono, args[i]), UnitScale(U[args[i]])), SumScale(mono, args, U, i + 1))

(* ---- "constants converted to a unit built from the operands' units" ---------------------- *)
(* numeric value (doubled scale vector, relative to the SI value) of the constant of a         *)
(* monomial after conversion to  out-unit / prod(operand units ^ exponent).                    *)
(* Bug = "recipe": the time unit enters the energy constant with exponent 1 instead of 2.      *)
ConstNumeric(k, mono, U, Bug) ==
    LET ops == IF Bug = "recipe" /\ k = "energy_from_tof"
               THEN SumScale(Mono(0, 2, [tof |-> -2, Ltotal |-> 4]), Kernel[k].args, U, 1)
               ELSE SumScale(mono, Kernel[k].args, U, 1)
    IN V3Add(V3Scale(-2, UnitScale(OutName(k, U, "none"))), ops)

(* numeric operand values: physical magnitude P (scale vector) expressed in unit U *)
RECURSIVE SumNumeric(_, _, _, _, _)
SumNumeric(mono, args, U, P, i) ==
    IF i > Len(args) THEN Z3
    ELSE V3Add(V3Scale(Exp(mono, args[i]), V3Add(P[args[i]], V3Scale(-1, UnitScale(U[args[i]])))),
               SumNumeric(mono, args, U, P, i + 1))

(* physical value (doubled scale vector) of the term as the implementation-shaped recipe       *)
(* computes it: numeric constant * numeric operands, labelled with the output unit             *)
TermPhysical(k, mono, U, P, Bug) ==
    V3Add(V3Add(ConstNumeric(k, mono, U, Bug), SumNumeric(mono, Kernel[k].args, U, P, 1)),
          V3Scale(2, UnitScale(OutName(k, U, "none"))))

(* the definition: product of the physical operand magnitudes, independent of any unit *)
RECURSIVE SumPhys(_, _, _, _)
SumPhys(mono, args, P, i) ==
    IF i > Len(args) THEN Z3
    ELSE V3Add(V3Scale(Exp(mono, args[i]), P[args[i]]), SumPhys(mono, args, P, i + 1))
TermDefinition(k, mono, P) == SumPhys(mono, Kernel[k].args, P, 1)
=============================================================================
