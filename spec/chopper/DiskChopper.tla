----------------------------- MODULE DiskChopper -----------------------------
(* Property C10: the open/close pairs reported for a disk chopper are exactly the openings *)
(* of the uniformly rotating disk.                                                          *)
(*                                                                                          *)
(* The state is what a user builds and then asks: a slit set (AddSlit), the constructor    *)
(* (Construct / Reject: slit validation), the direct query time_offset_open/close (Direct, *)
(* or Refuse when the frequency is out of phase with the source) and the expansion over    *)
(* several source pulses for a chopper cascade (Expand), and the same object asked again   *)
(* with another pulse frequency (AskAgain).  The constructor is handed the slits in any     *)
(* listing order (Orders / Listed).  `reported` holds the answer                            *)
(* computed with the DOCUMENTED FORMULAS; the invariants compare it with the SIMULATED     *)
(* DISK (CellAt / OpenCells in DiskChopperDefs), which is defined independently from the   *)
(* geometry.  Bug selects a wrong variant (negative controls).                              *)
EXTENDS DiskChopperDefs, TLC

CONSTANTS K,          \* ticks per turn
          MaxSlits,
          BeamPos,    \* set of beam positions (ticks)
          Phases,     \* set of phases (ticks, several turns, either sign)
          Ratios,     \* set of <<num, den>> = |f| / f_pulse (in phase or not)
          MinPulses,  \* 1, or 2 where Expand(1) is left to the invariant ExpandOnePulse (= the direct answer)
          MaxPulses,
          MaxTurns,   \* the expansion is explored up to this many rotations
          Pick,       \* 0: exhaustive; k > 0 (-simulate): k random slits / setups per step
          Again,      \* TRUE: the same chopper object may be asked again with another pulse frequency
          Bug         \* "none" | "nowrap" | "wraplisted" | "perpulse" | "swap" | "phasesign" | "gap" |
                      \* "truncate" | "stalefactor"

VARIABLES slits, setup, stage, reported
vars == <<slits, setup, stage, reported>>

NoSetup == [bp |-> 0, ph |-> 0, cw |-> FALSE, num |-> 1, den |-> 1]
Cfg == [K |-> K, slits |-> slits, bp |-> setup.bp, ph |-> setup.ph, cw |-> setup.cw,
        num |-> setup.num, den |-> setup.den]

Init == /\ slits = <<>> /\ setup = NoSetup /\ stage = "slits" /\ reported = <<>>

(* slits are listed by increasing begin (the order is immaterial to every definition);     *)
(* only valid sets are extended, so an invalid set has exactly one offending slit          *)
AddSlit(b, e) ==
    /\ stage = "slits" /\ Len(slits) < MaxSlits
    /\ ValidSlits(slits, K)
    /\ Len(slits) > 0 => b >= slits[Len(slits)][1]
    /\ slits' = Append(slits, <<b, e>>)
    /\ UNCHANGED <<setup, stage, reported>>

(* The caller may list the slits in any order; the constructor sees one of them.  A correct   *)
(* validation gives the same verdict for every order, so Reject and Construct are never both  *)
(* enabled (invariant ValidationIgnoresListingOrder).                                          *)
Reject ==
    /\ stage = "slits" /\ Len(slits) >= 1
    /\ \E q \in Orders(Len(slits)) : ~ProcValid(Listed(slits, q), K, Bug)
    /\ stage' = "rejected"
    /\ UNCHANGED <<slits, setup, reported>>

Construct(bp, ph, cw, r) ==
    /\ stage = "slits" /\ Len(slits) >= 1
    /\ \E q \in Orders(Len(slits)) : ProcValid(Listed(slits, q), K, Bug)
    /\ setup' = [bp |-> bp, ph |-> ph, cw |-> cw, num |-> r[1], den |-> r[2]]
    /\ stage' = "ready"
    /\ UNCHANGED <<slits, reported>>

Refuse ==
    /\ stage = "ready" /\ ~InPhaseProc(setup.num, setup.den)
    /\ stage' = "refused"
    /\ UNCHANGED <<slits, setup, reported>>

Direct ==
    /\ stage = "ready" /\ InPhaseProc(setup.num, setup.den)
    /\ reported' = ReportedDirect(Cfg, Bug)
    /\ stage' = "direct"
    /\ UNCHANGED <<slits, setup>>

Expand(np) ==
    /\ stage = "ready" /\ InPhaseProc(setup.num, setup.den)
    /\ np * setup.num <= MaxTurns * setup.den
    /\ reported' = Expanded(Cfg, np, Bug)
    /\ stage' = "expanded"
    /\ UNCHANGED <<slits, setup>>

(* Second use: the chopper object that has already answered is asked again with ANOTHER      *)
(* pulse frequency (the chopper frequency stays, so the ratio changes).  The answer must be   *)
(* the one a fresh object would give.  bug = "stalefactor": the number of rotations per pulse *)
(* is remembered from the first question.                                                      *)
AskAgain(r2) ==
    /\ Again /\ stage = "direct"
    /\ r2 # <<setup.num, setup.den>> /\ InPhaseProc(r2[1], r2[2])
    /\ LET c2 == [Cfg EXCEPT !.num = r2[1], !.den = r2[2]]
       IN reported' = IF Bug = "stalefactor" THEN ReportedTurns(c2, -1, NRep(Cfg) - 1, Bug)
                      ELSE ReportedDirect(c2, Bug)
    /\ setup' = [setup EXCEPT !.num = r2[1], !.den = r2[2]]
    /\ stage' = "asked_again"
    /\ UNCHANGED slits

AddAnySlit ==
    /\ stage = "slits"
    /\ IF Pick = 0 THEN \E b \in 0..(K-1) : \E e \in (b+1)..(b+K-1) : AddSlit(b, e)
       ELSE \E k \in 1..Pick :
              \* (bound through singleton sets so that each random draw is made once)
              \E lo \in { IF Len(slits) = 0 THEN 0 ELSE slits[Len(slits)][2] + 1 } :     \* mostly valid sets
              \E b \in { IF lo < K - 1 /\ RandomElement(1..4) > 1 THEN RandomElement(lo..(K-1))
                          ELSE RandomElement(0..(K-1)) } :
              \E e \in { b + RandomElement(1..((K + 3) \div 4)) } : AddSlit(b, e)
ConstructAny ==
    IF Pick = 0
    THEN \E bp \in BeamPos, ph \in Phases, cw \in BOOLEAN, r \in Ratios : Construct(bp, ph, cw, r)
    ELSE \E k \in 1..Pick : \E cw \in BOOLEAN :
            \E bp \in { RandomElement(BeamPos) } : \E ph \in { RandomElement(Phases) } :
            \E r \in { RandomElement(Ratios) } : Construct(bp, ph, cw, r)
ExpandAny    == \E np \in MinPulses..MaxPulses : Expand(np)
AskAgainAny  == \E r2 \in Ratios : AskAgain(r2)

Next == AddAnySlit \/ Reject \/ ConstructAny \/ Refuse \/ Direct \/ ExpandAny \/ AskAgainAny

Spec == Init /\ [][Next]_vars

-----------------------------------------------------------------------------
Answered == stage \in {"direct", "expanded", "asked_again"}

TypeOK == /\ stage \in {"slits", "rejected", "ready", "refused", "direct", "expanded", "asked_again"}
          /\ WellFormed(slits, K)
          /\ Answered => Len(reported) > 0

(* slit sets that overlap on the circle (also across TDC) are rejected, all others accepted *)
RejectedIffOverlap ==
    /\ stage = "rejected" => ~ValidSlits(slits, K)
    /\ stage \in {"ready", "refused", "direct", "expanded", "asked_again"} => ValidSlits(slits, K)

(* the verdict of the validation does not depend on the order in which the slits are listed  *)
ValidationIgnoresListingOrder ==
    stage = "slits" =>
        \A q \in Orders(Len(slits)) : ProcValid(Listed(slits, q), K, Bug) = ProcValid(slits, K, Bug)

(* out-of-phase frequencies are refused, in-phase ones answered                             *)
RefusedIffOutOfPhase ==
    /\ stage = "refused" => ~InPhaseDecl(setup.num, setup.den)
    /\ Answered => InPhaseDecl(setup.num, setup.den)

OpenBeforeClose == Answered => OpenBeforeCloseOf(reported)
MaximalOpen     == Answered => AllMaximalOpenOf(Cfg, reported)
OncePerRotation == Answered => NoDuplicateOf(reported)
NoneMissing     == Answered => NoneMissingOf(Cfg, reported)
DurationIsWidth == Answered => DurationIsWidthOf(Cfg, reported, Durations(reported))
DirectCoversPulse == stage \in {"direct", "asked_again"} => CoversPulsesOf(Cfg, reported, 1)
(* asked again = what a fresh chopper object answers                                         *)
SecondAnswerIsFresh == stage = "asked_again" => reported = ReportedDirect(Cfg, "none")
ExpandCoversPulses == [][\A np \in 1..MaxPulses : Expand(np) => CoversPulsesOf(Cfg, reported', np)]_vars

(* the expansion over one pulse is the direct answer                                        *)
ExpandOnePulse == stage = "ready" /\ InPhaseProc(setup.num, setup.den)
                    => Expanded(Cfg, 1, "none") = ReportedDirect(Cfg, "none")
=============================================================================
