-------------------------- MODULE MC_UnitsKernels --------------------------
EXTENDS UnitsKernels, Json, IOUtils, SequencesExt

MC_AllKernels == KernelNames
MC_AccelQuick == {"m/s^2", "mm/s^2"}
MC_AccelFull  == {"m/s^2", "mm/s^2", "m/ms^2"}
MC_InvQuick == {"1/angstrom", "1/m"}
MC_InvFull  == {"1/angstrom", "1/nm", "1/m"}
=============================================================================
