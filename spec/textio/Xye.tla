--------------------------------- MODULE Xye ---------------------------------
(* save_xye / load_xye as a state machine: a configuration is chosen, Save either         *)
(* refuses it or produces a file, Load reads the file.                                    *)
(*   mode "table":     every combination of variances / dimensions (0..3) / masks /       *)
(*                     coordinates / requested coordinate / bin edges / 1 or 2 points      *)
(*                     along the dimension (default header)                                *)
(*   mode "roundtrip": every header of length <= MaxHeader over {a, #, LF, SP, digit, CR}  *)
(*                     and 1..MaxRows rows for writable configurations                        *)
EXTENDS XyeDefs

CONSTANTS MaxHeader, MaxRows,
          Part,    \* "all" | "table" | "roundtrip": which of the two families of configurations are explored
          Bug      \* "none" | "first_line_only" (negative control: only the first header line is
                   \*  commented) | "lossy" (negative control: data without variances is written)

VARIABLES cfg, phase, out, loaded
vars == <<cfg, phase, out, loaded>>

HeaderSyms == {CA, CHASH, CLF, CSP, CDIG, CCR}
Headers == UNION { [1..n -> HeaderSyms] : n \in 0..MaxHeader } \cup { <<-1>> }
CoordSets == SUBSET {0, 1, 2, 3, 4}

TableCfgs ==
    { [hasvar |-> hv, ndim |-> nd, masks |-> m, coords |-> cs, arg |-> a, edges |-> es, nrows |-> n,
       header |-> <<-1>>] :
        hv \in BOOLEAN, nd \in {0, 1, 2, 3}, m \in BOOLEAN, cs \in CoordSets, a \in {-1, 0, 1, 4},
        es \in { {}, {0}, {1}, {0, 1, 2, 3, 4} }, n \in {1, 2} }
RoundTripCfgs ==
    { [hasvar |-> TRUE, ndim |-> 1, masks |-> FALSE, coords |-> cs, arg |-> a, edges |-> {}, nrows |-> n,
       header |-> h] :
        cs \in { {2}, {0, 1} }, a \in {-1, 1}, n \in 1..MaxRows, h \in Headers }

Init == /\ cfg \in (IF Part = "roundtrip" THEN {} ELSE TableCfgs)
                   \cup (IF Part = "table" THEN {} ELSE { c \in RoundTripCfgs : c.arg \in c.coords \/ c.arg = -1 })
        /\ phase = "chosen" /\ out = [k |-> "none", kind |-> "", lines |-> <<>>]
        /\ loaded = [ok |-> FALSE, rows |-> <<>>]

BugSave(c) ==
    IF Bug = "lossy" /\ ~c.hasvar /\ Decide([c EXCEPT !.hasvar = TRUE]) = "write"
    THEN Save([c EXCEPT !.hasvar = TRUE], Bug) ELSE Save(c, Bug)

DoSave == /\ phase = "chosen"
          /\ out' = BugSave(cfg)
          /\ phase' = IF out'.k = "file" THEN "saved" ELSE "refused"
          /\ UNCHANGED <<cfg, loaded>>
DoLoad == /\ phase = "saved"
          /\ loaded' = Load(out.lines)
          /\ phase' = "loaded"
          /\ UNCHANGED <<cfg, out>>
Next == DoSave \/ DoLoad
Spec == Init /\ [][Next]_vars

-----------------------------------------------------------------------------
(* the decision table is total and exclusive: a configuration is written iff it is        *)
(* representable, refused iff at least one refusal condition holds                        *)
AnyRefusal(c) == RNoVariances(c) \/ RNot1d(c) \/ RMasks(c) \/ RNoCoord(c) \/ RAmbiguous(c) \/ RUnknown(c) \/ REdges(c)
TableTotalExclusive ==
    /\ (Decide(cfg) = "write") <=> Writable(cfg)
    /\ (Decide(cfg) # "write") <=> AnyRefusal(cfg)
    /\ Writable(cfg) => Chosen(cfg) \in cfg.coords /\ Chosen(cfg) \notin cfg.edges

RefusedNotLossy ==     \* nothing is written for data the format cannot represent
    phase \in {"saved", "loaded"} => Writable(cfg)
RefusalIffUnwritable ==
    phase = "refused" => ~Writable(cfg) /\ out.lines = <<>>

FileWellFormed == phase \in {"saved", "loaded"} => WellFormed(out.lines, cfg.nrows)

RoundTrip == phase = "loaded" => loaded = [ok |-> TRUE, rows |-> Expected(cfg)]

TypeOK == phase \in {"chosen", "saved", "refused", "loaded"}
=============================================================================
