SPECIFICATION Spec
CONSTANTS
  MaxHeader = 3
  MaxRows = 3
  Part = "roundtrip"
  Bug = "cr_kept"
INVARIANT TypeOK
INVARIANT TableTotalExclusive
INVARIANT RefusedNotLossy
INVARIANT RefusalIffUnwritable
INVARIANT FileWellFormed
INVARIANT RoundTrip
CHECK_DEADLOCK FALSE
