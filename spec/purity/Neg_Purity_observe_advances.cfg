SPECIFICATION Spec
CONSTANTS
  Keys = {1, 2}
  MaxOps = 4
  Bug = "observe_advances"
  NSlots = 3
  NUnits = 2
  NDtypes = 3
  Part = "both"
INVARIANT Fresh
INVARIANT StableObservation
INVARIANT StorePristine
INVARIANT ArgsUnchanged
CHECK_DEADLOCK FALSE
