SPECIFICATION Spec
CONSTANTS
  Heads <- AllHeads
  Masks <- MC_QuickMasks
  Bug = "none"
INVARIANT TypeOK
INVARIANT Sound
INVARIANT Complete
INVARIANT OutcomeIsDeclarative
INVARIANT Precedence
INVARIANT WalkIsDeclarative
INVARIANT NoWrongMode
INVARIANT GraphReportedIsUsed
INVARIANT StackSimple
PROPERTY Monotone
