SPECIFICATION Spec
CONSTANTS
  NPix = {0, 1, 2, 3, 7, 8, 9, 10, 11, 17, 18, 19, 20, 27, 28, 40}
  Chunks = {1, 2, 3, 4, 5, 8, 9, 10, 11, 18, 20, 100}
  RunLists <- MC_RunLists
  Orders <- MC_Orders
  MaxGen = 2
  Bug = "none"
INVARIANT AllPixelsInOrder
INVARIANT RunsEncoding
INVARIANT PrefixWhileWriting
INVARIANT PixMeta
INVARIANT RunIdsOneBased
INVARIANT SharedObject
INVARIANT RoundTrip
INVARIANT InputsUntouched
INVARIANT EmitCfg
CHECK_DEADLOCK FALSE
