SPECIFICATION Spec
CONSTANTS
  Keys = {1, 2}
  MaxOps = 4
  Bug = "none"
  NSlots = 3
  NUnits = 2
  NDtypes = 3
  Part = "providers"
INVARIANT Fresh
INVARIANT StableObservation
INVARIANT StorePristine
INVARIANT ArgsUnchanged
INVARIANT EmitHistories
INVARIANT EmitCfgs
CHECK_DEADLOCK FALSE
