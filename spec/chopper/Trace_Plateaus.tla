--------------------------- MODULE Trace_Plateaus ---------------------------
(* Validates recorded executions of find_plateaus / collapse_plateaus / filter_in_phase *)
(* against the operators of Plateaus.  One NDJSON line per call; every line is judged   *)
(* (total verdicts): a rejected event prints <<"REJECT", line, tid, clause>>.           *)
EXTENDS PlateauDefs, TLC, Json, IOUtils

Tr == ndJsonDeserialize(IOEnv.TRACE_FILE)

VARIABLES l, nbad
tvars == <<l, nbad>>

ToRuns(bins) == [k \in 1..Len(bins) |-> <<bins[k][1], bins[k][Len(bins[k])]>>]
Contiguous(b) == \A j \in 1..(Len(b)-1) : b[j+1] = b[j] + 1

JudgeFind(e) ==
    IF e.out = "raised" THEN "ok"       \* the property constrains returns only
    ELSE
    LET tol == <<e.an, e.ad>>
        want == PlateausOf(e.ys, e.dxs, tol, e.minn)
    IN  IF \E k \in 1..Len(e.bins) : Len(e.bins[k]) = 0 \/ ~Contiguous(e.bins[k])
          THEN "bin_not_a_run_of_consecutive_points"
        ELSE IF ToRuns(e.bins) # want THEN "bins_are_not_the_maximal_runs"
        ELSE IF ~e.same THEN "bin_contents_changed"
        ELSE IF Len(e.col) # Len(want) THEN "collapse_count"
        ELSE IF \E k \in 1..Len(want) : ~e.col[k].mean_ok THEN "collapse_mean"
        ELSE IF \E k \in 1..Len(want) : ~(e.col[k].lo_le_first /\ e.col[k].hi_gt_last)
          THEN "collapse_interval_does_not_contain_points"
        ELSE "ok"

JudgeInPhase(e) ==
    LET want == { i \in 1..Len(e.xs) : InPhase(e.xs[i], e.ref, e.rtol) }
        got == { e.kept[j] : j \in 1..Len(e.kept) }
    IN  IF got # want THEN "in_phase_selection"
        ELSE IF \E j \in 1..(Len(e.kept)-1) : e.kept[j] >= e.kept[j+1] THEN "in_phase_order"
        ELSE "ok"

Judge(e) == IF e.ev = "find" THEN JudgeFind(e)
            ELSE IF e.ev = "inphase" THEN JudgeInPhase(e)
            ELSE "unknown_event"

TInit == l = 1 /\ nbad = 0
TNext == /\ l <= Len(Tr)
         /\ l' = l + 1
         /\ LET v == Judge(Tr[l]) IN
            /\ nbad' = IF v = "ok" THEN nbad ELSE nbad + 1
            /\ (v = "ok" \/ PrintT(<<"REJECT", l, Tr[l].tid, v>>))
TSpec == TInit /\ [][TNext]_tvars
Done == (l = Len(Tr) + 1) => PrintT(<<"DONE", l - 1, nbad>>)
=============================================================================
