------------------------------- MODULE Lattice -------------------------------
(* Exact integer / rational vector geometry shared by Beamline (C03), Gravity (C04)   *)
(* and QVec (C08).  State-free and constant-free: vectors are triples of integers,     *)
(* matrices are triples of rows, rationals are pairs <<num, den>> with den > 0.        *)
(* Nothing here knows about the implementation.                                        *)
EXTENDS Integers, Sequences, FiniteSets

Abs(a) == IF a < 0 THEN -a ELSE a
Sgn(a) == IF a < 0 THEN -1 ELSE IF a = 0 THEN 0 ELSE 1

RECURSIVE GcdN(_, _)
GcdN(a, b) == IF b = 0 THEN a ELSE GcdN(b, a % b)          \* a, b >= 0
GCD(a, b)  == GcdN(Abs(a), Abs(b))

(* ---------------------------------------------------------------- rationals *)
Reduce(p, q) ==                     \* q # 0; result has positive denominator
    LET g == GCD(Abs(p), Abs(q))
        s == Sgn(q)
    IN  <<(s * p) \div g, (s * q) \div g>>
(* all operations divide by common factors first: TLC integers are 32 bit and TLC reports  *)
(* an overflow as an error instead of wrapping                                            *)
RatEq(a, b)  == a = b                                  \* both reduced, positive denominators
RatLt(a, b)  == LET g == GCD(a[2], b[2]) IN a[1] * (b[2] \div g) < b[1] * (a[2] \div g)
RatLe(a, b)  == LET g == GCD(a[2], b[2]) IN a[1] * (b[2] \div g) <= b[1] * (a[2] \div g)
RatAdd(a, b) == LET g == GCD(a[2], b[2]) IN
                Reduce(a[1] * (b[2] \div g) + b[1] * (a[2] \div g), (a[2] \div g) * b[2])
RatSub(a, b) == RatAdd(a, <<-b[1], b[2]>>)
RatMul(a, b) == LET g1 == GCD(a[1], b[2])  g2 == GCD(b[1], a[2])
                    h1 == IF g1 = 0 THEN 1 ELSE g1      h2 == IF g2 = 0 THEN 1 ELSE g2
                IN  Reduce((a[1] \div h1) * (b[1] \div h2), (a[2] \div h2) * (b[2] \div h1))
RatDiv(a, b) == RatMul(a, IF b[1] < 0 THEN <<-b[2], -b[1]>> ELSE <<b[2], b[1]>>)    \* b # 0

(* ------------------------------------------------------------------ vectors *)
VAdd(u, v)   == <<u[1] + v[1], u[2] + v[2], u[3] + v[3]>>
VSub(u, v)   == <<u[1] - v[1], u[2] - v[2], u[3] - v[3]>>
VNeg(u)      == <<-u[1], -u[2], -u[3]>>
VScale(k, u) == <<k * u[1], k * u[2], k * u[3]>>
Dot(u, v)    == u[1] * v[1] + u[2] * v[2] + u[3] * v[3]
Cross(u, v)  == <<u[2] * v[3] - u[3] * v[2],
                  u[3] * v[1] - u[1] * v[3],
                  u[1] * v[2] - u[2] * v[1]>>
Norm2(u)     == Dot(u, u)
Zero3        == <<0, 0, 0>>
VGcd(u)      == GCD(GCD(u[1], u[2]), u[3])
Primitive(u) == LET g == VGcd(u) IN <<u[1] \div g, u[2] \div g, u[3] \div g>>   \* u # 0

(* u is a positive multiple of v  (both non-zero) *)
SameDirection(u, v) == Cross(u, v) = Zero3 /\ Dot(u, v) > 0

(* ----------------------------------------------------------------- matrices *)
Col(M, j)    == <<M[1][j], M[2][j], M[3][j]>>
Transpose(M) == <<Col(M, 1), Col(M, 2), Col(M, 3)>>
MatVec(M, v) == <<Dot(M[1], v), Dot(M[2], v), Dot(M[3], v)>>
MatMul(A, B) == LET BT == Transpose(B) IN
                [i \in 1..3 |-> [j \in 1..3 |-> Dot(A[i], BT[j])]]
MatScale(k, M) == [i \in 1..3 |-> VScale(k, M[i])]
Identity3    == <<<<1, 0, 0>>, <<0, 1, 0>>, <<0, 0, 1>>>>
Det3(M)      == Dot(M[1], Cross(M[2], M[3]))
(* adjugate: Adj(M) * M = Det(M) * I ; its rows are the cross products of the columns  *)
Adj3(M)      == LET c1 == Col(M, 1)  c2 == Col(M, 2)  c3 == Col(M, 3)
                IN  <<Cross(c2, c3), Cross(c3, c1), Cross(c1, c2)>>

(* ----------------------------------------------- the 24 proper lattice rotations *)
Perms3 == { p \in [1..3 -> 1..3] : \A i, j \in 1..3 : i # j => p[i] # p[j] }
SignedPerm(p, s) == [i \in 1..3 |-> [j \in 1..3 |-> IF j = p[i] THEN s[i] ELSE 0]]
Rot24 == { M \in { SignedPerm(p, s) : p \in Perms3, s \in [1..3 -> {-1, 1}] } : Det3(M) = 1 }
(* the 24 improper ones, used by negative controls / chirality arguments only *)
Refl24 == { M \in { SignedPerm(p, s) : p \in Perms3, s \in [1..3 -> {-1, 1}] } : Det3(M) = -1 }

(* ---------------------------------- rational rotations from integer quaternions *)
(* q = <<w, x, y, z>> # 0.  The rotation is QuatMat(q) / QuatN(q); QuatMat(q) is an     *)
(* integer matrix with  M * M^T = N^2 * I  and  Det(M) = N^3.                           *)
QuatN(q) == q[1] * q[1] + q[2] * q[2] + q[3] * q[3] + q[4] * q[4]
QuatMat(q) ==
    LET w == q[1]  x == q[2]  y == q[3]  z == q[4] IN
    << <<w*w + x*x - y*y - z*z, 2 * (x*y - w*z),       2 * (x*z + w*y)>>,
       <<2 * (x*y + w*z),       w*w - x*x + y*y - z*z, 2 * (y*z - w*x)>>,
       <<2 * (x*z - w*y),       2 * (y*z + w*x),       w*w - x*x - y*y + z*z>> >>

(* ------------------------------------------------------------ angle classes *)
(* The angle between two non-zero vectors is determined by the pair                     *)
(*      ( b1.b2 , |b1 x b2|^2 )     modulo positive rescaling of b1 and of b2.         *)
(* b1 -> k b1 multiplies the dot by k and the squared cross by k^2, so the canonical   *)
(* representative is  << sign(dot), cos^2 >>  with cos^2 = dot^2 / (|b1|^2 |b2|^2)     *)
(* a reduced rational.  2theta = atan2(sqrt(cross2), dot) is evaluated from the exact   *)
(* pair by the harness (TLC has no reals).                                             *)
ClassUndefined == <<2, <<0, 1>>>>   \* one of the vectors is zero: no angle
AngleClass(b1, b2) ==
    LET d == Dot(b1, b2)  nn == Norm2(b1) * Norm2(b2) IN
    IF nn = 0 THEN ClassUndefined ELSE <<Sgn(d), Reduce(d * d, nn)>>

(* the same class from an exact pair (dot, cross2): cos^2 = dot^2 / (dot^2 + cross2)   *)
ClassOfPair(d, c2) == <<Sgn(d), Reduce(d * d, d * d + c2)>>

(* Order of angles in [0, pi] through their classes: angle(a) < angle(b) iff cos a > cos b *)
SignedCos2(c) == <<c[1] * c[2][1], c[2][2]>>       \* sign(cos) * cos^2, a rational
AngleLt(a, b) == RatLt(SignedCos2(b), SignedCos2(a))
AngleEq(a, b) == a = b
ClassZero   == <<1, <<1, 1>>>>      \* 2theta = 0
ClassPi     == <<-1, <<1, 1>>>>     \* 2theta = pi
ClassHalfPi == <<0, <<0, 1>>>>      \* 2theta = pi/2
=============================================================================
