------------------------------ MODULE Cylinder ------------------------------
(* The solid cylinder of scippneutron.absorption as a state machine.                          *)
(*                                                                                            *)
(* State: a description `cyl` of the solid, a probe point `pt`, and (after Shoot) a ray together  *)
(* with `mem`, the pointwise membership Inside(s + (j/K) n), j = 0..J, of sampled ray points,  *)
(* and `sum`, what the closed form says about the ray (RaySummary).                             *)
(* Actions = the operations the property quantifies over:                                      *)
(*   Rotate(q), Translate(tau)  move sample and probe point together rigidly                  *)
(*   OtherEnd                   re-describe the same solid from its other end                 *)
(*   Shoot(s, n)                send a ray through the (unmoved) solid                        *)
(* Properties (one INVARIANT each):                                                           *)
(*   FrameOK            the frame stays a proper rational rotation, the axis a unit vector    *)
(*   InsideInvariant    Inside(g.cyl, g.pt) <=> Inside(cyl, pt) for every rigid motion g and   *)
(*                      Inside(OtherEnd(cyl), pt) <=> Inside(cyl, pt)                         *)
(*   ChordSandwich      the closed-form chord interval agrees with pointwise membership of the *)
(*                      sampled points s + (j/K) n, j = 0..J  (inner/outer integer bounds of   *)
(*                      irrational roots; equality where the discriminant is a perfect square) *)
(*   LengthIsMeasure    PathLength = length of {t >= 0 : Inside(s + t n)}: it differs from the *)
(*                      number of sampled points inside, divided by K, by less than 1/K        *)
(*   ClassOK            the ray classes are consistent with the length being zero / positive   *)
EXTENDS CylinderDefs, TLC

CONSTANTS AxisQuats,   \* quaternions whose rotation takes e_z to the initial axis
          Bases,       \* initial base points (vectors)
          Radii, Heights,
          Points,      \* probe points (vectors)
          CubeQuats,   \* rotations with integer matrices
          SkewQuats,   \* rotations with fractional matrices (at most one per behaviour)
          Shifts,      \* translations (vectors)
          MaxMoves,
          Starts, Dirs,\* ray starts (vectors) and unit directions
          K, J,        \* sampling of the ray parameter: t = j/K, j = 0..J
          Bug          \* "none" | "otherend_keeps_axis" | "noclip"  (negative controls)

VARIABLES cyl, pt, ins0, ray, mem, sum, moves, skew
vars == <<cyl, pt, ins0, ray, mem, sum, moves, skew>>

NoRay == [s |-> <<0, 0, 0, 1>>, n |-> <<0, 0, 0, 1>>]
HasRay == IsUnit(ray.n)
Origin == <<0, 0, 0, 1>>

Init == /\ \E q \in AxisQuats, b \in Bases, r \in Radii, h \in Heights : cyl = MkCyl(q, b, r, h)
        /\ pt \in Points
        /\ ins0 = Inside(cyl, pt)
        /\ ray = NoRay
        /\ mem = <<>>
        /\ sum = [cls |-> "none"]
        /\ moves = 0
        /\ skew = 0

Rotate(q, isSkew) ==
    /\ ~HasRay /\ moves < MaxMoves
    /\ (isSkew => skew = 0)
    /\ cyl' = MoveCyl(q, Origin, cyl)
    /\ pt' = MovePt(q, Origin, pt)
    /\ moves' = moves + 1
    /\ skew' = IF isSkew THEN 1 ELSE skew
    /\ UNCHANGED <<ins0, ray, mem, sum>>

Translate(tau) ==
    /\ ~HasRay /\ moves < MaxMoves
    /\ cyl' = MoveCyl(<<1, 0, 0, 0>>, tau, cyl)
    /\ pt' = MovePt(<<1, 0, 0, 0>>, tau, pt)
    /\ moves' = moves + 1
    /\ UNCHANGED <<ins0, ray, mem, sum, skew>>

OtherEnd ==
    /\ ~HasRay /\ moves < MaxMoves
    /\ cyl' = IF Bug = "otherend_keeps_axis"
              THEN [OtherEndCyl(cyl) EXCEPT !.m = cyl.m]
              ELSE OtherEndCyl(cyl)
    /\ moves' = moves + 1
    /\ UNCHANGED <<pt, ins0, ray, mem, sum, skew>>

Shoot(s, n) ==
    /\ ~HasRay /\ moves = 0
    /\ ray' = [s |-> s, n |-> n]
    /\ mem' = [i \in 1..(J + 1) |-> Inside(cyl, RayPoint([s |-> s, n |-> n], i - 1, K))]
    /\ sum' = RaySummary(cyl, [s |-> s, n |-> n])
    /\ pt' = Origin
    /\ ins0' = Inside(cyl, Origin)
    /\ UNCHANGED <<cyl, moves, skew>>

Next == \/ \E q \in CubeQuats : Rotate(q, FALSE)
        \/ \E q \in SkewQuats : Rotate(q, TRUE)
        \/ \E tau \in Shifts : Translate(tau)
        \/ OtherEnd
        \/ (~HasRay /\ moves = 0 /\ \E s \in Starts, n \in Dirs : Shoot(s, n))   \* guard first: terminal states do not enumerate rays

Spec == Init /\ [][Next]_vars

-----------------------------------------------------------------------------
FrameOK == /\ IsRotation(cyl.m, cyl.k)
           /\ cyl.b[4] > 0 /\ pt[4] > 0
           /\ Sq(cyl.m[1][3]) + Sq(cyl.m[2][3]) + Sq(cyl.m[3][3]) = Sq(cyl.k)

InsideInvariant == Inside(cyl, pt) = ins0

Sum == sum     \* RaySummary(cyl, ray), evaluated once by Shoot: class, exactness, length, inner / closed outer interval

ChordSandwich ==
    HasRay =>
      LET S == Sum
      IN \A j \in 0..J :
           LET t == <<j, K>>
               ins == mem[j + 1]
           IN /\ InIv(S.inner, t) => ins
              /\ ins => InIv(S.closedOuter, t)

(* the length the specification reports (negative control "noclip": not clipped to t >= 0) *)
SpecLength(S) ==
    IF Bug = "noclip"
    THEN LET P == RayParts(cyl, ray)
             I == Inter(SlabIv(cyl, P), CylIv(cyl, P, SqLoP(P)))
         IN IF I.kind = "iv" /\ RLt(I.lo, I.hi) THEN RSub(I.hi, I.lo) ELSE RZero
    ELSE S.len

SampleCount == Cardinality({j \in 0..J : mem[j + 1]})

(* a closed interval of length L contains between floor(L K) and floor(L K)+1 points j/K, as long *)
(* as the samples reach beyond its end; checked where the length is rational                      *)
LengthIsMeasure ==
    HasRay =>
      LET S == Sum
          L == SpecLength(S)
          covered == S.inner.kind = "none" \/ RLt(S.inner.hi, <<J, K>>)
      IN (S.exact /\ covered) =>
           LET cnt == SampleCount
           IN /\ (cnt - 1) * L[2] <= L[1] * K           \* (cnt-1)/K <= L
              /\ L[1] * K < (cnt + 1) * L[2]            \* L < (cnt+1)/K

ClassOK ==
    HasRay =>
      LET S == Sum
      IN /\ S.cls \in RayClasses \cup {"undecided"}
         /\ (S.cls \in ZeroClasses /\ S.exact) => S.len = RZero
         /\ (S.cls \in {"from_inside", "from_outside", "parallel_hit"}) => RLt(RZero, S.len)
         /\ (S.cls = "from_inside") => Inside(cyl, ray.s)
=============================================================================
