------------------------ MODULE Growth_MetadataDefs ------------------------
(* GROWTH (beyond the 20 listed properties): construction, validation, normalisation and  *)
(* serialisation of the metadata models  scippneutron.metadata.{Beamline, Measurement,    *)
(* Person, Software, Source}  as a decision table over ABSTRACT input classes, written     *)
(* from the class documentation (field annotations, field docstrings, class docstrings     *)
(* and the docstring of the "before validator" that unpacks scalar scipp variables).       *)
(*                                                                                          *)
(* A call  Cls(kwargs...)  is abstracted to  given : field -> token  where a token names the *)
(* class of the supplied argument ("absent" = keyword not passed).  Every token carries a   *)
(* concrete payload chosen by the harness (a text, an ORCID iD, an e-mail address, an        *)
(* instant, an enum member); the specification never looks at the payload, it only says     *)
(* whether the argument is accepted and which NORMAL FORM of the same payload is stored.     *)
(*                                                                                          *)
(* State-free definitions only (no VARIABLES) so that the state machine                     *)
(* Growth_MetadataModels, the case generator Growth_Gen_Metadata and the judge              *)
(* Growth_Trace_Metadata can all EXTEND this module.                                        *)
EXTENDS Integers, Sequences, FiniteSets

CONSTANT Bug    \* "none" | "enum_dump_name" | "url_after_last_comma"   (negative controls)

Classes == {"Beamline", "Measurement", "Person", "Software", "Source"}

-----------------------------------------------------------------------------
(* Field kinds                                                                             *)
(*   vstr    str,          scalar-variable unpacking          (Beamline.name, Person.name)  *)
(*   ovstr   str | None,   scalar-variable unpacking                                        *)
(*   str     str           no unpacking                        (Software.name / version)     *)
(*   ostr    str | None    no unpacking                        (Software.url / doi)          *)
(*   bool    bool                                                                           *)
(*   oorcid  ORCIDiD | None, scalar-variable unpacking                                      *)
(*   oemail  EmailStr | None, scalar-variable unpacking                                     *)
(*   odt     datetime | None ("do not support conversion from variables")                   *)
(*   stype   SourceType enum        probe   RadiationProbe enum                             *)
(* default: "REQUIRED" (no default: the keyword must be passed) or the normal form stored   *)
(* when the keyword is absent.  NB Measurement.title is nullable AND required.              *)
F(k, d) == [kind |-> k, default |-> d]

Schema(c) ==
    CASE c = "Beamline" ->
           [name |-> F("vstr", "REQUIRED"), facility |-> F("ovstr", "NONE"),
            site |-> F("ovstr", "NONE"), revision |-> F("ovstr", "NONE")]
      [] c = "Measurement" ->
           [title |-> F("ovstr", "REQUIRED"), run_number |-> F("ovstr", "NONE"),
            experiment_id |-> F("ovstr", "NONE"), experiment_doi |-> F("ovstr", "NONE"),
            start_time |-> F("odt", "NONE"), end_time |-> F("odt", "NONE")]
      [] c = "Person" ->
           [name |-> F("vstr", "REQUIRED"), orcid_id |-> F("oorcid", "NONE"),
            corresponding |-> F("bool", "FALSE"), owner |-> F("bool", "TRUE"),
            role |-> F("ovstr", "NONE"), address |-> F("ovstr", "NONE"),
            email |-> F("oemail", "NONE"), affiliation |-> F("ovstr", "NONE")]
      [] c = "Software" ->
           [name |-> F("str", "REQUIRED"), version |-> F("str", "REQUIRED"),
            url |-> F("ostr", "NONE"), doi |-> F("ostr", "NONE")]
      [] c = "Source" ->
           [name |-> F("ovstr", "NONE"), source_type |-> F("stype", "REQUIRED"),
            probe |-> F("probe", "REQUIRED")]

FieldsOf(c) == DOMAIN Schema(c)
Kind(c, f) == Schema(c)[f].kind
Default(c, f) == Schema(c)[f].default
Required(c, f) == Default(c, f) = "REQUIRED"

Kinds == {"vstr", "ovstr", "str", "ostr", "bool", "oorcid", "oemail", "odt", "stype", "probe"}
Nullable(k) == k \in {"ovstr", "ostr", "oorcid", "oemail", "odt"}
Unpacks(k) == k \in {"vstr", "ovstr", "oorcid", "oemail"}

-----------------------------------------------------------------------------
(* Input tokens per kind (the classes of arguments the harness can build).                  *)
(*   str / digits     Python str (digits: ASCII digits only, else: contains an ASCII letter) *)
(*   var, var_one     0-d scipp Variable holding the text, unit None / dimensionless         *)
(*   var_digits       0-d Variable holding a digit string                                    *)
(*   var_unit         0-d Variable holding the text but with unit 'm'      -> refused        *)
(*   var_1d           1-d Variable of length 1 holding the text            -> refused        *)
(*   var_int          0-d Variable holding an integer                       -> refused        *)
(*   int, list        Python int / list (wrong type)                        -> refused        *)
(*   orcid_*          bare id, resolver URL, ORCIDiD instance, 0-d Variable with the bare id, *)
(*                    the same with a unit, wrong check character, wrong resolver, wrong      *)
(*                    block structure                                                        *)
(*   email, email_var, email_bad                                                             *)
(*   dt_aware / dt_naive  datetime objects;  dt_iso / dt_iso_naive  ISO 8601 strings;          *)
(*   dt_var  0-d datetime64 Variable (refused: naive w.r.t. time zones);  dt_garbage          *)
(*   member / value   enum member / the member's value string;  value_unknown  a string that  *)
(*                    is no value of the enum;  member_other  a member of the OTHER enum       *)
Tok(k) ==
    CASE k \in {"vstr", "ovstr"} ->
           {"absent", "none", "str", "digits", "var", "var_one", "var_digits", "var_unit",
            "var_1d", "var_int", "int", "list"}
      [] k \in {"str", "ostr"} -> {"absent", "none", "str", "digits", "var", "int", "list"}
      [] k = "bool" -> {"absent", "none", "true", "false", "list"}
      [] k = "oorcid" ->
           {"absent", "none", "orcid_bare", "orcid_url", "orcid_obj", "orcid_var",
            "orcid_var_unit", "orcid_badcheck", "orcid_badresolver", "orcid_badshape", "int"}
      [] k = "oemail" -> {"absent", "none", "email", "email_var", "email_bad", "int"}
      [] k = "odt" ->
           {"absent", "none", "dt_aware", "dt_naive", "dt_iso", "dt_iso_naive", "dt_var",
            "dt_garbage", "list"}
      [] k \in {"stype", "probe"} ->
           {"absent", "none", "member", "value", "value_unknown", "member_other", "int"}

AllTokens == UNION {Tok(k) : k \in Kinds}

(* Normal form stored for an accepted argument, "REJECT" for a refused one.  "absent" is    *)
(* handled by Construct (default / required).                                              *)
Normals == {"NONE", "TEXT", "DIGITS", "TRUE", "FALSE", "ORCID", "EMAIL", "DT_AWARE",
            "DT_NAIVE", "MEMBER"}

TextNormal(t, unpack) ==
    CASE t = "str" -> "TEXT"
      [] t = "digits" -> "DIGITS"
      [] unpack /\ t \in {"var", "var_one"} -> "TEXT"
      [] unpack /\ t = "var_digits" -> "DIGITS"
      [] OTHER -> "REJECT"

Normal(k, t) ==
    IF t = "none" THEN (IF Nullable(k) THEN "NONE" ELSE "REJECT")
    ELSE CASE k \in {"vstr", "ovstr"} -> TextNormal(t, TRUE)
           [] k \in {"str", "ostr"} -> TextNormal(t, FALSE)
           [] k = "bool" -> (CASE t = "true" -> "TRUE" [] t = "false" -> "FALSE" [] OTHER -> "REJECT")
           [] k = "oorcid" ->
                (IF t \in {"orcid_bare", "orcid_url", "orcid_obj", "orcid_var"} THEN "ORCID" ELSE "REJECT")
           [] k = "oemail" -> (IF t \in {"email", "email_var"} THEN "EMAIL" ELSE "REJECT")
           [] k = "odt" ->
                (CASE t \in {"dt_aware", "dt_iso"} -> "DT_AWARE"
                   [] t \in {"dt_naive", "dt_iso_naive"} -> "DT_NAIVE"
                   [] OTHER -> "REJECT")
           [] k \in {"stype", "probe"} -> (IF t \in {"member", "value"} THEN "MEMBER" ELSE "REJECT")

Accepts(k, t) == Normal(k, t) # "REJECT"

(* normal forms a field of kind k can hold *)
NormalsOf(k) == {Normal(k, t) : t \in Tok(k) \ {"absent"}} \ {"REJECT"}

-----------------------------------------------------------------------------
(* Construction:  Cls(given...)                                                              *)
FieldOK(c, f, t) == IF t = "absent" THEN ~Required(c, f) ELSE Accepts(Kind(c, f), t)

BadFields(c, given) == {f \in FieldsOf(c) : ~FieldOK(c, f, given[f])}

Stored(c, f, t) == IF t = "absent" THEN Default(c, f) ELSE Normal(Kind(c, f), t)

(* derived read-only properties documented on the classes:                                  *)
(*  Measurement.run_number_maybe_int -> int | str | None : "the run number as an int if      *)
(*     possible": None when there is no run number, the integer for a digit string, else the *)
(*     string itself.  It is a property: it never raises.                                    *)
(*  Software.name_version = name ' ' version;  Software.compact_repr = name_version, followed *)
(*     by ' (' url ')' when a URL is known.                                                  *)
MaybeInt(n) == CASE n = "NONE" -> "none" [] n = "DIGITS" -> "int" [] OTHER -> "text"
Compact(u) == IF u = "NONE" THEN "name_version" ELSE "name_version_url"

Derived(c, obj) ==
    CASE c = "Measurement" -> [maybe_int |-> MaybeInt(obj.run_number)]
      [] c = "Software" -> [compact |-> Compact(obj.url)]
      [] OTHER -> [nothing |-> "-"]

NoObj == [nothing |-> "-"]

Construct(c, given) ==
    LET bad == BadFields(c, given) IN
    IF bad # {} THEN [verdict |-> "rejected", bad |-> bad, obj |-> NoObj, derived |-> NoObj]
    ELSE LET obj == [f \in FieldsOf(c) |-> Stored(c, f, given[f])]
         IN [verdict |-> "built", bad |-> {}, obj |-> obj, derived |-> Derived(c, obj)]

-----------------------------------------------------------------------------
(* Serialisation: model_dump(mode) writes one representation per stored normal form;        *)
(* model_validate reads a representation as an input token again.                           *)
Modes == {"python", "json"}

Dump(mode, n) ==
    CASE n = "NONE" -> "null"
      [] n = "TEXT" -> "str"
      [] n = "DIGITS" -> "digits_str"
      [] n = "TRUE" -> "bool_true"
      [] n = "FALSE" -> "bool_false"
      [] n = "ORCID" -> "url_str"                  \* the ORCID iD is always dumped as its resolver URL
      [] n = "EMAIL" -> "email_str"
      [] n = "DT_AWARE" -> (IF mode = "json" THEN "iso_aware" ELSE "datetime_aware")
      [] n = "DT_NAIVE" -> (IF mode = "json" THEN "iso_naive" ELSE "datetime_naive")
      [] n = "MEMBER" -> (IF mode = "python" THEN "member"
                          ELSE IF Bug = "enum_dump_name" THEN "name_str" ELSE "value_str")

AsInput(rep) ==
    CASE rep = "null" -> "none"
      [] rep = "str" -> "str"
      [] rep = "digits_str" -> "digits"
      [] rep = "bool_true" -> "true"
      [] rep = "bool_false" -> "false"
      [] rep = "url_str" -> "orcid_url"
      [] rep = "email_str" -> "email"
      [] rep = "datetime_aware" -> "dt_aware"
      [] rep = "datetime_naive" -> "dt_naive"
      [] rep = "iso_aware" -> "dt_iso"
      [] rep = "iso_naive" -> "dt_iso_naive"
      [] rep = "member" -> "member"
      [] rep = "value_str" -> "value"
      [] rep = "name_str" -> "value_unknown"

JsonPlain(rep) == rep \notin {"datetime_aware", "datetime_naive", "member"}

DumpObj(c, mode, obj) == [f \in FieldsOf(c) |-> Dump(mode, obj[f])]
Reload(c, dumped) == Construct(c, [f \in FieldsOf(c) |-> AsInput(dumped[f])])

(* another input token with the same normal form (same token if there is none): two objects *)
(* built from equivalent inputs must compare equal                                          *)
AltTok(k, t) ==
    IF t = "absent" \/ ~Accepts(k, t) THEN t
    ELSE LET same == {u \in Tok(k) \ {"absent", t} : Normal(k, u) = Normal(k, t)}
         IN IF same = {} THEN t ELSE CHOOSE u \in same : TRUE

-----------------------------------------------------------------------------
(* Baseline call (all required fields supplied in the plainest way, nothing else) and the   *)
(* calls that deviate from it in at most two fields (pairwise enumeration).                 *)
BaseTok(k) == IF k \in {"stype", "probe"} THEN "member" ELSE "str"
Baseline(c) == [f \in FieldsOf(c) |-> IF Required(c, f) THEN BaseTok(Kind(c, f)) ELSE "absent"]

Deviations(c, given) == {f \in FieldsOf(c) : given[f] # Baseline(c)[f]}

PairGivens(c) ==
    UNION { { [Baseline(c) EXCEPT ![f1] = t1, ![f2] = t2] : t1 \in Tok(Kind(c, f1)), t2 \in Tok(Kind(c, f2)) }
            : f1 \in FieldsOf(c), f2 \in FieldsOf(c) }

-----------------------------------------------------------------------------
(* Software.from_package_metadata(package): decision table.                                 *)
(*   meta    "present" | "absent"   distribution metadata of that name installed             *)
(*   module  "absent" | "versioned" | "unversioned"   importable module (with __version__?)  *)
(*   labels  sequence of the labels of the Project-URL entries of the metadata               *)
(* "deduce all it can from package metadata ... returns the base project URL ... does not    *)
(* return a DOI";  a package that is not installed -> ModuleNotFoundError (test suite).      *)
(* An entry is  label ',' url  (core metadata: label and URL separated by a comma; the URL   *)
(* is everything behind the FIRST comma and may itself contain commas).                      *)
SourceLabels == {"Source", "Source Code"}
OtherLabels == {"Homepage", "Documentation", "Changelog"}

Entry(label, urlparts) == <<label, ",">> \o urlparts
FirstComma(e) == CHOOSE i \in 1..Len(e) : e[i] = "," /\ \A j \in 1..(i - 1) : e[j] # ","
LastComma(e) == CHOOSE i \in 1..Len(e) : e[i] = "," /\ \A j \in (i + 1)..Len(e) : e[j] # ","
UrlOf(e) == IF Bug = "url_after_last_comma" THEN SubSeq(e, LastComma(e) + 1, Len(e))
            ELSE SubSeq(e, FirstComma(e) + 1, Len(e))

(* indices of the entries that carry a source URL; any of them is an acceptable answer *)
SourceIdx(labels) == {i \in 1..Len(labels) : labels[i] \in SourceLabels}

PkgOutcome(meta, module, labels) ==
    IF meta = "present"
    THEN [out |-> "software", version |-> "metadata", url |-> SourceIdx(labels), doi |-> "NONE"]
    ELSE CASE module = "absent" -> [out |-> "ModuleNotFoundError", version |-> "-", url |-> {}, doi |-> "-"]
           [] module = "unversioned" -> [out |-> "RuntimeError", version |-> "-", url |-> {}, doi |-> "-"]
           [] module = "versioned" -> [out |-> "software", version |-> "attribute", url |-> {}, doi |-> "NONE"]

PkgLabelSeqs == {<<>>} \cup {<<a>> : a \in SourceLabels \cup OtherLabels}
                \cup {<<a, b>> : a \in SourceLabels \cup OtherLabels, b \in SourceLabels \cup OtherLabels}
PkgCases == {c \in [meta : {"present", "absent"}, module : {"absent", "versioned", "unversioned"},
                     labels : PkgLabelSeqs] : c.meta = "absent" => c.labels = <<>>}
=============================================================================
