SPECIFICATION Spec
CONSTANTS
  AxisQuats <- MC_AxisQuatsMotionThorough
  Bases <- MC_Bases
  Radii = {1, 2, 3}
  Heights = {1, 3, 4}
  Points <- MC_PointsThorough
  CubeQuats <- MC_CubeQuats
  SkewQuats <- MC_SkewQuats
  Shifts <- MC_Shifts
  MaxMoves = 2
  Starts <- MC_Empty
  Dirs <- MC_Empty
  K = 2
  J = 1
  Bug = "none"
INVARIANT FrameOK
INVARIANT InsideInvariant
INVARIANT ChordSandwich
INVARIANT LengthIsMeasure
INVARIANT ClassOK
CHECK_DEADLOCK FALSE
