--------------------------- MODULE KinematicsInel ---------------------------
(* C05: the flight of one neutron through an inelastic instrument and the conversion of the *)
(* recorded arrival time to energy transfer.                                                *)
(*                                                                                          *)
(*   source --FlyPrimary--> sample --Scatter--> scattered --FlySecondary--> detector        *)
(*          --Record(trec)--> recorded --Convert(mode)--> converted                          *)
(*                                                                                          *)
(* The clock advances by L/v on each leg.  Record either stores the true arrival time or an  *)
(* arbitrary other time from the candidate set (t0 of either leg exactly, and times around   *)
(* them), because the conversion is applied to every time bin of a histogram, physical or    *)
(* not.  Convert evaluates the documented kernel.                                            *)
(*                                                                                          *)
(* Second use (hardening round): after a conversion the same neutron energies are flown to   *)
(* another detector bank (NextBank: other L1, L2; up to MaxBanks banks) and converted again  *)
(* with the same supplied energy.  `memo` records the t0 of the first conversion per         *)
(* (geometry, supplied energy); a correct conversion never looks at it.  Negative control    *)
(* Bug = "stale_t0": the kernel reuses the remembered t0 for an energy it has seen, although  *)
(* t0 is proportional to the length of the leg (T0Linear).                                   *)
EXTENDS KinematicsInelDefs, Sequences, TLC

CONSTANTS Speeds,     \* set of positive rationals <<n, d>>
          Lengths,    \* set of positive integers
          Deltas,     \* set of positive rationals: offsets around t0 for unphysical records
          Bug,        \* "none" | "lt" | "stale_t0"
          Emit,
          MaxBanks    \* number of detector banks one neutron energy pair is flown to (>= 1)

VARIABLES vi, vf, L1, L2, phase, clock, trec, mode, res,
          bank,       \* number of the current detector bank (1..MaxBanks)
          memo        \* sequence of <<geometry, supplied energy, t0>> of first conversions
vars == <<vi, vf, L1, L2, phase, clock, trec, mode, res, bank, memo>>

Ei == EnergyOf(vi)
Ef == EnergyOf(vf)
T0d == T0(L1, Ei)      \* flight time of the fixed-energy leg, direct geometry
T0i == T0(L2, Ef)      \* ... indirect geometry

Init == /\ vi \in Speeds /\ vf \in Speeds /\ L1 \in Lengths /\ L2 \in Lengths
        /\ phase = "source" /\ clock = <<0, 1>> /\ trec = <<0, 1>>
        /\ mode = "none" /\ res = [cls |-> "none", val |-> NoVal]
        /\ bank = 1 /\ memo = <<>>

FlyPrimary   == /\ phase = "source"    /\ phase' = "sample"
                /\ clock' = RAdd(clock, RDiv(RInt(L1), vi))
                /\ UNCHANGED <<vi, vf, L1, L2, trec, mode, res, bank, memo>>
Scatter      == /\ phase = "sample"    /\ phase' = "scattered"
                /\ UNCHANGED <<vi, vf, L1, L2, clock, trec, mode, res, bank, memo>>
FlySecondary == /\ phase = "scattered" /\ phase' = "detector"
                /\ clock' = RAdd(clock, RDiv(RInt(L2), vf))
                /\ UNCHANGED <<vi, vf, L1, L2, trec, mode, res, bank, memo>>

Candidates == {clock, T0d, T0i}
              \cup { RAdd(b, d) : b \in {T0d, T0i}, d \in Deltas }
              \cup { RSub(b, d) : b \in {T0d, T0i}, d \in Deltas }
Record(tr) == /\ phase = "detector" /\ phase' = "recorded"
              /\ RSign(tr) >= 0
              /\ trec' = tr
              /\ UNCHANGED <<vi, vf, L1, L2, clock, mode, res, bank, memo>>
Remembered(m, E) == { i \in 1..Len(memo) : memo[i][1] = m /\ memo[i][2] = E }
Convert(m) == /\ phase = "recorded" /\ phase' = "converted"
              /\ mode' = m
              /\ LET E    == IF m = "direct" THEN Ei ELSE Ef
                     t0   == T0(Lfix(m, L1, L2), E)
                     used == IF Bug = "stale_t0" /\ Remembered(m, E) # {}
                             THEN memo[CHOOSE i \in Remembered(m, E) : TRUE][3] ELSE t0
                 IN /\ res' = KernelWith(m, trec, L1, L2, E, used, Bug)
                    /\ memo' = IF Remembered(m, E) = {} THEN Append(memo, <<m, E, t0>>) ELSE memo
              /\ UNCHANGED <<vi, vf, L1, L2, clock, trec, bank>>
(* the same pair of neutron energies, another detector bank: the instrument keeps its supplied energy *)
NextBank(l1, l2) == /\ phase = "converted" /\ trec = clock /\ bank < MaxBanks
                    /\ <<l1, l2>> # <<L1, L2>>
                    /\ L1' = l1 /\ L2' = l2 /\ bank' = bank + 1
                    /\ phase' = "source" /\ clock' = <<0, 1>> /\ trec' = <<0, 1>>
                    /\ mode' = "none" /\ res' = [cls |-> "none", val |-> NoVal]
                    /\ UNCHANGED <<vi, vf, memo>>

Next == \/ FlyPrimary \/ Scatter \/ FlySecondary
        \/ \E tr \in Candidates : Record(tr)
        \/ \E m \in {"direct", "indirect"} : Convert(m)
        \/ \E l1, l2 \in Lengths : NextBank(l1, l2)
Spec == Init /\ [][Next]_vars

-----------------------------------------------------------------------------
TypeOK == /\ T0d # NotSquare /\ T0i # NotSquare
          /\ phase \in {"source", "sample", "scattered", "detector", "recorded", "converted"}
          /\ res.cls \in {"none", "nan", "num", "inf"}
          /\ bank \in 1..MaxBanks /\ Len(memo) <= 2 * MaxBanks

(* the clock at the detector is exactly L1/v(Ei) + L2/v(Ef), later than either t0 *)
ArrivalAfterT0 == phase \in {"detector", "recorded", "converted"} =>
                     /\ clock = RAdd(RDiv(RInt(L1), vi), RDiv(RInt(L2), vf))
                     /\ RLt(T0d, clock) /\ RLt(T0i, clock)

(* both geometries return Ei - Ef for the true arrival time *)
EnergyConservation == (phase = "converted" /\ trec = clock) =>
                         /\ res.cls = "num" /\ res.val = RSub(Ei, Ef)

T0of(m) == IF m = "direct" THEN T0d ELSE T0i
Boundary == phase = "converted" => (res.cls = "nan" <=> RLe(trec, T0of(mode)))
NoInf    == phase = "converted" => res.cls # "inf"

(* the class abstraction used by the trace specification agrees with the kernel *)
ClassAbstraction ==
    phase = "converted" =>
        LET sg == RSign(RSub(trec, T0of(mode)))
            side == IF sg < 0 THEN "below" ELSE IF sg = 0 THEN "at" ELSE "above"
        IN res.cls \in AllowedClasses(side) /\ res.cls \in AllowedClasses("band") \cup {"nan"}

(* t0 of a leg is proportional to its length and does not depend on the other leg: what an     *)
(* implementation may remember about a supplied energy is t0 / L, never t0 itself                *)
T0Linear == /\ T0d = RMul(RInt(L1), T0(1, Ei))
            /\ T0i = RMul(RInt(L2), T0(1, Ef))

(* every flight with its exact energy transfer and its exact arrival time: flights that reach     *)
(* different pixels at the same time are converted by one call with a shared time axis            *)
EmitFlight == (Emit /\ phase = "converted" /\ trec = clock) =>
                 PrintT(<<"FLIGHT", vi, vf, L1, L2, mode, res.val, clock>>)
=============================================================================
