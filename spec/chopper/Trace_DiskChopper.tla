-------------------------- MODULE Trace_DiskChopper --------------------------
(* Code -> spec.  Judges recorded calls of the real scippneutron API (one NDJSON line per    *)
(* call, written by harness/drivers/c10.py, all numbers integers in ticks) with the          *)
(* SIMULATED DISK of DiskChopperDefs; the documented formulas are not used here.  Every       *)
(* event gets a verdict; a rejected one prints <<"REJECT", line, tid, clause>>.               *)
(*   ev = "pairs" : open/close pairs reported by time_offset_open/close (api = "direct",      *)
(*                  with open_duration in durs) or by Chopper.from_disk_chopper               *)
(*                  (api = "expand", np pulses)                                                *)
(*   ev = "slits" : DiskChopper(...) accepted / rejected a slit set                            *)
(*   ev = "phase" : a frequency ratio was accepted / rejected; band tells how far the actual  *)
(*                  float ratio is from the nominal num/den ("near": <= 1e-10 relative,       *)
(*                  "far": >= 1e-6 relative away from every multiple and divisor)             *)
EXTENDS DiskChopperDefs, TLC, Json, IOUtils

Tr == ndJsonDeserialize(IOEnv.TRACE_FILE)

VARIABLES l, nbad
tvars == <<l, nbad>>

JudgePairs(e) ==
    LET c == [K |-> e.K, slits |-> e.slits, bp |-> e.bp, ph |-> e.ph, cw |-> e.cw,
              num |-> e.num, den |-> e.den]
        rep == e.pairs
    IN  IF ~ValidSlits(c.slits, c.K) THEN "driver_error_invalid_slits"
        ELSE IF ~e.ongrid THEN "time_not_on_the_tick_grid"
        ELSE IF Len(rep) = 0 THEN "nothing_reported"
        ELSE IF ~OpenBeforeCloseOf(rep) THEN "open_not_before_close"
        ELSE IF ~AllMaximalOpenOf(c, rep) THEN "not_a_maximal_open_interval"
        ELSE IF ~NoDuplicateOf(rep) THEN "opening_listed_twice"
        ELSE IF ~NoneMissingOf(c, rep) THEN "opening_missing_inside_covered_span"
        ELSE IF ~CoversPulsesOf(c, rep, e.np) THEN "covered_span_shorter_than_the_pulse_periods"
        ELSE IF Len(e.durs) > 0 /\ Len(e.durs) # Len(rep) THEN "duration_count"
        ELSE IF Len(e.durs) > 0 /\ ~DurationIsWidthOf(c, rep, e.durs) THEN "duration_is_not_slit_width"
        ELSE "ok"

JudgeSlits(e) ==
    LET v == ValidSlits(e.slits, e.K)
    IN  IF ~WellFormed(e.slits, e.K) THEN "driver_error_malformed_slits"
        ELSE IF v /\ ~e.accepted THEN "valid_slit_set_rejected"
        ELSE IF ~v /\ e.accepted THEN
            (IF ProcValid(e.slits, e.K, "nowrap") THEN "overlap_across_top_dead_centre_accepted"
             ELSE "overlapping_slits_accepted")
        ELSE "ok"

JudgePhase(e) ==
    LET nominal == InPhaseDecl(e.num, e.den)
    IN  IF e.band = "near" THEN
            (IF nominal /\ ~e.accepted THEN "in_phase_frequency_rejected"
             ELSE IF ~nominal /\ e.accepted THEN "out_of_phase_frequency_accepted"
             ELSE "ok")
        ELSE IF e.band = "far" THEN
            (IF e.accepted THEN "out_of_phase_frequency_accepted" ELSE "ok")
        ELSE "driver_error_band"

Judge(e) == IF e.ev = "pairs" THEN JudgePairs(e)
            ELSE IF e.ev = "slits" THEN JudgeSlits(e)
            ELSE IF e.ev = "phase" THEN JudgePhase(e)
            ELSE "unknown_event"

TInit == l = 1 /\ nbad = 0
TNext == /\ l <= Len(Tr)
         /\ l' = l + 1
         /\ LET v == Judge(Tr[l]) IN
            /\ nbad' = IF v = "ok" THEN nbad ELSE nbad + 1
            /\ (v = "ok" \/ PrintT(<<"REJECT", l, Tr[l].tid, v>>))
TSpec == TInit /\ [][TNext]_tvars
Done == (l = Len(Tr) + 1) => PrintT(<<"DONE", l - 1, nbad>>)
=============================================================================
