SPECIFICATION Spec
CONSTANTS
  Heads <- AllHeads
  Masks <- MC_NegMasks
  Bug = "recompute"
INVARIANT Precedence
