--------------------------- MODULE Cases_AtomTables ---------------------------
(* Constant-level evaluation over the FULL tables (env TABLES_FILE):                              *)
(*  1. facts about the bundled data that the property presupposes or states, each printed as      *)
(*     <<"FACT", name, TRUE/FALSE>> (a FALSE is reported by the harness as a violation that names   *)
(*     the fact): unique names per table, element / isotope name syntax, every isotope's element   *)
(*     has a row in the weight table, Z of every element equals its position in the periodic       *)
(*     table (written down independently in AtomTablesDefs), uncertainty only next to a value;     *)
(*  2. spec -> code cases: every near-miss name of every selected row with the expected outcome    *)
(*     ("reject", or the kind of row that the near-miss itself names — e.g. the prefix "H" of "He"  *)
(*     must give hydrogen's row, never helium's), written to NEAR_FILE; STRIDE thins the mass table;*)
(*  3. the attenuation law on a rational grid with the exact value, written to ATT_FILE.            *)
EXTENDS AtomTablesDefs, TLC, SequencesExt

Stride == atoi(IOEnv.STRIDE)
Pairs(f) == \A q \in 1..(Len(f) \div 2) : f[2*q - 1] = "" => f[2*q] = ""

FactUnique == /\ Cardinality(ScatNames) = NScat /\ Cardinality(WeightNames) = NWeights
              /\ Cardinality(MassNames) = NMasses
FactSyntax == /\ \A n \in WeightNames : IsElementSyntax(n)
              /\ \A n \in MassNames : IsIsotopeSyntax(n)
              /\ \A n \in ScatNames : IsElementSyntax(n) \/ IsIsotopeSyntax(n)
FactElementTabulated == /\ \A n \in MassNames : ElementOf(n) \in WeightNames
                        /\ \A n \in ScatNames : ElementOf(n) \in WeightNames
FactZ == /\ NWeights = Len(PeriodicTable)
         /\ \A i \in 1..NWeights :
              LET z == atoi(Tab.weights[i].f[1])
              IN z \in 1..Len(PeriodicTable) /\ PeriodicTable[z] = Tab.weights[i].name
FactBlankPairs == /\ \A i \in 1..NScat : Len(Tab.scat[i].f) = 16 /\ Pairs(Tab.scat[i].f)
                  /\ \A i \in 1..NWeights : Len(Tab.weights[i].f) = 3 /\ Tab.weights[i].f[1] # ""
                                             /\ (Tab.weights[i].f[2] = "" => Tab.weights[i].f[3] = "")
                  /\ \A i \in 1..NMasses : Len(Tab.masses[i].f) = 2 /\ Tab.masses[i].f[1] # ""
FactCounts == <<NScat, NWeights, NMasses>>

ASSUME IOEnv.PART # "atom" => PrintT(<<"FACT", "names_unique_per_table", FactUnique>>)
ASSUME IOEnv.PART # "atom" => PrintT(<<"FACT", "names_follow_element_isotope_syntax", FactSyntax>>)
ASSUME IOEnv.PART # "atom" => PrintT(<<"FACT", "every_isotope_has_its_element_in_the_weight_table", FactElementTabulated>>)
ASSUME IOEnv.PART # "atom" => PrintT(<<"FACT", "Z_is_the_position_in_the_periodic_table", FactZ>>)
ASSUME IOEnv.PART # "atom" => PrintT(<<"FACT", "uncertainty_only_next_to_a_value", FactBlankPairs>>)
ASSUME PrintT(<<"COUNTS", NScat, NWeights, NMasses>>)

(* near-miss cases *)
(* PART = "scat" | "atom" | "all": the harness evaluates the two entry points' cases in two TLC processes *)
(* side by side (the evaluation is single-threaded); facts and the attenuation grid belong to part "scat". *)
(* TLC evaluates every constant definition eagerly, hence the seeds of the other part are made empty.      *)
DoScat == IOEnv.PART # "atom"
DoAtom == IOEnv.PART # "scat"
MassSample == { Tab.masses[i].cp : i \in { j \in 1..NMasses : j % Stride = 0 } }
ScatSeeds == IF DoScat THEN ScatNames ELSE {}
AtomSeeds == IF DoAtom THEN WeightNames \cup MassSample ELSE {}
ScatNear == UNION { NearMisses(n) : n \in ScatSeeds }
AtomNear == UNION { NearMisses(n) : n \in AtomSeeds }
ScatCase(n, src) == [api |-> "scat", cp |-> n, expect |-> ScatOutcome(n), src |-> src]
AtomCase(n, src) == [api |-> "atom", cp |-> n, expect |-> AtomOutcome(n), src |-> src]
(* names that are tabulated - but only in ANOTHER table than the one the entry point reads: an element  *)
(* or nuclide without a row in the scattering table must be rejected by ScatteringParams, and never      *)
(* answered with the natural element's or another isotope's row; likewise for Atom                       *)
ScatCross == IF DoScat THEN (WeightNames \cup MassSample) \ ScatNames ELSE {}
AtomCross == IF DoAtom THEN ScatNames \ (WeightNames \cup MassNames) ELSE {}
ScatNotation == UNION { OtherNotations(n) : n \in ScatSeeds }
AtomNotation == UNION { OtherNotations(n) : n \in AtomSeeds }
ScatNeighbour == UNION { Neighbours(n) : n \in ScatSeeds }
AtomNeighbour == UNION { Neighbours(n) : n \in AtomSeeds }
(* one record per (entry point, name, origin of the name); written as a sequence assembled from the name    *)
(* sets, so that TLC never has to sort 150 000 records (sets of names are cheap to normalise)                 *)
CasesOf(S, api, src) ==
    LET q == SetToSeq(S)
    IN AsSeq([i \in 1..Len(q) |-> IF api = "scat" THEN ScatCase(q[i], src) ELSE AtomCase(q[i], src)])
NearSeq == CasesOf(ScatNear, "scat", "near") \o CasesOf(ScatCross, "scat", "cross") \o
           CasesOf(ScatNotation, "scat", "notation") \o CasesOf(ScatNeighbour, "scat", "neighbour") \o
           CasesOf(AtomNear, "atom", "near") \o CasesOf(AtomCross, "atom", "cross") \o
           CasesOf(AtomNotation, "atom", "notation") \o CasesOf(AtomNeighbour, "atom", "neighbour")
ASSUME ndJsonSerialize(IOEnv.NEAR_FILE, NearSeq)
(* cross-table names exist and are all to be rejected; no other notation is itself tabulated; neighbouring *)
(* mass numbers come both tabulated and untabulated; the generator is not vacuous: it produces rejected     *)
(* names and names of other rows                                                                          *)
ASSUME DoScat => /\ PrintT(<<"NEAR", "scat", Cardinality(ScatNear), Cardinality(ScatCross), Cardinality(ScatNotation),
                                     Cardinality(ScatNeighbour), Cardinality({n \in ScatNear : ScatOutcome(n) # "reject"})>>)
                 /\ ScatCross # {} /\ \A n \in ScatCross : ScatOutcome(n) = "reject"
                 /\ \A n \in ScatNotation : ScatOutcome(n) = "reject"
                 /\ \E n \in ScatNeighbour : ScatOutcome(n) = "reject"
                 /\ \E n \in ScatNeighbour : ScatOutcome(n) = "row"
                 /\ \E n \in ScatNear : ScatOutcome(n) = "reject"
                 /\ \E n \in ScatNear : ScatOutcome(n) = "row"
ASSUME DoAtom => /\ PrintT(<<"NEAR", "atom", Cardinality(AtomNear), Cardinality(AtomCross), Cardinality(AtomNotation),
                                     Cardinality(AtomNeighbour), Cardinality({n \in AtomNear : AtomOutcome(n) # "reject"})>>)
                 /\ \A n \in AtomNotation : AtomOutcome(n) = "reject"
                 /\ \E n \in AtomNear : AtomOutcome(n) = "element"
                 /\ \E n \in AtomNear : AtomOutcome(n) = "isotope"
                 /\ \E n \in AtomNeighbour : AtomOutcome(n) = "isotope"
                 /\ \E n \in AtomNeighbour : AtomOutcome(n) = "reject"

(* attenuation: grid of rationals; n in 1/A^3, sigma in A^2, lambda in A *)
Dens == { <<1, 8>>, <<1, 1>>, <<3, 40>> }
Sig  == { <<0, 1>>, <<3, 2>>, <<5, 1>>, <<1, 16>> }
Lams == { <<1, 10>>, <<8991, 5000>>, <<8991, 2500>>, <<4, 1>>, <<20, 1>> }
AttCases == { [n |-> n, ss |-> ss, sa |-> sa, lam |-> lam, mu |-> Attenuation(n, ss, sa, lam)] :
              n \in Dens, ss \in Sig, sa \in Sig, lam \in Lams }
ASSUME IOEnv.PART # "atom" => ndJsonSerialize(IOEnv.ATT_FILE, SetToSeq(AttCases))
(* the law: linear in n, equals n (ss + sa) at the reference wavelength, n ss without absorption, *)
(* strictly increasing in the wavelength when the material absorbs                              *)
ASSUME \A n \in Dens, ss \in Sig, sa \in Sig :
         Attenuation(n, ss, sa, <<8991, 5000>>) = RMul(n, RAdd(ss, sa))       \* both sides are in lowest terms
ASSUME \A n \in Dens, ss \in Sig, lam \in Lams : Attenuation(n, ss, <<0, 1>>, lam) = RMul(n, ss)
ASSUME \A sa \in {<<1, 1>>, <<3, 2>>}, l1 \in Lams, l2 \in Lams :      \* (small grid: 32-bit cross products)
         RLt(l1, l2) => RLt(Attenuation(<<1, 1>>, <<0, 1>>, sa, l1), Attenuation(<<1, 1>>, <<0, 1>>, sa, l2))
ASSUME \A ss \in Sig, sa \in Sig, lam \in Lams :
         Attenuation(<<2, 1>>, ss, sa, lam) = RMul(<<2, 1>>, Attenuation(<<1, 1>>, ss, sa, lam))
=============================================================================
