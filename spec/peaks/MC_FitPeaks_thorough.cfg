SPECIFICATION Spec
CONSTANTS
  Parts = {"windows", "loop", "assess", "remove"}
  Bug = "none"
  EstVals <- MC_EstVals
  MaxEst = 4
  Widths <- MC_Widths
  Factors <- MC_Factors
  DataLo = 0
  DataHi = 96
  DataStep = 24
  GuardParams = 3
  PkParams <- MC_PkParams
  BkParams <- MC_BkParams
  NptsVals = {0, 2, 4, 5, 6, 7}
  MaxPeaks = 3
  GuessMin = 4
  RN = 4
  RVals = {0, 5}
  RMaxRes = 2
  RAmps = {1, 10}
INVARIANT WConfigsExact
INVARIANT OneWindowPerEstimate
INVARIANT WindowsInsideRange
INVARIANT WindowContainsEstimate
INVARIANT NeighbourDistance
INVARIANT WindowsAreDeclarative
INVARIANT UncutWindowHasWidth
INVARIANT NarrowDecidedByPoints
INVARIANT PointCountsConsistent
INVARIANT OneResultPerPeak
INVARIANT FirstSuccessWins
INVARIANT NoFitWhenNarrow
INVARIANT Isolation
INVARIANT SuccessImpliesAllRequirements
INVARIANT VerdictIsAssessOf
INVARIANT InputUnchanged
INVARIANT RemoveTouchesOnlyWindows
INVARIANT RemoveSubtractsPeaks
PROPERTY ResultsAppendOnly
CHECK_DEADLOCK FALSE
