---------------------------- MODULE MC_SqwBuilder ----------------------------
EXTENDS SqwBuilder, TLC
MC_Shapes == {<<1, 1, 1, 1>>, <<2, 3, 1, 2>>, <<2, 1, 1, 2>>}
MC_Shapes_quick == {<<2, 3, 1, 2>>}
MC_Shapes_reuse == {<<1, 1, 1, 1>>}
MC_BO_both == {"little", "big"}
MC_BO_big == {"big"}
MC_BO_little == {"little"}
(* lengths of an earlier file at the target: none, shorter than any header + table, longer than   *)
(* any file of the model                                                                           *)
MC_Prev_none == {0}
MC_Prev_some == {0, 50, 100000}
(* arbitrary, pairwise different sizes for the regular blocks *)
MC_RegSize == [n \in AllNames |->
    CASE n = MainHeader -> 237 [] n = DetPar -> 369 [] n = DndMeta -> 1301 [] n = Instruments -> 613
      [] n = Samples -> 533 [] n = ExpData -> 669 [] n = PixMeta -> 300 [] OTHER -> 0]
(* export of every complete behaviour (call order + abstract arguments) with the layout the   *)
(* model computed for it; the driver performs each on the real builder                         *)
SizeOfKind(k) == LET I == {i \in 1..Len(bat) : bat[i].kind = k}
                 IN IF I = {} THEN -1 ELSE bat[CHOOSE i \in I : TRUE].size
EmitBehaviour == phase = "done" =>
    PrintT(<<"BEH", order, npix, shape, chunk, bo, Len(bat), SizeOfKind("pix"), SizeOfKind("dnd"),
             Cardinality({i \in 1..Len(writes) : writes[i][1] = "pixchunk" /\ writes[i][3] > 0}),
             prev, gen>>)
=============================================================================
