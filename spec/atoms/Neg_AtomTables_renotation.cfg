SPECIFICATION Spec
CONSTANTS
  Universe <- MC_UniverseNotation
  MaxHist = 2
  Bug = "renotation"
INVARIANT SameAsDeclarative
INVARIANT NeverAnotherRow
INVARIANT MassOnlyForIsotopes
INVARIANT CacheFaithful
CHECK_DEADLOCK FALSE
