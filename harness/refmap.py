"""Refinement mapping helpers: exact constants, unit factors, rationals <-> TLA+, mpmath rounding.

Spec values are rationals in *natural units* (h = m_n = 1).  A spec value v of a quantity with
dimension h^a m_n^b corresponds to  v * H^a * MN^b  in SI, where H, MN are the floats scipp exposes,
taken as exact rationals.  Unit factors are the exact SI definitions.
"""

from __future__ import annotations

from fractions import Fraction

import mpmath

mpmath.mp.dps = 60

H = Fraction(6.62607015e-34)  # J*s, the float scipp.constants.h holds, exactly
MN = Fraction(1.67492750056e-27)  # kg, scipp.constants.m_n
G0 = Fraction(9.80665)  # m/s^2, scipp.constants.g (standard gravity)
E_CHARGE = Fraction(1602176634, 10**28)  # J per eV (exact SI definition)

LENGTH = {  # metres
    'm': Fraction(1), 'mm': Fraction(1, 10**3), 'um': Fraction(1, 10**6), 'nm': Fraction(1, 10**9),
    'cm': Fraction(1, 100), 'km': Fraction(1000), 'angstrom': Fraction(1, 10**10),
}
TIME = {  # seconds
    's': Fraction(1), 'ms': Fraction(1, 10**3), 'us': Fraction(1, 10**6), 'ns': Fraction(1, 10**9),
}
ENERGY = {  # joule
    'J': Fraction(1), 'eV': E_CHARGE, 'meV': E_CHARGE / 1000, 'ueV': E_CHARGE / 10**6,
    'keV': E_CHARGE * 1000,
}


def check_constants():
    """The harness' constants must be the floats scipp exposes (else the oracle is not independent
    but simply wrong): called once by drivers that use them."""
    import scipp.constants as c

    assert Fraction(c.h.value) == H and str(c.h.unit) == 'J*s', c.h
    assert Fraction(c.m_n.value) == MN and str(c.m_n.unit) == 'kg', c.m_n
    assert Fraction(c.g.value) == G0, c.g


def mpf(x) -> mpmath.mpf:
    if isinstance(x, Fraction):
        return mpmath.mpf(x.numerator) / mpmath.mpf(x.denominator)
    if isinstance(x, float):
        return mpmath.mpf(x)
    return mpmath.mpf(x)


def frac(x) -> Fraction:
    """Exact rational value of a float / int / [num, den] pair."""
    if isinstance(x, (list, tuple)) and len(x) == 2:
        return Fraction(int(x[0]), int(x[1]))
    return Fraction(x)


def rat(fr: Fraction):
    """Fraction -> TLA+/JSON pair [num, den]."""
    return [fr.numerator, fr.denominator]


def relerr(got: float, want) -> float:
    """|got - want| / |want| with `want` an mpf/Fraction; inf for nan/inf `got`."""
    import math

    if not math.isfinite(got):
        return float('inf')
    w = mpf(want)
    if w == 0:
        return float(abs(mpmath.mpf(got)))
    return float(abs((mpmath.mpf(got) - w) / w))


def ulp_diff(a: float, b: float) -> int:
    """Distance in units in the last place between two finite doubles."""
    import struct

    def key(x):
        (i,) = struct.unpack('<q', struct.pack('<d', x))
        return i if i >= 0 else -(i & 0x7FFFFFFFFFFFFFFF)

    return abs(key(a) - key(b))


FITS32 = 2**31 - 1


def fits32(*ints) -> bool:
    return all(abs(int(i)) <= FITS32 for i in ints)
