SPECIFICATION Spec
CONSTANTS
  Pulses <- MC_Pulses
  Choppers = {}
  PropDists = {4, 8, 12}
  MaxChops = 5
  Pick = 2
  SimEdges = {0, 2, 3, 4, 5, 7, 8, 10, 11, 12, 13, 15, 16, 18, 20, 21, 24, 26, 27, 28, 30, 32, 35, 36, 40, 44, 45}
  SimMaxDist = 10
  L = 120
  Bug = "none"
INVARIANT TypeOK
INVARIANT Agree
INVARIANT AliveIsTransmitted
INVARIANT Band
INVARIANT Regular
INVARIANT OrderIndependent
INVARIANT TwoStepEqualsOneStep
INVARIANT SplitPropagation
INVARIANT GetAtAgrees
CHECK_DEADLOCK FALSE
