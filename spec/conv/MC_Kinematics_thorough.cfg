SPECIFICATION Spec
CONSTANTS
  TGrid = {1, 2, 3, 4, 5, 6, 7, 8, 9, 10, 11, 12}
  LGrid = {1, 2, 3, 4, 5, 6, 7, 8, 9, 10, 11, 12}
  SinGrid <- MC_SinFull
  MaxDepth = 4
  Bug = "none"
  MaxRetarget = 1
  Emit = FALSE
INVARIANT TypeOK
INVARIANT RouteAgreement
INVARIANT RoundTrip
INVARIANT QdTwoPi
INVARIANT EnergyDefinitions
CHECK_DEADLOCK FALSE
