SPECIFICATION Spec
CONSTANTS
  Heads <- AllHeads
  Masks <- MC_NegMasks
  Bug = "ignore_supplied_target"
INVARIANT Complete
