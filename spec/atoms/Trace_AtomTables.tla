--------------------------- MODULE Trace_AtomTables ---------------------------
(* Judges recorded lookups (Atom.for_isotope, ScatteringParams.for_isotope) and attenuation       *)
(* coefficients against the tables TLC reads itself (TABLES_FILE) — one NDJSON line per call,      *)
(* every line gets a verdict: <<"REJECT", line, tid, clause>>, at the end <<"DONE", n, nbad>>.      *)
(*                                                                                                *)
(* An event carries the queried name as code points, the outcome ("ok" / "raised": ANY exception   *)
(* counts as a rejection), the row(s) the harness believes were answered, and per CSV column one   *)
(* letter: "b" nothing returned (None), "m" the returned number equals float(text) of that column  *)
(* of that row (uncertainties: variance equals float(text)^2 to 1 ulp), "x" anything else.  TLC     *)
(* decides: whether the name is tabulated (exact match in the first column), that the claimed rows  *)
(* are the rows of exactly that name (never another nuclide's), the blank pattern column by        *)
(* column, Z against the periodic table, mass only for isotopes, weight only where tabulated.       *)
(* float(text) equality itself is evaluated by the harness (TLC has no floats).                    *)
EXTENDS AtomTablesDefs, TLC

(*                                                                                                *)
(* Every event also says how it was presented (the property does not depend on it):                *)
(*   pass   1 = first evaluation; 2 = the same lookup / the same attenuation case once more at the  *)
(*          end of the run, after all other calls and in another order; `of` is then the line of    *)
(*          the first evaluation and TLC checks that it is the same case;                           *)
(*   mu     wl_type / n_type: number type of wavelength and number density (NumTypes: the same       *)
(*          number as float64, float32, int64, int32); lay: the wavelength as a 0-d variable, a     *)
(*          list, an unsorted list, a transposed 2-d array (WavelengthLayouts; rel_ok is then the    *)
(*          conjunction over all elements); kept: the wavelength variable handed over still holds   *)
(*          the same numbers after the call.                                                        *)
Tr == ndJsonDeserialize(IOEnv.TRACE_FILE)

Presentation(e, line) ==
    IF e.ev = "mu" /\ (e.wl_type \notin NumTypes \/ e.n_type \notin NumTypes) THEN "oracle_unknown_number_type"
    ELSE IF e.ev = "mu" /\ e.lay \notin WavelengthLayouts THEN "oracle_unknown_layout"
    ELSE IF e.pass = 1 THEN (IF e.of = 0 THEN "ok" ELSE "oracle_replay_is_not_the_same_case")
    ELSE IF e.pass # 2 \/ ~(e.of \in 1..(line - 1)) THEN "oracle_replay_is_not_the_same_case"
    ELSE LET f == Tr[e.of]
         IN IF f.ev # e.ev \/ f.pass # 1 THEN "oracle_replay_is_not_the_same_case"
            ELSE IF e.ev \in {"scat", "atom"} /\ f.cp # e.cp THEN "oracle_replay_is_not_the_same_case"
            ELSE IF e.ev = "mu" /\ (f.case # e.case \/ f.small # e.small \/ f.want # e.want)
                 THEN "oracle_replay_is_not_the_same_case"
            ELSE "ok"

VARIABLES l, nbad
tvars == <<l, nbad>>

(* expected letters for a row's fields f: value columns (odd) and uncertainty columns (even) *)
WantPat(f) == [j \in 1..Len(f) |-> IF f[j] = "" THEN "b" ELSE "m"]
SamePat(pat, f) == Len(pat) = Len(f) /\ \A j \in 1..Len(f) : pat[j] = WantPat(f)[j]

JudgeScat(e) ==
    LET exp == ScatOutcome(e.cp)
    IN  IF exp = "reject" THEN (IF e.out = "raised" THEN "ok" ELSE "unknown_name_accepted")
        ELSE IF e.out = "raised" THEN "tabulated_name_rejected"
        ELSE IF ~(e.row \in 1..NScat) \/ Tab.scat[e.row].cp # e.cp THEN "oracle_row_is_not_the_named_row"
        ELSE IF ~e.name_ok THEN "isotope_field_is_not_the_query"
        ELSE IF \E j \in 1..16 : e.pat[j] = "x" /\ Tab.scat[e.row].f[j] = "" THEN "value_where_table_is_blank"
        ELSE IF \E j \in 1..16 : e.pat[j] = "b" /\ Tab.scat[e.row].f[j] # "" THEN "nothing_where_table_has_value"
        ELSE IF ~SamePat(e.pat, Tab.scat[e.row].f) THEN "value_differs_from_table"
        ELSE IF ~e.units_ok THEN "wrong_unit"
        ELSE "ok"

JudgeAtom(e) ==
    LET exp == AtomOutcome(e.cp)
    IN  IF exp = "reject" THEN (IF e.out = "raised" THEN "ok" ELSE "unknown_name_accepted")
        ELSE IF e.out = "raised" THEN "tabulated_name_rejected"
        ELSE IF ~(e.wrow \in 1..NWeights) \/ Tab.weights[e.wrow].cp # ElementOf(e.cp)
             THEN "oracle_row_is_not_the_named_row"
        ELSE IF exp = "isotope" /\ (~(e.mrow \in 1..NMasses) \/ Tab.masses[e.mrow].cp # e.cp)
             THEN "oracle_row_is_not_the_named_row"
        ELSE IF ~e.name_ok THEN "isotope_field_is_not_the_query"
        ELSE IF e.z # atoi(Tab.weights[e.wrow].f[1]) THEN "Z_differs_from_table"
        ELSE IF e.z # ZOfSymbol(Tab.weights[e.wrow].name) THEN "Z_is_not_the_atomic_number_of_the_element"
        ELSE IF exp = "element" /\ e.mpat # <<"b", "b">> THEN "mass_for_an_element"
        ELSE IF exp = "isotope" /\ e.mpat[1] = "b" THEN "no_mass_for_an_isotope"
        ELSE IF exp = "isotope" /\ ~SamePat(e.mpat, Tab.masses[e.mrow].f) THEN "mass_differs_from_table"
        ELSE IF e.wpat[1] # "b" /\ Tab.weights[e.wrow].f[2] = "" THEN "weight_where_none_is_tabulated"
        ELSE IF e.wpat[1] = "b" /\ Tab.weights[e.wrow].f[2] # "" THEN "no_weight_although_tabulated"
        ELSE IF ~SamePat(e.wpat, SubSeq(Tab.weights[e.wrow].f, 2, 3)) THEN "weight_differs_from_table"
        ELSE IF ~e.units_ok THEN "wrong_unit"
        ELSE "ok"

JudgeMu(e) ==
    IF e.small /\ Attenuation(e.n, e.ss, e.sa, e.lam) # RNorm(e.want) THEN "oracle_attenuation_formula"   \* lowest terms
    ELSE IF e.raised THEN "attenuation_raised"
    ELSE IF ~e.dim_ok THEN "attenuation_is_not_an_inverse_length"
    ELSE IF ~e.rel_ok THEN "attenuation_differs_from_law"
    ELSE IF ~e.kept THEN "wavelength_argument_modified"
    ELSE "ok"

Judge(e, line) ==
    IF e.ev \notin {"scat", "atom", "mu"} THEN "unknown_event"
    ELSE LET p == Presentation(e, line)
         IN IF p # "ok" THEN p
            ELSE IF e.ev = "scat" THEN JudgeScat(e)
            ELSE IF e.ev = "atom" THEN JudgeAtom(e)
            ELSE JudgeMu(e)

TInit == l = 1 /\ nbad = 0
TNext == /\ l <= Len(Tr)
         /\ l' = l + 1
         /\ LET v == Judge(Tr[l], l) IN
            /\ nbad' = IF v = "ok" THEN nbad ELSE nbad + 1
            /\ (v = "ok" \/ PrintT(<<"REJECT", l, Tr[l].tid, v>>))
TSpec == TInit /\ [][TNext]_tvars
Done == (l = Len(Tr) + 1) => PrintT(<<"DONE", l - 1, nbad>>)
=============================================================================
