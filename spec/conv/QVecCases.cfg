CONSTANTS
  BeamSeeds <- Seeds_quick
  Quats <- Q6
  Bs <- BsAll
  Hkls <- H_quick
