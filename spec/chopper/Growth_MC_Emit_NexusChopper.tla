--------------------- MODULE Growth_MC_Emit_NexusChopper ---------------------
EXTENDS Growth_Emit_NexusChopper
TableQ == { <<0, 2, 3, 6>>, <<6, 9, 0, 2>>, <<0, 2, 3>> }
TableT == TableQ \cup { <<>>, <<2, 0>>, <<6, 9, 2, 3>>, <<3, 6, 0, 2>>, <<0, 3, 2, 6>> }
GeoQ   == SeqsOver(SlitsSmall, 2) \cup OddLists \cup Unspecified
GeoT   == SeqsOver(SlitsLarge, 3) \cup OddLists \cup Unspecified
=============================================================================
