SPECIFICATION TSpec
CONSTANTS
  Bug = "none"
INVARIANT Done
CHECK_DEADLOCK FALSE
