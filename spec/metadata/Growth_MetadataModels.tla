----------------------- MODULE Growth_MetadataModels -----------------------
(* GROWTH: life cycle of one metadata model object as a state machine.                     *)
(*                                                                                          *)
(*   args --Give(f,t)*--> args --Construct--> built | rejected                              *)
(*   built --DumpIt(mode)--> dumped --Revalidate--> revalidated                             *)
(*                                                                                          *)
(* `given` starts as the baseline call of the class (required fields only) and Give         *)
(* replaces the argument of one field by any other token of the field's kind; at most       *)
(* MaxDev fields deviate from the baseline.  The decision table itself is in                *)
(* Growth_MetadataDefs; here TLC checks what must hold on every path through it.            *)
EXTENDS Growth_MetadataDefs, TLC

CONSTANT MaxDev

VARIABLES cls, given, phase, res, mode, dumped, res2
vars == <<cls, given, phase, res, mode, dumped, res2>>

Null == [nothing |-> "-"]

Init == /\ cls \in Classes
        /\ given = Baseline(cls)
        /\ phase = "args"
        /\ res = Null /\ mode = "-" /\ dumped = Null /\ res2 = Null

Give(f, t) ==
    /\ phase = "args"
    /\ given[f] = Baseline(cls)[f]
    /\ t # given[f]
    /\ Cardinality(Deviations(cls, given)) < MaxDev
    /\ given' = [given EXCEPT ![f] = t]
    /\ UNCHANGED <<cls, phase, res, mode, dumped, res2>>

DoConstruct ==
    /\ phase = "args"
    /\ res' = Construct(cls, given)
    /\ phase' = res'.verdict
    /\ UNCHANGED <<cls, given, mode, dumped, res2>>

DumpIt(m) ==
    /\ phase = "built"
    /\ mode' = m
    /\ dumped' = DumpObj(cls, m, res.obj)
    /\ phase' = "dumped"
    /\ UNCHANGED <<cls, given, res, res2>>

Revalidate ==
    /\ phase = "dumped"
    /\ res2' = Reload(cls, dumped)
    /\ phase' = "revalidated"
    /\ UNCHANGED <<cls, given, res, mode, dumped>>

Next == \/ \E f \in FieldsOf(cls) : \E t \in Tok(Kind(cls, f)) : Give(f, t)
        \/ DoConstruct
        \/ \E m \in Modes : DumpIt(m)
        \/ Revalidate

Spec == Init /\ [][Next]_vars

-----------------------------------------------------------------------------
Constructed == phase \in {"built", "rejected", "dumped", "revalidated"}
Built == phase \in {"built", "dumped", "revalidated"}

TypeOK ==
    /\ cls \in Classes
    /\ DOMAIN given = FieldsOf(cls)
    /\ \A f \in FieldsOf(cls) : given[f] \in Tok(Kind(cls, f))
    /\ phase \in {"args", "built", "rejected", "dumped", "revalidated"}
    /\ Cardinality(Deviations(cls, given)) <= MaxDev

(* the baseline call itself is valid for every class *)
BaselineIsValid == (phase = "args" /\ given = Baseline(cls)) => Construct(cls, given).verdict = "built"

(* a call is refused exactly when some field is at fault, and the faulty fields are named   *)
RejectedIffBadField ==
    Constructed => /\ (phase = "rejected") = (res.bad # {})
                   /\ res.bad = {f \in FieldsOf(cls) :
                                   \/ (given[f] = "absent" /\ Required(cls, f))
                                   \/ (given[f] # "absent" /\ ~Accepts(Kind(cls, f), given[f]))}

(* a built object is complete: every field holds a normal form its kind allows; None only  *)
(* in nullable fields; required fields were really supplied; absent fields hold the default *)
BuiltIsComplete ==
    Built => \A f \in FieldsOf(cls) :
                /\ res.obj[f] \in NormalsOf(Kind(cls, f))
                /\ (res.obj[f] = "NONE" => Nullable(Kind(cls, f)))
                /\ (Required(cls, f) => given[f] # "absent")
                /\ (given[f] = "absent" => res.obj[f] = Default(cls, f))

(* variables are unpacked only where the documentation says so, and never with a unit,      *)
(* dimensions or a non-string payload                                                       *)
VarTokens == {"var", "var_one", "var_digits", "var_unit", "var_1d", "var_int", "orcid_var",
              "orcid_var_unit", "email_var", "dt_var"}
VariablesOnlyWhereDeclared ==
    Built => \A f \in FieldsOf(cls) :
                given[f] \in VarTokens =>
                    /\ Unpacks(Kind(cls, f))
                    /\ given[f] \notin {"var_unit", "var_1d", "var_int", "orcid_var_unit", "dt_var"}

(* normalisation is idempotent: feeding a stored value back stores the same value           *)
NormalIdempotent ==
    Built => \A f \in FieldsOf(cls) : \A m \in Modes :
                Normal(Kind(cls, f), AsInput(Dump(m, res.obj[f]))) = res.obj[f]

(* dump -> validate reproduces the object (both dump modes); a JSON dump is plain data      *)
RoundTrip == phase = "revalidated" => (res2.verdict = "built" /\ res2.obj = res.obj)
JsonDumpIsPlain == (phase \in {"dumped", "revalidated"} /\ mode = "json") =>
                      \A f \in FieldsOf(cls) : JsonPlain(dumped[f])

(* equivalent spellings of the arguments give equal objects *)
EquivalentInputsEqual ==
    Built => LET alt == [f \in FieldsOf(cls) |-> AltTok(Kind(cls, f), given[f])]
             IN Construct(cls, alt).obj = res.obj

(* derived properties are total on built objects *)
DerivedTotal ==
    Built => /\ (cls = "Measurement" =>
                   /\ res.derived.maybe_int \in {"none", "int", "text"}
                   /\ (res.derived.maybe_int = "none") = (res.obj.run_number = "NONE"))
             /\ (cls = "Software" =>
                   (res.derived.compact = "name_version_url") = (res.obj.url # "NONE"))

(* package-metadata table (state free; checked once per state for simplicity):              *)
(* never a DOI, a URL only from metadata, version from metadata whenever metadata exists,   *)
(* and an entry  label, url  yields exactly url even when url contains commas                *)
PkgTable ==
    \A c \in PkgCases :
        LET o == PkgOutcome(c.meta, c.module, c.labels) IN
        /\ o.out \in {"software", "ModuleNotFoundError", "RuntimeError"}
        /\ (o.out = "software" => o.doi = "NONE")
        /\ (c.meta = "present" => (o.out = "software" /\ o.version = "metadata"))
        /\ (c.meta = "absent" => o.url = {})
        /\ (o.out = "ModuleNotFoundError") = (c.meta = "absent" /\ c.module = "absent")
UrlSplit ==
    \A l \in SourceLabels : \A u \in {<<"u">>, <<"u", ",", "v">>, <<"u", ",", "v", ",", "w">>} :
        UrlOf(Entry(l, u)) = u
PkgInv == (phase = "args" /\ given = Baseline(cls)) => (PkgTable /\ UrlSplit)
=============================================================================
