SPECIFICATION Spec
CONSTANTS
  Bug = "core_not_added"
  MaxBlocks = 1
  MaxItems = 1
  ItemDecls <- MC_ItemDecls
INVARIANT CoreWheneverAny
CHECK_DEADLOCK FALSE
