SPECIFICATION Spec
CONSTANTS
  Beams0 <- MC_Beams_thorough
  Quats <- MC_Quats_thorough
  Scales = {2, 3}
  MaxNorm = 18
  Bug = "none"
INVARIANT TypeOK
INVARIANT NormIdentity
INVARIANT Direction
INVARIANT Rotations
INVARIANT Lossless
PROPERTY LengthIndependent
PROPERTY Covariant
CHECK_DEADLOCK FALSE
