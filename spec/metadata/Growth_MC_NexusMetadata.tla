---------------------- MODULE Growth_MC_NexusMetadata ----------------------
(* Bounds of the step machine Growth_NexusMetadata.                                           *)
(*   UQ  (quick)    2 NXinstrument + 1 NXsample group, their name fields (one alternative     *)
(*                  text), the five NXentry fields (one alternative end_time)                  *)
(*   UT  (thorough) + a third NXinstrument, an NXcollection with an NXinstrument nested in    *)
(*                  it, a group without NX_class, more name / time alternatives               *)
EXTENDS Growth_NexusMetadata

T1 == TimeF("str",   19724, 11045, 500000000, "offset", 60)     \* 2024-01-02T03:04:05.5+01:00
T2 == TimeF("arr1",  19724, 300,   0,         "Z",      0)      \* 2024-01-02T00:05:00Z
T3 == TimeF("bytes", 19782, 86399, 123456789, "offset", 0 - 570) \* 2024-02-29T23:59:59.123456789-09:30 (next day in UTC)
T4 == TimeF("fixed", 19723, 60,    250000,    "offset", 840)    \* 2024-01-01T00:01:00.00025+14:00 (previous year in UTC)
T5 == TimeF("str",   15198, 42617, 0,         "naive",  0)      \* 2011-08-12T11:50:17

UQ == << GroupItem("ia", "NXinstrument"), GroupItem("ib", "NXinstrument"), GroupItem("sa", "NXsample"),
         NameItem("ia", NameF("str", "dream", "canon")),
         NameItem("ib", NameF("arr1", "loki", "lower")),
         NameItem("sa", NameF("str", "fakeinst", "canon")),
         NameItem("ia", NameF("bytes", "amor", "upper")),
         StrItem("title", StrF("str", "plain")),
         StrItem("entry_identifier", StrF("bytes", "digits")),
         StrItem("experiment_identifier", StrF("fixed", "plain")),
         TimeItem("start_time", T1),
         TimeItem("end_time", T2),
         TimeItem("end_time", T3) >>

UT == << GroupItem("ia", "NXinstrument"), GroupItem("ib", "NXinstrument"), GroupItem("ic", "NXinstrument"),
         GroupItem("sa", "NXsample"), GroupItem("co", "NXcollection"), GroupItem("pl", ""),
         NestedItem("co/ni", "NXinstrument", "co"),
         NameItem("ia", NameF("str", "dream", "canon")),
         NameItem("ib", NameF("arr1", "loki", "lower")),
         NameItem("ic", WithShort(NameF("fixed", "fakeinst", "canon"), "estia")),
         NameItem("sa", NameF("str", "fakeinst", "canon")),
         NameItem("co/ni", NameF("str", "odin", "title")),
         NameItem("pl", NameF("str", "bifrost", "upper")),
         NameItem("ia", NameF("bytes", "amor", "upper")),
         NameItem("ia", NameF("str", "", "canon")),
         NameItem("ib", NameF("vlen_ascii", "hrpt", "padded")),
         NameItem("ib", NameF("arr2", "loki", "lower")),
         StrItem("title", StrF("str", "unicode")),
         StrItem("title", StrF("arr1", "empty")),
         StrItem("entry_identifier", StrF("bytes", "digits")),
         StrItem("experiment_identifier", StrF("fixed", "plain")),
         StrItem("experiment_identifier", StrF("str", "padded")),
         TimeItem("start_time", T1),
         TimeItem("start_time", T5),
         TimeItem("start_time", BadTime("garbage")),
         TimeItem("end_time", T2),
         TimeItem("end_time", T3),
         TimeItem("end_time", T4) >>

ArgsQ == << NoArg, ArgOf("ia"), ArgOf("ib"), ArgOf("sa"), ArgOf("zz") >>
ArgsT == << NoArg, ArgOf("ia"), ArgOf("ib"), ArgOf("ic"), ArgOf("sa"), ArgOf("pl"), ArgOf("co/ni"), ArgOf("zz") >>

(* the library knows the ESS suite and Amor - and, as far as this model is concerned, could know more *)
LibQ == ESSInstruments \cup {"amor"}
LibT == ESSInstruments \cup {"amor", "hrpt", "zebra"}
=============================================================================
