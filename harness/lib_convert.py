"""Shared helpers for the convert() checks (C02, C06).

* builds real DataArrays / Datasets for an abstract configuration [o, t, s, m, x] of
  spec/conv/ConvertGraphDefs.tla with random, *mutually inconsistent* supplied coordinates;
* independent reference formulas (numpy float64, written from the physics: lambda = h t / (m L),
  E = m L^2 / (2 t^2), d = lambda / (2 sin theta), Q = 4 pi sin theta / lambda, ...), one per
  documented kernel, with the constants of harness/refmap.py;  they never call scippneutron;
* `run_cases` executes the real API for a chunk of emitted cases (used through multiprocessing).

Everything a worker returns is plain Python (picklable, JSON-able).
"""

from __future__ import annotations

import inspect
import threading
import time
import zlib

import numpy as np

_LAUNCH = threading.Lock()


def spaced_tlc(ctx, *args, **kw):
    """ctx.tlc for concurrent use: launches are spaced by >= 30 ms so that the run-local metadir names
    (which contain the launch time in ms) can never coincide."""
    with _LAUNCH:
        time.sleep(0.03)
    return ctx.tlc(*args, **kw)


GEO11 = ('position', 'source_position', 'sample_position', 'incident_beam', 'scattered_beam',
         'L1', 'L2', 'Ltotal', 'two_theta', 'incident_energy', 'final_energy')
AUX = ('pulse_time', 'u_matrix', 'b_matrix', 'sample_rotation')
ORIGINS = ('tof', 'wavelength', 'energy', 'Q')
ORIGIN_UNIT = {'tof': 'us', 'wavelength': 'angstrom', 'energy': 'meV', 'Q': '1/angstrom'}
# documented output units (canonical input units: m, us, meV, angstrom, rad)
OUT_UNIT = {
    'incident_beam': 'm', 'scattered_beam': 'm', 'L1': 'm', 'L2': 'm', 'Ltotal': 'm',
    'two_theta': 'rad', 'wavelength': 'angstrom', 'energy': 'meV', 'dspacing': 'angstrom',
    'Q': '1/angstrom', 'Qx': '1/angstrom', 'Qy': '1/angstrom', 'Qz': '1/angstrom',
    'Q_vec': '1/angstrom', 'energy_transfer': 'meV', 'time_at_sample': 'us',
    'ub_matrix': '1/angstrom', 'hkl_vec': 'dimensionless', 'h': 'dimensionless',
    'k': 'dimensionless', 'l': 'dimensionless',
}
VALUE_RTOL = 1e-9  # DESIGN 5/C02: the value flag uses 1e-9 relative (rounding itself is C01/C03)


def supplied(mask: int):
    return [GEO11[i] for i in range(11) if (mask >> i) & 1]


def _consts():
    from .refmap import E_CHARGE, H, MN

    h, mn = float(H), float(MN)
    mev = float(E_CHARGE) * 1e-3  # J per meV
    return h, mn, mev


# --------------------------------------------------------------------------- data construction
def case_seed(seed, c):
    key = f"{seed}|{c['o']}|{c['t']}|{int(c['s'])}|{c['m']}|{int(c['x'])}"
    return zlib.crc32(key.encode()) + (seed << 32)


def _unit_vec_box(rng, shape=()):
    return rng.uniform(-4.0, 4.0, size=(*shape, 3))


def _rot(rng):
    q, r = np.linalg.qr(rng.normal(size=(3, 3)))
    q = q * np.sign(np.diag(r))
    if np.linalg.det(q) < 0:
        q[:, 0] = -q[:, 0]
    return q


CANON_PER_PIXEL = ('position', 'scattered_beam', 'L2', 'Ltotal', 'two_theta', 'final_energy')
CANON_SCALAR = ('source_position', 'sample_position', 'incident_beam', 'L1', 'incident_energy')


def case_layout(c, seed):
    """Layout / listing-order / history options of a case (HARDENING items 2, 3, 6, 7, 8): a
    deterministic function of (seed, configuration), drawn from its own random stream.

    scheme  'canon'  - the textbook layout: beam geometry scalar, detector geometry per spectrum
            'scalar' - a single-pixel instrument: every geometry / energy coordinate is 0-d; the data is
                       1-d (no spectrum dimension) or has spectra that share the geometry
            'pixel'  - everything that is per spectrum in 'canon' plus a random subset of the normally
                       scalar coordinates (source / sample position, incident beam, L1, incident energy)
    The layouts stay inside dims(incident beam) <= dims(scattered beam): the opposite case (a beam per
    spectrum meeting a single scattered beam) is not needed by any reading of the property.
    S, T    number of spectra / origin points (0 = an empty bank / empty axis, 1 = single-element inputs)
    data_t  the data array is stored as [origin, spectrum];  origin_t: a 2-d origin coordinate is stored
            with the other dimension order than the data
    shuffle coordinates are inserted in a random order;  items: the Dataset has 1 or 2 items
    order   which of deduce_conversion_graph / convert is called first on the fresh objects"""
    r = np.random.default_rng([case_seed(seed, c) & 0xFFFFFFFF, 0xC02])
    u = r.random()
    scheme = 'canon' if u < 0.4 else ('scalar' if u < 0.6 else 'pixel')
    sizes = (0, 1, 1, 2, 2, 2, 2, 2, 3, 3, 3, 3, 3, 3, 3, 3)    # empty and single-element inputs are admissible
    lay = {'scheme': scheme, 'S': int(r.choice(sizes)), 'T': int(r.choice(sizes)),
           'edges': bool(r.integers(0, 2)), 'two_d': bool(r.integers(0, 4) == 0),
           'data_t': bool(r.random() < 0.3), 'origin_t': bool(r.integers(0, 2)),
           'shuffle': bool(r.integers(0, 2)), 'items': int(r.choice((1, 2, 2))),
           'order': 'deduce_first' if r.integers(0, 2) else 'convert_first',
           'extra_pp': [n for n in CANON_SCALAR if r.random() < 0.5] if scheme == 'pixel' else [],
           'data_spectrum': True}
    if scheme == 'scalar' and not lay['two_d'] and r.integers(0, 2):
        lay['data_spectrum'] = False
    lay['perm'] = [int(x) for x in r.permutation(16)]
    return lay


def layout_tag(lay):
    return lay['scheme']


def build_coords(c, rng, lay=None):
    """Random coordinate values for configuration c (dict o,t,s,m,x) in layout `lay`.

    Returns (coords: name -> scipp Variable in insertion order, S, T).  Supplied values are independent
    random numbers, so e.g. a supplied L1 differs from |incident_beam| and from |sample - source|: which
    of them the implementation used is visible in the result.
    Ranges (soundness): lengths 0.5..14 m, tof 1e4..5e4 us (so that t - t0 >= 2.9 ms for every
    admissible L and E >= 20 meV: the NaN region of energy_transfer is never touched),
    two_theta in [0.2, 2.9] rad, all other quantities positive and O(1..100)."""
    import scipp as sc

    if lay is None:
        lay = {'scheme': 'canon', 'S': int(rng.integers(2, 4)), 'T': int(rng.integers(2, 4)),
               'edges': bool(rng.integers(0, 2)), 'two_d': bool(rng.integers(0, 4) == 0), 'data_t': False,
               'origin_t': False, 'shuffle': False, 'items': 2, 'order': 'deduce_first', 'extra_pp': [],
               'data_spectrum': True, 'perm': list(range(16))}
    o = c['o']
    S, T = lay['S'], lay['T']
    edges = lay['edges']
    n_o = T + 1 if edges else T
    lo, hi = {'tof': (1.0e4, 5.0e4), 'wavelength': (0.5, 6.0), 'energy': (5.0, 100.0),
              'Q': (0.5, 10.0)}[o]
    two_d = lay['two_d'] and lay['data_spectrum']
    if two_d:
        ov = np.sort(rng.uniform(lo, hi, size=(S, n_o)), axis=1)
        if lay['origin_t']:
            origin = sc.array(dims=[o, 'spectrum'], values=np.ascontiguousarray(ov.T), unit=ORIGIN_UNIT[o])
        else:
            origin = sc.array(dims=['spectrum', o], values=ov, unit=ORIGIN_UNIT[o])
    else:
        origin = sc.array(dims=[o], values=np.sort(rng.uniform(lo, hi, size=n_o)), unit=ORIGIN_UNIT[o])
    coords = {o: origin}
    if lay['scheme'] == 'scalar':
        per_pixel = set()
    else:
        per_pixel = set(CANON_PER_PIXEL) | set(lay['extra_pp'])

    def shp(name):
        return (S,) if name in per_pixel else ()

    def far(make, ref, dmin=0.5):
        for _ in range(200):
            v = make()
            if np.all(np.linalg.norm(v - ref, axis=-1) >= dmin):
                return v
        raise RuntimeError('could not draw separated positions')

    def vec(name, v):
        if name in per_pixel:
            return sc.vectors(dims=['spectrum'], values=np.asarray(v).reshape(S, 3), unit='m')
        return sc.vector(np.asarray(v).reshape(3), unit='m')

    def num(name, v, unit):
        if name in per_pixel:
            return sc.array(dims=['spectrum'], values=np.asarray(v, dtype='float64').reshape(S), unit=unit)
        return sc.scalar(float(np.asarray(v).reshape(())), unit=unit)

    sample = _unit_vec_box(rng, shp('sample_position'))
    source = far(lambda: _unit_vec_box(rng, shp('source_position')), sample)
    pos = far(lambda: _unit_vec_box(rng, shp('position')), sample)
    vals = {
        'position': lambda: vec('position', pos),
        'source_position': lambda: vec('source_position', source),
        'sample_position': lambda: vec('sample_position', sample),
        'incident_beam': lambda: vec('incident_beam',
                                     far(lambda: _unit_vec_box(rng, shp('incident_beam')), np.zeros(3))),
        'scattered_beam': lambda: vec('scattered_beam',
                                      far(lambda: _unit_vec_box(rng, shp('scattered_beam')), np.zeros(3))),
        'L1': lambda: num('L1', rng.uniform(2.0, 10.0, size=shp('L1')), 'm'),
        'L2': lambda: num('L2', rng.uniform(0.5, 4.0, size=shp('L2')), 'm'),
        'Ltotal': lambda: num('Ltotal', rng.uniform(3.0, 14.0, size=shp('Ltotal')), 'm'),
        'two_theta': lambda: num('two_theta', rng.uniform(0.2, 2.9, size=shp('two_theta')), 'rad'),
        'incident_energy': lambda: num('incident_energy', rng.uniform(20.0, 100.0, size=shp('incident_energy')),
                                       'meV'),
        'final_energy': lambda: num('final_energy', rng.uniform(20.0, 100.0, size=shp('final_energy')), 'meV'),
    }
    for name in GEO11:  # draw in fixed order so that values do not depend on the mask
        v = vals[name]()
        if (c['m'] >> GEO11.index(name)) & 1:
            coords[name] = v
    if c['x']:
        coords['pulse_time'] = sc.scalar(float(rng.uniform(0.0, 100.0)), unit='us')
        coords['u_matrix'] = sc.spatial.linear_transform(value=_rot(rng))
        b = np.triu(rng.uniform(0.05, 0.2, size=(3, 3))) + np.diag(rng.uniform(0.2, 0.5, size=3))
        coords['b_matrix'] = sc.spatial.linear_transform(value=b, unit='1/angstrom')
        coords['sample_rotation'] = sc.spatial.linear_transform(value=_rot(rng))
    if lay['shuffle']:      # listing order: the API does not ask for any order of the coordinates
        names = list(coords)
        order = [i for i in lay['perm'] if i < len(names)]
        coords = {names[i]: coords[names[i]] for i in order}
    return coords, S, T


def build_containers(c, seed, lay=None):
    import scipp as sc

    rng = np.random.default_rng(case_seed(seed, c))
    coords, S, T = build_coords(c, rng, lay)
    o = c['o']
    if lay is not None and not lay['data_spectrum']:
        data = sc.array(dims=[o], values=rng.uniform(0.0, 10.0, size=(T,)), unit='counts')
    elif lay is not None and lay['data_t']:
        data = sc.array(dims=[o, 'spectrum'], values=rng.uniform(0.0, 10.0, size=(T, S)), unit='counts')
    else:
        data = sc.array(dims=['spectrum', o], values=rng.uniform(0.0, 10.0, size=(S, T)), unit='counts')
    da = sc.DataArray(data, coords=coords)
    # the Dataset gets its own buffers: what one call does to its operands must not leak into the other
    items = {'a': da.copy(deep=True)}
    if lay is None or lay['items'] == 2:
        items['b'] = da.copy(deep=True) * sc.scalar(2.0)
    ds = sc.Dataset(items)
    return da, ds


# --------------------------------------------------------------------------- numpy normal form
def to_np(var, o):
    """scipp Variable -> float64 array of shape (s, t, *elem) with s, t in {1, size}; the dimension
    that is not 'spectrum' is the origin / target dimension (transform_coords may have renamed it)."""
    dims = list(var.dims)
    v = np.asarray(var.values, dtype='float64')
    nd = len(dims)
    elem = v.shape[nd:]
    other = [d for d in dims if d != 'spectrum']
    if len(other) > 1:
        raise ValueError(f'unexpected dims {dims}')
    order = ([dims.index('spectrum')] if 'spectrum' in dims else []) + [dims.index(d) for d in other]
    v = np.transpose(v, order + list(range(nd, v.ndim)))
    s = var.sizes['spectrum'] if 'spectrum' in dims else 1
    t = var.sizes[other[0]] if other else 1
    return v.reshape(s, t, *elem)


def _norm(v):
    return np.sqrt(np.sum(v * v, axis=-1))


def _angle(a, b):
    cr = np.cross(a, b)
    return np.arctan2(_norm(cr), np.sum(a * b, axis=-1))


def reference_kernels():
    """kernel name -> f(**inputs as normal-form arrays) -> dict of outputs (normal form).
    Units: m, us, meV, angstrom, 1/angstrom, rad."""
    h, mn, mev = _consts()
    k_lt = h / mn * 1e-6 * 1e10  # lambda[A] = k_lt * t[us] / L[m]

    def e_of_v(L, t_us):  # kinetic energy in meV of a neutron covering L metres in t_us microseconds
        v = L / (t_us * 1e-6)
        return 0.5 * mn * v * v / mev

    def lam_from_e(E):  # angstrom
        return h / np.sqrt(2.0 * mn * E * mev) * 1e10

    def t0_us(L, E):
        return L * np.sqrt(mn / (2.0 * E * mev)) * 1e6

    def q_elements(wavelength, incident_beam, scattered_beam):
        ei = incident_beam / _norm(incident_beam)[..., None]
        ef = scattered_beam / _norm(scattered_beam)[..., None]
        q = 2.0 * np.pi / wavelength[..., None] * (ei - ef)
        return {'Qx': q[..., 0], 'Qy': q[..., 1], 'Qz': q[..., 2]}

    def hkl(Q_vec, ub_matrix, sample_rotation):
        m = np.linalg.inv(sample_rotation @ ub_matrix)
        return {'hkl_vec': np.einsum('...ij,...j->...i', m, Q_vec) / (2.0 * np.pi)}

    return {
        'straight_incident_beam': lambda source_position, sample_position:
            {'incident_beam': sample_position - source_position},
        'straight_scattered_beam': lambda position, sample_position:
            {'scattered_beam': position - sample_position},
        'L1': lambda incident_beam: {'L1': _norm(incident_beam)},
        'L2': lambda scattered_beam: {'L2': _norm(scattered_beam)},
        'two_theta': lambda incident_beam, scattered_beam:
            {'two_theta': _angle(incident_beam, scattered_beam)},
        'total_beam_length': lambda L1, L2: {'Ltotal': L1 + L2},
        'total_straight_beam_length_no_scatter': lambda source_position, position:
            {'Ltotal': _norm(position - source_position)},
        'wavelength_from_tof': lambda tof, Ltotal: {'wavelength': k_lt * tof / Ltotal},
        'energy_from_tof': lambda tof, Ltotal: {'energy': e_of_v(Ltotal, tof)},
        'dspacing_from_tof': lambda tof, Ltotal, two_theta:
            {'dspacing': k_lt * tof / Ltotal / (2.0 * np.sin(two_theta / 2.0))},
        'time_at_sample_from_tof': lambda pulse_time, tof, L2, wavelength:
            {'time_at_sample': pulse_time + tof - L2 * wavelength / k_lt},
        'Q_from_wavelength': lambda wavelength, two_theta:
            {'Q': 4.0 * np.pi * np.sin(two_theta / 2.0) / wavelength},
        'Q_elements_from_wavelength': q_elements,
        'Q_vec_from_Q_elements': lambda Qx, Qy, Qz:
            {'Q_vec': np.stack(np.broadcast_arrays(Qx, Qy, Qz), axis=-1)},
        'ub_matrix_from_u_and_b': lambda u_matrix, b_matrix: {'ub_matrix': u_matrix @ b_matrix},
        'hkl_vec_from_Q_vec': hkl,
        'hkl_elements_from_hkl_vec': lambda hkl_vec:
            {'h': hkl_vec[..., 0], 'k': hkl_vec[..., 1], 'l': hkl_vec[..., 2]},
        'energy_from_wavelength': lambda wavelength:
            {'energy': h * h / (2.0 * mn * (wavelength * 1e-10) ** 2) / mev},
        'dspacing_from_wavelength': lambda wavelength, two_theta:
            {'dspacing': wavelength / (2.0 * np.sin(two_theta / 2.0))},
        'wavelength_from_energy': lambda energy: {'wavelength': lam_from_e(energy)},
        'dspacing_from_energy': lambda energy, two_theta:
            {'dspacing': lam_from_e(energy) / (2.0 * np.sin(two_theta / 2.0))},
        'wavelength_from_Q': lambda Q, two_theta:
            {'wavelength': 4.0 * np.pi * np.sin(two_theta / 2.0) / Q},
        'energy_transfer_direct_from_tof': lambda tof, L1, L2, incident_energy:
            {'energy_transfer': incident_energy - e_of_v(L2, tof - t0_us(L1, incident_energy))},
        'energy_transfer_indirect_from_tof': lambda tof, L1, L2, final_energy:
            {'energy_transfer': e_of_v(L1, tof - t0_us(L2, final_energy)) - final_energy},
    }


_REF = None
# inputs of every kernel in documented order (mirrors the rule tables of ConvertGraphDefs.tla; used
# only to evaluate the provenance tree in dependency order)
_ELEM = {'position': 1, 'source_position': 1, 'sample_position': 1, 'incident_beam': 1,
         'scattered_beam': 1, 'Q_vec': 1, 'hkl_vec': 1, 'u_matrix': 2, 'b_matrix': 2,
         'sample_rotation': 2, 'ub_matrix': 2}


def _close(got, want, nelem):
    """norm-wise relative comparison over the element axes; shapes must broadcast to each other and
    `got` must carry at least the dimensions of `want`."""
    try:
        g, w = np.broadcast_arrays(got, want)
    except ValueError:
        return False, float('inf')
    if g.shape != got.shape:
        return False, float('inf')  # result lacks a dimension the formula depends on
    d = g - w
    if nelem:
        ax = tuple(range(-nelem, 0))
        num = np.sqrt(np.sum(d * d, axis=ax))
        den = np.sqrt(np.sum(w * w, axis=ax))
    else:
        num, den = np.abs(d), np.abs(w)
    if not (np.all(np.isfinite(g)) and np.all(np.isfinite(w))):
        return False, float('inf')
    with np.errstate(divide='ignore', invalid='ignore'):
        rel = np.where(den > 0, num / den, np.where(num == 0, 0.0, np.inf))
    worst = float(np.max(rel)) if rel.size else 0.0
    return worst <= VALUE_RTOL, worst


def reference_values(prov: dict, inputs: dict, o):
    """Evaluate the spec's provenance tree (node -> kernel) with the reference formulas on the supplied
    values (harness-only arithmetic: an exception here is a harness problem, not a verdict).
    Returns name -> normal-form array for the supplied and the computed nodes."""
    global _REF
    if _REF is None:
        _REF = reference_kernels()
    have = {n: to_np(v, o) for n, v in inputs.items()}
    todo = dict(prov)
    guard = 0
    while todo:
        guard += 1
        if guard > 50:
            raise RuntimeError(f'provenance tree not evaluable: {sorted(todo)} from {sorted(have)}')
        for node, kernel in list(todo.items()):
            f = _REF.get(kernel)
            if f is None:
                raise RuntimeError(f'unknown kernel {kernel}')
            args = list(inspect.signature(f).parameters)
            if not all(a in have for a in args):
                continue
            out = f(**{a: have[a] for a in args})
            for k, v in out.items():
                have[k] = v
                todo.pop(k, None)
            todo.pop(node, None)
    return have


def compare_result(prov: dict, have: dict, result_coords, o):
    """Compare every computed node of the provenance that exists in `result_coords` with the reference.
    Whatever the implementation returned becomes a verdict, never an exception:
    returns (all_ok, worst_relative_error, first_bad_node, all_finite)."""
    import scipp as sc

    ok, worst, bad, fin = True, 0.0, None, True
    for node in prov:
        try:
            if node not in result_coords:
                continue
            var = result_coords[node]
            if str(var.unit) != str(sc.Unit(OUT_UNIT[node])):
                var = var.to(unit=OUT_UNIT[node])
            got = to_np(var, o)
            if not np.all(np.isfinite(got)):
                fin = False
        except Exception:  # noqa: BLE001  (wrong unit, unexpected dims, not a number...)
            ok, worst, bad = False, float('inf'), bad or node
            continue
        good, rel = _close(got, have[node], _ELEM.get(node, 0))
        worst = max(worst, rel)
        if not good:
            ok, bad = False, bad or node
    return ok, worst, bad, fin


def evaluate_provenance(prov: dict, inputs: dict, result_coords, o):
    """(all_ok, worst_relative_error, first_bad_node) - see reference_values / compare_result"""
    return compare_result(prov, reference_values(prov, inputs, o), result_coords, o)[:3]


# --------------------------------------------------------------------------- graph observation
def describe_graph(graph):
    """Canonical, hashable description of a conversion graph: sorted tuple of
    (outs, kernel, ins) with kernel = __name__ (prefixed by the module when it is not one of the
    two documented kernel modules)."""
    rules = []
    for key, f in graph.items():
        outs = (key,) if isinstance(key, str) else tuple(key)
        mod = getattr(f, '__module__', '?')
        name = getattr(f, '__name__', repr(f))
        if mod not in ('scippneutron.conversion.beamline', 'scippneutron.conversion.tof'):
            name = f'{mod}.{name}'
        try:
            sig = inspect.signature(f)
            ins = tuple(getattr(f, '__transform_coords_input_keys__', tuple(sig.parameters)))
        except (TypeError, ValueError):
            ins = ('?',)
        rules.append((outs, name, ins))
    return tuple(sorted(rules))


def _classify(exc):
    return 'RuntimeError' if type(exc) is RuntimeError else f'other:{type(exc).__name__}'


def _same_supplied(inp_coords, out_coords):
    """every supplied coordinate is still there with the supplied unit, dtype and values (dimension
    *names* may change: transform_coords renames the origin dimension).  `inp_coords` must be deep
    copies taken before the call: the returned object may share buffers with the operands."""
    for n in inp_coords:
        if n not in out_coords:
            return False
        a, b = inp_coords[n], out_coords[n]
        if str(a.unit) != str(b.unit) or a.dtype != b.dtype:
            return False
        if not np.array_equal(np.asarray(a.values), np.asarray(b.values)):
            return False
    return True


def _observe_convert(obj, c, prov):
    import scippneutron as scn

    # deep snapshot: a kernel that normalises / shifts a supplied coordinate in place changes the caller's
    # object *and* what comes back; compared with an aliasing view it would look unchanged
    inp = {n: obj.coords[n].copy() for n in obj.coords}
    have = reference_values(prov, inp, c['o'])
    try:
        out = scn.convert(obj, origin=c['o'], target=c['t'], scatter=c['s'])
    except Exception as e:  # noqa: BLE001
        return {'out': _classify(e), 'added': (), 'val': True, 'same': True, 'has': False,
                'worst': 0.0, 'bad': None, 'fin': True, 'exc': repr(e)[:200]}
    try:
        oc = out.coords
        names = set(oc.keys())
        added = tuple(sorted(str(n) for n in names - set(inp)))
        has = c['t'] in names
    except Exception as e:  # noqa: BLE001  (not a DataArray / Dataset: a verdict, not a harness error)
        return {'out': 'malformed', 'added': (), 'val': True, 'same': True, 'has': False,
                'worst': 0.0, 'bad': None, 'fin': True, 'exc': f'result {type(out).__name__}: {e!r}'[:200]}
    val, worst, bad, fin = compare_result(prov, have, oc, c['o'])
    try:
        same = _same_supplied(inp, oc)
    except Exception:  # noqa: BLE001
        same = False
    return {'out': 'ok', 'added': added, 'val': bool(val), 'same': bool(same),
            'has': bool(has), 'worst': worst, 'bad': bad, 'fin': bool(fin), 'exc': None}


def run_case(c, seed, hist='first'):
    """Execute the real API for one emitted case; returns a plain dict (see c02.py).
    hist = 'first' | 'replay': a replay is the same case (same values, same layout) with the other
    order of deduce_conversion_graph / convert, executed again at the end of the run."""
    import scippneutron as scn

    lay = case_layout(c, seed)
    da, ds = build_containers(c, seed, lay)
    prov = c['prov'] if isinstance(c['prov'], dict) else {}
    res = {'c': {k: c[k] for k in ('o', 't', 's', 'm', 'x')}, 'prov': tuple(sorted(prov.items())),
           'layout': {k: v for k, v in lay.items() if k != 'perm'}}
    convert_first = (lay['order'] == 'convert_first') != (hist == 'replay')
    if convert_first:
        res['da'] = _observe_convert(da, c, prov)
        res['ds'] = _observe_convert(ds, c, prov)
    # the reported graph, and that it is a private copy
    try:
        g = scn.deduce_conversion_graph(da, origin=c['o'], target=c['t'], scatter=c['s'])
        desc = describe_graph(g)
        g.clear()
        g2 = scn.deduce_conversion_graph(ds, origin=c['o'], target=c['t'], scatter=c['s'])
        res['dg'] = 'ok'
        res['graph'] = desc
        res['copy'] = describe_graph(g2) == desc
    except Exception as e:  # noqa: BLE001
        res['dg'] = _classify(e)
        res['graph'] = None
        res['copy'] = True
        res['dg_exc'] = repr(e)[:200]
    if not convert_first:
        res['da'] = _observe_convert(da, c, prov)
        res['ds'] = _observe_convert(ds, c, prov)
    return res


def run_cases(args):
    """Worker entry: `lines` are JSON records emitted by Emit_ConvertGraph.  Returns a compact,
    picklable summary per case plus the distinct reported graphs of this chunk:
        (o, t, s, m, x, expected_outcome, prov_pairs, g, copy, da, ds, layout_tag)
    g = index into the chunk's graph list, -1 = RuntimeError, -2 = other exception;
    da / ds = (out, added, val, same, has, worst, fin)."""
    import json
    import warnings

    lines, seed = args[0], args[1]
    hist = args[2] if len(args) > 2 else 'first'
    warnings.simplefilter('ignore')
    graphs, gindex, out = [], {}, []
    for line in lines:
        c = json.loads(line)
        try:
            r = run_case(c, seed, hist)
        except Exception as e:  # noqa: BLE001  (harness problem, not a verdict)
            import traceback

            out.append(('harness_error', {k: c[k] for k in ('o', 't', 's', 'm', 'x')},
                        repr(e)[:300] + traceback.format_exc()[-500:]))
            continue
        if r['dg'] == 'ok':
            g = gindex.get(r['graph'])
            if g is None:
                g = gindex[r['graph']] = len(graphs)
                graphs.append(r['graph'])
        else:
            g = -1 if r['dg'] == 'RuntimeError' else -2
        obs = tuple((r[k]['out'], r[k]['added'], r[k]['val'], r[k]['same'], r[k]['has'], r[k]['worst'],
                     r[k]['fin']) for k in ('da', 'ds'))
        out.append((c['o'], c['t'], c['s'], c['m'], c['x'], c['outcome'], r['prov'], g, r['copy'], obs[0], obs[1],
                    layout_tag(r['layout'])))
    return out, graphs


# =========================================================================== C06: event mode
# (origin, target, scatter, inelastic coordinate)
EVENT_VARIANTS = (
    ('tof', 'wavelength', True, None), ('tof', 'energy', True, None), ('tof', 'dspacing', True, None),
    ('tof', 'Q', True, None), ('tof', 'Qx', True, None), ('tof', 'Q_vec', True, None),
    ('tof', 'energy_transfer', True, 'incident_energy'), ('tof', 'energy_transfer', True, 'final_energy'),
    ('tof', 'wavelength', False, None), ('tof', 'energy', False, None),
    ('wavelength', 'energy', True, None), ('wavelength', 'dspacing', True, None),
    ('wavelength', 'Q', True, None), ('wavelength', 'Q_vec', True, None),
    ('energy', 'wavelength', True, None), ('energy', 'dspacing', True, None),
    ('Q', 'wavelength', True, None),
    # hardening round: the remaining elastic targets ("all elastic and inelastic targets")
    ('tof', 'time_at_sample', True, None), ('tof', 'hkl_vec', True, None), ('tof', 'l', True, None),
    ('wavelength', 'hkl_vec', True, None), ('wavelength', 'Qz', True, None),
)
EVENT_DTYPES = ('float64', 'float32', 'int64', 'int32')
GEOM_MODES = ('positions', 'derived', 'beams')
HKL_TARGETS = ('hkl_vec', 'h', 'k', 'l')

# units an operand may come in, with the factor canonical -> unit (input generation only: the values are
# drawn in the canonical unit's range and rescaled, the reference is the dense conversion of the same numbers)
UNIT_CHOICES = {
    'tof': (('us', 1.0), ('ns', 1.0e3), ('ms', 1.0e-3)),
    'wavelength': (('angstrom', 1.0), ('nm', 0.1)),
    'energy': (('meV', 1.0), ('ueV', 1.0e3), ('eV', 1.0e-3)),
    'Q': (('1/angstrom', 1.0), ('1/nm', 10.0)),
    'length': (('m', 1.0), ('mm', 1.0e3), ('cm', 1.0e2)),
    'angle': (('rad', 1.0), ('deg', 180.0 / np.pi)),
    'inel': (('meV', 1.0), ('eV', 1.0e-3)),
}
# integer event coordinates keep enough distinct values only in these units
INT_UNITS = {'tof': ('us', 'ns'), 'wavelength': ('angstrom',), 'energy': ('meV', 'ueV'), 'Q': ('1/angstrom', '1/nm')}
OTHER_TARGET = {'tof': ('wavelength', 'energy'), 'wavelength': ('energy', 'Q'), 'energy': ('wavelength', 'dspacing')}
EVENT_HISTS = ('first', 'after_same_call', 'after_other_target', 'before_other_call', 'replay')


def event_opts(rng, lay, var, ev_dtype, geom):
    """Hardening options of one event-mode case (HARDENING items 1, 2, 3, 5, 6, 7, 8), drawn from the driver's
    seeded random.Random.  Every option stays inside "all binned layouts ... event coordinates in
    float32 / float64 / int, geometry per pixel"; what the dense conversion refuses is 'unsupported'."""
    o, t, _scatter, _inel = var
    kind, R = lay['kind'], lay['R']

    def unit(q, p=0.5, allowed=None):
        ch = [u for u in UNIT_CHOICES[q] if allowed is None or u[0] in allowed]
        return list(ch[0] if rng.random() >= p else rng.choice(ch))

    is_int = ev_dtype.startswith('int')
    opts = {
        'uev': unit(o, 0.5, INT_UNITS[o] if is_int else None),
        'uedge': unit(o, 0.5),
        'ulen': [unit('length', 0.4) for _ in range(3)],       # positions / beams share [0]; L1, L2, Ltotal own
        'uang': unit('angle', 0.3),
        'uinel': unit('inel', 0.3),
        'gdtype': 'float32' if rng.random() < 0.3 else 'float64',
        'wdtype': 'float32' if rng.random() < 0.3 else 'float64',
        'edtype': rng.choice(['float64', 'float64', 'float64', 'float32', 'int64']),
        'edges2d': kind == 'pt' and rng.random() < 0.25,
        # stored as [origin, spectrum].  (A 2-d *pixel* grid whose data and per-pixel geometry have different
        # dimension orders - e.g. after da.transpose() - is refused by scipp's binned arithmetic with a
        # VariableError while the dense conversion works: a refusal, not a wrong answer; not generated.)
        'transpose': kind == 'pt' and rng.random() < 0.4,
        'geom_t': False,
        'view': rng.random() < 0.2,
        'container': 'ds' if rng.random() < 0.15 else 'da',
        'squeeze': kind == 'p' and R == 1 and rng.random() < 0.5,
        'hist': 'first',
        'pulse': 'event' if (kind != 'pt' and rng.random() < 0.6) else 'dense',
        'shuffle': rng.random() < 0.5,
    }
    if kind == 'pt' and _column_major_contiguous(lay) and rng.random() < 0.8:
        # the buffer of a transposed array is contiguous in column-major order: this layout is what
        # transposing a freshly binned [origin, spectrum] array looks like - store it that way
        opts['transpose'] = True
    u = rng.random()
    if u < 0.10:
        opts['hist'] = 'after_same_call'
    elif u < 0.20 and o in OTHER_TARGET:
        opts['hist'] = 'after_other_target'
    elif u < 0.30:
        opts['hist'] = 'before_other_call'
    if t == 'time_at_sample':       # pulse_time + tof: the two must share a unit, in the events and on the edges
        opts['uedge'] = list(opts['uev'])
    if opts['edtype'] == 'int64' and opts['uedge'][0] not in INT_UNITS[o]:
        opts['uedge'] = list(UNIT_CHOICES[o][0])
    return opts


def _column_major_contiguous(lay):
    """the bins tile the buffer without gaps when visited column by column"""
    R, C = lay['R'], lay['C']
    cur = 0
    for c in range(C):
        for r in range(R):
            b = r * C + c
            if lay['bg'][b] != cur:
                return False
            cur = lay['en'][b]
    return cur == lay['N'] and R > 1 and C > 1


CANON_OPTS = {'uev': None, 'uedge': None, 'ulen': [['m', 1.0]] * 3, 'uang': ['rad', 1.0], 'uinel': ['meV', 1.0],
              'gdtype': None, 'wdtype': None, 'edtype': 'float64', 'edges2d': False, 'transpose': False,
              'geom_t': False, 'view': False, 'container': 'da', 'squeeze': False, 'hist': 'first',
              'pulse': 'dense', 'shuffle': False}


def _distinct(rng, n, lo, hi, dtype, near=None):
    """n pairwise distinct values of the given dtype in [lo, hi]; with near = (a, b) about half of the
    values are drawn from [a, b] instead (used to put events around the unphysical boundary t0)"""
    if n == 0:
        return np.zeros(0, dtype=dtype)
    for _ in range(50):
        v = rng.uniform(lo, hi, size=n)
        if near is not None:
            pick = rng.random(n) < 0.5
            v = np.where(pick, rng.uniform(near[0], near[1], size=n), v)
        if dtype.startswith('int'):
            v = np.round(v).astype(dtype)
            seen, free = set(), None
            for i in range(n):                      # replace duplicates by unused integers of the range
                if int(v[i]) in seen:
                    if free is None:
                        free = [x for x in rng.permutation(np.arange(int(lo), int(hi) + 1)).tolist()
                                if x not in set(v.tolist())]
                    if not free:
                        break
                    v[i] = free.pop()
                seen.add(int(v[i]))
        else:
            v = v.astype(dtype)
        if len(set(v.tolist())) == n:
            return v
    raise RuntimeError('could not draw distinct values')


def pixel_dims(kind, o):
    return {'p': ('spectrum',), 'pt': ('spectrum',), 'pp': ('y', 'x')}[kind]


def _padded(lay, rng):
    """the layout as the interior of a larger bin grid (one more bin at both ends of every grid dimension);
    the bins of the rim own slots behind the N slots of the layout"""
    kind, R, C, N = lay['kind'], lay['R'], lay['C'], lay['N']
    RB, CB = R + 2, (1 if kind == 'p' else C + 2)
    bg = np.zeros((RB, CB), dtype='int64')
    en = np.zeros((RB, CB), dtype='int64')
    cur = N
    c0 = 0 if kind == 'p' else 1
    for r in range(RB):
        for c in range(CB):
            if 1 <= r <= R and c0 <= c < c0 + C:
                b = (r - 1) * C + (c - c0)
                bg[r, c], en[r, c] = lay['bg'][b], lay['en'][b]
            else:
                size = int(rng.integers(0, 3))
                bg[r, c], en[r, c] = cur, cur + size
                cur += size
    return RB, CB, cur, bg.reshape(-1).tolist(), en.reshape(-1).tolist()


def build_binned(lay, var, ev_dtype, geom, seed, opts=None, salt=0):
    """A real binned DataArray for layout `lay` (dict kind,R,C,N,bg,en), the variant and the hardening
    options.  Returns (obj, da, info): obj is what convert() is called with (the DataArray or a Dataset
    holding it), info holds the dense 'slot table' inputs and the effective layout (a view has more slots)."""
    import scipp as sc

    op = dict(CANON_OPTS)
    op.update(opts or {})
    o, t, scatter, inel = var
    kind, R, C = lay['kind'], lay['R'], lay['C']
    rng = np.random.default_rng([seed & 0xFFFFFFFF, zlib.crc32(json_key(lay, var, ev_dtype, geom)), salt])
    uev = op['uev'] or [ORIGIN_UNIT[o], 1.0]
    uedge = op['uedge'] or [ORIGIN_UNIT[o], 1.0]
    lo, hi = {'tof': (300.0, 5.0e4) if inel else (1.0e3, 5.0e4), 'wavelength': (1.0, 300.0),
              'energy': (2.0, 400.0), 'Q': (1.0, 300.0)}[o]
    if op['view']:
        RB, CB, N, bgl, enl = _padded(lay, rng)
    else:
        RB, CB, N, bgl, enl = R, C, lay['N'], list(lay['bg']), list(lay['en'])
    wdt = op['wdtype'] or ('float32' if ev_dtype == 'float32' else 'float64')
    weights = (np.arange(1, N + 1) + rng.uniform(0.1, 0.9, size=N)).astype(wdt)
    variances = (np.arange(1, N + 1) * 0.5 + rng.uniform(0.01, 0.4, size=N)).astype(wdt)
    # geometry first (the event coordinate of inelastic cases is placed around t0, see below)
    pdims = pixel_dims(kind, o)
    pshape = {'p': (RB,), 'pt': (RB,), 'pp': (RB, CB)}[kind]
    npix = int(np.prod(pshape))
    sample = rng.uniform(-0.5, 0.5, size=3)
    source = sample + np.array([0.0, 0.0, -1.0]) * rng.uniform(5.0, 20.0) + rng.uniform(-0.3, 0.3, size=3)
    pos = sample + rng.uniform(0.5, 4.0, size=(npix, 1)) * _rand_dirs(rng, npix)
    e_in = float(rng.uniform(20.0, 100.0))
    e_fin = rng.uniform(20.0, 100.0, size=npix)
    near = None
    if inel:
        # input generation only (not an oracle): where the documented NaN boundary t0 lies, so that
        # about half of the events are unphysical / close to the boundary in some pixel
        _, mn, mev = _consts()
        if inel == 'incident_energy':
            t0 = np.array([np.linalg.norm(sample - source) * np.sqrt(mn / (2 * e_in * mev)) * 1e6])
        else:
            t0 = np.linalg.norm(pos - sample, axis=-1) * np.sqrt(mn / (2 * e_fin * mev)) * 1e6
        near = (0.3 * float(t0.min()), 1.4 * float(t0.max()))

    def scaled(f, nr):
        return None if nr is None else (nr[0] * f, nr[1] * f)

    ovals = _distinct(rng, N, lo * uev[1], hi * uev[1], ev_dtype, scaled(uev[1], near))
    ecoords = {o: sc.array(dims=['event'], values=ovals, unit=uev[0], dtype=ev_dtype),
               'extra': sc.array(dims=['event'], values=np.arange(1, N + 1), unit='s', dtype='int64')}
    # an event coordinate the caller already has that is named like a node of the conversion graph but is neither the
    # origin, the target nor an input of anything on the way (a leaf: nothing is computed from energy / dspacing):
    # an "unrelated coordinate" of this conversion, e.g. the result of an earlier conversion of the same events
    leaf = next((n for n in ('energy', 'dspacing') if n not in (o, t)), None)
    if leaf is not None and int(rng.integers(0, 3)) != 0:
        ecoords[leaf] = sc.array(dims=['event'], values=rng.uniform(1.0, 2.0, size=N), unit='meV' if leaf == 'energy' else 'angstrom')
    pulse_ev = None
    if t == 'time_at_sample' and op['pulse'] == 'event':
        pulse_ev = rng.uniform(0.0, 100.0, size=N) * uev[1]
        ecoords['pulse_time'] = sc.array(dims=['event'], values=pulse_ev, unit=uev[0])
    table = sc.DataArray(
        sc.array(dims=['event'], values=weights, variances=variances, unit='counts', dtype=wdt),
        coords=ecoords, masks={'em': sc.array(dims=['event'], values=rng.random(N) < 0.3)})
    if kind == 'p':
        bdims, bshape = ['spectrum'], (RB,)
    elif kind == 'pt':
        bdims, bshape = ['spectrum', o], (RB, CB)
    else:
        bdims, bshape = ['y', 'x'], (RB, CB)
    begin = sc.array(dims=bdims, values=np.array(bgl, dtype='int64').reshape(bshape), unit=None)
    end = sc.array(dims=bdims, values=np.array(enl, dtype='int64').reshape(bshape), unit=None)
    data = sc.bins(begin=begin, end=end, dim='event', data=table)
    if op['gdtype']:
        fdt = op['gdtype']
    else:
        fdt = 'float32' if (ev_dtype == 'float32' and rng.integers(0, 2)) else 'float64'
    ul = op['ulen']

    def perpix(v, unit, dtype='float64', f=1.0):
        return sc.array(dims=list(pdims), values=np.asarray(v).reshape(pshape) * f, unit=unit, dtype=dtype)

    def vecpix(v, u):
        return sc.vectors(dims=list(pdims), values=np.asarray(v).reshape(*pshape, 3) * u[1], unit=u[0])

    geo = {}
    if geom == 'positions':
        geo['position'] = vecpix(pos, ul[0])
        geo['source_position'] = sc.vector(source * ul[0][1], unit=ul[0][0])
        geo['sample_position'] = sc.vector(sample * ul[0][1], unit=ul[0][0])
    else:
        sb = pos - sample
        geo['incident_beam'] = sc.vector((sample - source) * ul[0][1], unit=ul[0][0])
        geo['scattered_beam'] = vecpix(sb, ul[0])
        l1 = float(np.linalg.norm(sample - source))
        l2 = np.linalg.norm(sb, axis=-1)
        geo['L1'] = sc.scalar(l1 * ul[1][1], unit=ul[1][0], dtype=fdt)
        geo['L2'] = perpix(l2, ul[2][0], fdt, ul[2][1])
        geo['Ltotal'] = perpix(l1 + l2 if scatter else np.linalg.norm(pos - source, axis=-1), ul[0][0], fdt, ul[0][1])
        geo['two_theta'] = perpix(_angle(np.broadcast_to(sample - source, sb.shape), sb), op['uang'][0], fdt,
                                  op['uang'][1])
        if not scatter:
            for k in ('incident_beam', 'scattered_beam', 'L1', 'L2', 'two_theta'):
                geo.pop(k)
        elif geom == 'beams':   # only the two beams: lengths and angle are computed from supplied vectors
            for k in ('L1', 'L2', 'Ltotal', 'two_theta'):
                geo.pop(k)
    if inel == 'incident_energy':
        geo['incident_energy'] = sc.scalar(e_in * op['uinel'][1], unit=op['uinel'][0], dtype=fdt)
    elif inel == 'final_energy':
        geo['final_energy'] = perpix(e_fin, op['uinel'][0], fdt, op['uinel'][1])
    if t == 'time_at_sample' and pulse_ev is None:
        geo['pulse_time'] = sc.scalar(float(rng.uniform(0.0, 100.0)) * uev[1], unit=uev[0])
    if t in HKL_TARGETS:
        geo['u_matrix'] = sc.spatial.linear_transform(value=_rot(rng))
        bm = np.triu(rng.uniform(0.05, 0.2, size=(3, 3))) + np.diag(rng.uniform(0.2, 0.5, size=3))
        geo['b_matrix'] = sc.spatial.linear_transform(value=bm, unit='1/angstrom')
        geo['sample_rotation'] = sc.spatial.linear_transform(value=_rot(rng))
    if op['geom_t']:            # per-pixel geometry stored with the other dimension order than the data
        for k, v in list(geo.items()):
            if v.ndim == 2:
                geo[k] = v.transpose().copy()
    coords = dict(geo)
    if kind == 'pt':
        nrow = RB if op['edges2d'] else 1
        rows = [np.sort(_distinct(rng, CB + 1, lo * uedge[1], hi * uedge[1], op['edtype'], scaled(uedge[1], near)))
                for _ in range(nrow)]
        if op['edges2d']:
            coords[o] = sc.array(dims=['spectrum', o], values=np.array(rows), unit=uedge[0], dtype=op['edtype'])
        else:
            coords[o] = sc.array(dims=[o], values=rows[0], unit=uedge[0], dtype=op['edtype'])
    coords['aux'] = sc.array(dims=[pdims[0]], values=rng.uniform(0, 1, size=pshape[0]), unit='K')
    coords['run'] = sc.scalar(int(rng.integers(1, 10**6)), unit=None)
    if op['shuffle']:
        names = list(coords)
        coords = {names[i]: coords[names[i]] for i in rng.permutation(len(names)).tolist()}
    masks = {'pm': sc.array(dims=list(pdims), values=(rng.random(pshape) < 0.3))}
    if kind == 'pt':
        masks['bm'] = sc.array(dims=bdims, values=(rng.random(bshape) < 0.3))
    da = sc.DataArray(data, coords=coords, masks=masks)
    if op['view']:              # the layout is the interior of a larger array: strided begin / end, offset slots
        for d in bdims:
            da = da[d, 1:-1]
    if op['squeeze']:           # a single pixel as a 0-d binned array with scalar geometry
        da = da['spectrum', 0]
        pdims, bdims = (), []
    if op['transpose']:
        da = da.transpose()
    pshape = tuple(da.sizes[d] for d in pdims)
    edges = None
    if kind == 'pt':
        ec = da.coords[o]
        edges = np.asarray(ec.values if ec.ndim == 1 else ec.transpose(['spectrum', o]).values)
    info = {'geo': {k: da.coords[k].copy() for k in geo}, 'ovals': ovals, 'edges': edges, 'pdims': tuple(pdims),
            'pshape': pshape, 'bdims': list(bdims), 'weights': weights, 'variances': variances, 'N': N,
            'uev': uev[0], 'uedge': uedge[0], 'pulse_ev': pulse_ev, 'edges2d': bool(op['edges2d'])}
    obj = da
    if op['container'] == 'ds':
        obj = sc.Dataset({'a': da})
    return obj, da, info


def json_key(lay, var, ev_dtype, geom):
    return repr((lay['kind'], lay['R'], lay['C'], lay['N'], tuple(lay['bg']), tuple(lay['en']), var, ev_dtype,
                 geom)).encode()


def _rand_dirs(rng, n):
    v = rng.normal(size=(n, 3))
    return v / np.linalg.norm(v, axis=-1, keepdims=True)


def _np_in_order(var, order):
    """values of `var` as an array whose leading axes follow `order` (missing dims get size 1);
    element axes (vectors) stay last"""
    dims = list(var.dims)
    v = np.asarray(var.values)
    nd = len(dims)
    present = [d for d in order if d in dims]
    if set(present) != set(dims):
        raise ValueError(f'unexpected dims {dims} for order {order}')
    v = np.transpose(v, [dims.index(d) for d in present] + list(range(nd, v.ndim)))
    shape = [var.sizes[d] if d in dims else 1 for d in order] + list(v.shape[len(present):])
    return v.reshape(shape)


def _canon(x):
    """hashable exact key of one (scalar or vector) element: NaN == NaN, -0.0 == 0.0"""
    a = np.atleast_1d(x)
    return tuple('nan' if (c != c) else float(c) for c in a.tolist())


def dense_table(info, var, o, slot_vals, slot_dim, names, unit=None, pulse=None):
    """Dense conversion *of the implementation* for the (pixel x slot) table: a dense DataArray with
    the same per-pixel geometry and the slot values along `slot_dim`.  Returns name -> (array of
    shape pshape + (nslot,) [+ (3,)], unit string, dtype string)."""
    import scipp as sc
    import scippneutron as scn

    _, t, scatter, _ = var
    pdims, pshape = info['pdims'], info['pshape']
    n = len(slot_vals)
    data = sc.zeros(dims=[*pdims, slot_dim], shape=[*pshape, n], unit='counts')
    coords = {k: v.copy() for k, v in info['geo'].items()}   # private copies: the oracle shares nothing
    coords[o] = sc.array(dims=[slot_dim], values=slot_vals, unit=unit or ORIGIN_UNIT[o], dtype=slot_vals.dtype)
    if pulse is not None:
        coords['pulse_time'] = sc.array(dims=[slot_dim], values=pulse, unit=unit or ORIGIN_UNIT[o])
    dense = sc.DataArray(data, coords=coords)
    conv = scn.convert(dense, origin=o, target=t, scatter=scatter)
    out = {}
    other = [d for d in conv.dims if d not in pdims]
    sdim = other[0] if other else slot_dim   # transform_coords may have renamed the slot dimension
    for name in names:
        if name not in conv.coords:
            continue
        c = conv.coords[name]
        arr = _np_in_order(c, [*pdims, sdim])
        full = [*pshape, n] + list(arr.shape[len(pdims) + 1:])
        out[name] = (np.broadcast_to(arr, full), str(c.unit), str(c.dtype))
    return out


def _flat_bins(binned_var, in_dims):
    """(begin, end, buffer DataArray) of a binned variable with begin/end flattened in the row-major
    order of `in_dims` (a renamed dimension is matched by position)."""
    cons = binned_var.bins.constituents
    b, e = cons['begin'], cons['end']
    if len(b.dims) != len(in_dims):
        raise ValueError('bin grid rank changed')
    order = []
    extra = [d for d in b.dims if d not in in_dims]
    for d in in_dims:
        if d in b.dims:
            order.append(d)
        elif len(extra) == 1:
            order.append(extra[0])
        else:
            raise ValueError(f'cannot match dims {b.dims} to {in_dims}')
    bb = _np_in_order(b, order).reshape(-1)
    ee = _np_in_order(e, order).reshape(-1)
    return bb, ee, cons['data']


def _item(obj):
    """the data array of the container convert() was called with"""
    import scipp as sc

    return obj['a'] if isinstance(obj, sc.Dataset) else obj


def run_event_case(case, seed):
    """Execute one event-mode conversion and project the result to ids (see Trace_EventMode.tla)."""
    import scipp as sc
    import scippneutron as scn

    lay, var, ev_dtype, geom = case['lay'], tuple(case['var']), case['dtype'], case['geom']
    opts = dict(CANON_OPTS)
    opts.update(case.get('opts') or {})
    hist = case.get('hist') or opts['hist']
    o, t, scatter, inel = var
    kind, R, C = lay['kind'], lay['R'], lay['C']
    B = R * C
    obj, da, info = build_binned(lay, var, ev_dtype, geom, seed, opts)
    N = info['N']
    ev = {'ev': 'conv', 'tid': case['tid'], 'kind': kind, 'R': R, 'C': C, 'N': N, 'bg': list(lay['bg']),
          'en': list(lay['en']), 'out': 'ok', 'hist': hist, 'bins': [], 'edges': [],
          'same': {'masks': True, 'evmasks': True, 'coords': True, 'evcoord': True, 'input': True, 'formula': True, 'evother': True}}
    flags = [k for k in ('edges2d', 'transpose', 'geom_t', 'view', 'squeeze') if opts[k]]
    if opts['container'] == 'ds':
        flags.append('Dataset')
    meta = {'variant': f"{o}->{t}, scatter={scatter}" + (f", {inel}" if inel else ''), 'dtype': ev_dtype,
            'geom': geom, 'kind': kind, 'note': None, 'new_event_coords': [], 'layout_flags': flags,
            'units': {'event': info['uev'], 'edges': info['uedge'] if kind == 'pt' else None,
                      'lengths': [u[0] for u in opts['ulen']], 'angle': opts['uang'][0], 'inelastic': opts['uinel'][0]},
            'dtypes': {'geometry': opts['gdtype'], 'weights': opts['wdtype'],
                       'edges': opts['edtype'] if kind == 'pt' else None}}
    snap = obj.copy(deep=True)
    snap_da = _item(snap)
    snap_buf = da.bins.constituents['data'].copy(deep=True)
    edge_slots = None
    if kind == 'pt':
        edge_slots = np.ascontiguousarray(info['edges']).reshape(-1)
    # --- the dense reference of the implementation (pixel x slot table, pixel x edge table)
    try:
        dense_table(info, var, o, info['ovals'], 'slot', (), info['uev'], info['pulse_ev'])
        if edge_slots is not None:
            dense_table(info, var, o, edge_slots, 'edge', (), info['uedge'])
        dense_ok = True
    except Exception as e:  # noqa: BLE001
        dense_ok = False
        meta['note'] = f'dense conversion refuses these operands: {type(e).__name__}'
    # --- history before the judged call (HARDENING item 6): the same object is converted first
    if hist == 'after_same_call' or (hist == 'after_other_target' and o not in OTHER_TARGET):
        try:
            scn.convert(obj, origin=o, target=t, scatter=scatter)
        except Exception:  # noqa: BLE001
            pass
    elif hist == 'after_other_target':
        try:
            scn.convert(obj, origin=o, target=[x for x in OTHER_TARGET[o] if x != t][0], scatter=scatter)
        except Exception:  # noqa: BLE001
            pass
    try:
        out = scn.convert(obj, origin=o, target=t, scatter=scatter)
    except Exception as e:  # noqa: BLE001
        ev['out'] = 'raised' if dense_ok else 'unsupported'
        meta['exc'] = repr(e)[:300]
        return ev, meta
    if not dense_ok:
        ev['out'] = 'unsupported'
        return ev, meta
    if hist == 'before_other_call':
        # a later call with other data of the same shape must not reach into what was already returned
        try:
            twin, _, _ = build_binned(lay, var, ev_dtype, geom, seed, opts, salt=1)
            scn.convert(twin, origin=o, target=t, scatter=scatter)
        except Exception:  # noqa: BLE001
            pass
    in_dims = info['bdims']
    try:
        out = _item(out)
        ob, oe, obuf = _flat_bins(out.data, in_dims)
        ib, ie, ibuf = _flat_bins(snap_da.data, in_dims)
        new_ev = [str(n) for n in obuf.coords if n not in ibuf.coords]
        has_var = obuf.variances is not None
        wv = np.asarray(obuf.values)
        vv = np.asarray(obuf.variances) if has_var else None
        xv = np.asarray(obuf.coords['extra'].values) if 'extra' in obuf.coords else None
        ocols = {n: (np.asarray(obuf.coords[n].values), str(obuf.coords[n].unit), str(obuf.coords[n].dtype))
                 for n in obuf.coords}
        omasks = {str(n): np.asarray(obuf.masks[n].values) for n in obuf.masks.keys()}
        nbuf = len(wv)
        if len(ob) != len(oe) or any(int(a) < 0 or int(b_) > nbuf or int(a) > int(b_) for a, b_ in zip(ob, oe)) \
                or any(len(col[0]) != nbuf for col in ocols.values()) or (xv is not None and len(xv) != nbuf):
            raise ValueError('bin indices reach outside the event buffer')
    except Exception as e:  # noqa: BLE001  (whatever came back is a verdict, not a harness error)
        ev['out'] = 'malformed'
        meta['exc'] = 'result is not a binned array over the same grid: ' + repr(e)[:200]
        return ev, meta
    meta['new_event_coords'] = sorted(new_ev)
    names = sorted(set(new_ev) | {t})
    tab = dense_table(info, var, o, info['ovals'], 'slot', names, info['uev'], info['pulse_ev'])
    # integer-typed event coordinates: "the value the dense formula gives for that event's coordinate" is the value
    # for that NUMBER - the same numbers handed over as doubles (same unit) must give the same table up to rounding
    # (1e-11 relative; a conversion that rounds integer nanoseconds to whole microseconds is off by 1e-4)
    if str(ev_dtype).startswith('int'):
        try:
            pulse64 = None if info['pulse_ev'] is None else np.asarray(info['pulse_ev']).astype('float64') \
                if np.asarray(info['pulse_ev']).dtype.kind in 'iu' else info['pulse_ev']
            tab64 = dense_table(info, var, o, np.asarray(info['ovals']).astype('float64'), 'slot', names, info['uev'], pulse64)
            for name, (arr, unit, _dt) in tab.items():
                if name not in tab64 or tab64[name][1] != unit:
                    continue
                a, b_ = np.asarray(arr, dtype='float64'), np.asarray(tab64[name][0], dtype='float64')
                fin = np.isfinite(b_)
                if a.shape != b_.shape or not np.array_equal(np.isfinite(a), fin):
                    continue       # which events are unphysical is judged through the value-ids
                scale = float(np.max(np.abs(b_[fin]))) if fin.any() else 0.0
                if fin.any() and not np.all(np.abs(a[fin] - b_[fin]) <= 1e-11 * np.abs(b_[fin]) + 1e-13 * scale):
                    ev['same']['formula'] = False
                    meta['note'] = (f'{name}: dense table of the integer-typed numbers differs from the table of the same '
                                    f'numbers as doubles by up to {float(np.max(np.abs(a[fin] - b_[fin]) / (np.abs(b_[fin]) + 1e-300))):.3g} relative')
        except Exception:  # noqa: BLE001   (doubles refused where integers are accepted: nothing to compare)
            pass
    # id dictionaries
    npix = int(np.prod(info['pshape'])) if info['pshape'] else 1
    lookup = {}
    for name, (arr, unit, dtype) in tab.items():
        a = arr.reshape(npix, N, *arr.shape[len(info['pshape']) + 1:])
        d = {}
        for p in range(npix):
            for i in range(N):
                d.setdefault(_canon(a[p, i]), []).append([p + 1, i + 1])
        lookup[name] = (d, unit, dtype)
    wmap = {float(w): i + 1 for i, w in enumerate(info['weights'].tolist())}
    vmap = {float(v): i + 1 for i, v in enumerate(info['variances'].tolist())}
    if len(ob) != B:
        ev['bins'] = []
        return ev, meta
    # the property does not promise that the origin event coordinate is kept; if it is, it is unchanged
    keeps_origin = o in ocols
    evcoord_ok = (not keeps_origin) or (ocols[o][1] == str(ibuf.coords[o].unit)
                                        and ocols[o][2] == str(ibuf.coords[o].dtype))
    evmask_ok = set(omasks) == {str(n) for n in ibuf.masks.keys()}
    same_wdtype = str(obuf.dtype) == str(ibuf.dtype) and str(obuf.unit) == str(ibuf.unit)
    for b in range(B):
        lo_, hi_ = int(ob[b]), int(oe[b])
        rec = {'r': [], 'w': [], 'v': [], 'x': []}
        for k in range(lo_, hi_):
            rec['w'].append(wmap.get(float(wv[k]), 0) if same_wdtype else 0)
            rec['v'].append(vmap.get(float(vv[k]), 0) if has_var else 0)
            rec['x'].append(int(xv[k]) if xv is not None else 0)
            # the event is accepted for id <<p, i>> iff *every* new event coordinate has the dense value
            cands = None
            for name in names:
                if name not in ocols or name not in lookup:
                    cands = set()
                    break
                d, unit, dtype = lookup[name]
                col, cunit, cdtype = ocols[name]
                if cunit != unit or cdtype != dtype:
                    cands = set()
                    break
                got = {tuple(x) for x in d.get(_canon(col[k]), [])}
                cands = got if cands is None else (cands & got)
            rec['r'].append(sorted(map(list, cands or ())))
        ev['bins'].append(rec)
        if evcoord_ok and keeps_origin:
            n_in = int(ie[b]) - int(ib[b])
            a = ocols[o][0][lo_:hi_]
            bb = np.asarray(ibuf.coords[o].values)[int(ib[b]):int(ie[b])]
            if hi_ - lo_ != n_in or not np.array_equal(a, bb):
                evcoord_ok = False
        if evmask_ok:
            for mname in ibuf.masks.keys():
                a = omasks[str(mname)][lo_:hi_]
                bb = np.asarray(ibuf.masks[mname].values)[int(ib[b]):int(ie[b])]
                if not np.array_equal(a, bb):
                    evmask_ok = False
    ev['same']['evcoord'] = bool(evcoord_ok)
    # event coordinates of the input that this conversion has no business with (see build_binned: 'energy' / 'dspacing'
    # left by an earlier conversion) are still there, bin by bin, with the same values
    for lname in ('energy', 'dspacing'):
        if lname in (o, t) or lname not in ibuf.coords:
            continue
        if lname not in ocols:
            ev['same']['evother'] = False
            meta['note'] = f'event coordinate {lname!r} of the input is missing from the result'
            continue
        lin = np.asarray(ibuf.coords[lname].values)
        for b in range(B):
            if not np.array_equal(ocols[lname][0][int(ob[b]):int(oe[b])], lin[int(ib[b]):int(ie[b])]):
                ev['same']['evother'] = False
                meta['note'] = f'event coordinate {lname!r} of the input changed'
                break
    ev['same']['evmasks'] = bool(evmask_ok)
    # --- bin-edge coordinate: same function
    if kind == 'pt':
        try:
            et = dense_table(info, var, o, edge_slots, 'edge', [t], info['uedge'])
            if t in out.coords and t in et:
                arr, unit, dtype = et[t]
                c = out.coords[t]
                nslot = len(edge_slots)
                a = arr.reshape(R, nslot, *arr.shape[2:])
                d = {}
                for p in range(R):
                    for q in range(nslot):
                        if info['edges2d']:
                            if q // (C + 1) != p:     # the slots of another pixel's edges are not ids of this table
                                continue
                            ident = [p + 1, q % (C + 1) + 1]
                        else:
                            ident = [p + 1, q + 1]
                        d.setdefault(_canon(a[p, q]), []).append(ident)
                other = [x for x in c.dims if x != 'spectrum']
                g = _np_in_order(c, ['spectrum', other[0]] if other else ['spectrum', '_'])
                g = np.broadcast_to(g, (R, C + 1, *g.shape[2:]))
                good = str(c.unit) == unit and str(c.dtype) == dtype
                ev['edges'] = [[sorted(d.get(_canon(g[p, j]), [])) if good else [] for j in range(C + 1)]
                               for p in range(R)]
        except Exception as e:  # noqa: BLE001
            meta['edge_note'] = repr(e)[:200]
            ev['edges'] = []
    # --- UNCHANGED clauses from snapshots
    def vals_equal(a, b):
        return str(a.unit) == str(b.unit) and a.dtype == b.dtype and a.shape == b.shape and \
            np.array_equal(np.asarray(a.values), np.asarray(b.values))

    try:
        ev['same']['masks'] = set(out.masks.keys()) == set(snap_da.masks.keys()) and all(
            vals_equal(out.masks[m], snap_da.masks[m]) for m in snap_da.masks.keys())
        ev['same']['coords'] = all(n in out.coords and vals_equal(out.coords[n], snap_da.coords[n])
                                   for n in ('aux', 'run'))
    except Exception:  # noqa: BLE001
        ev['same']['masks'] = False
    ev['same']['input'] = bool(sc.identical(obj, snap)) and bool(
        sc.identical(da.bins.constituents['data'], snap_buf))
    return ev, meta


def run_event_cases(args):
    cases, seed = args
    import warnings

    warnings.simplefilter('ignore')
    out = []
    for c in cases:
        try:
            out.append(run_event_case(c, seed))
        except Exception as e:  # noqa: BLE001  (harness problem, not a verdict)
            import traceback

            out.append(({'tid': c['tid'], 'harness_error': repr(e)[:300] + traceback.format_exc()[-600:]}, {}))
    return out
