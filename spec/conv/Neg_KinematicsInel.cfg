SPECIFICATION Spec
CONSTANTS
  Speeds <- MC_SpeedsQuick
  Lengths = {1, 2, 3}
  Deltas <- MC_Deltas
  Bug = "lt"
  Emit = FALSE
INVARIANT TypeOK
INVARIANT ArrivalAfterT0
INVARIANT EnergyConservation
INVARIANT Boundary
INVARIANT NoInf
INVARIANT ClassAbstraction
CHECK_DEADLOCK FALSE
