#!/bin/sh
# tools/mutant_run.sh <patch.diff> <ID> [tier]  — run a check against a patched scratch copy of /repo/src
# (selected through PYTHONPATH; /repo itself is not touched). Evidence/replays of the run are discarded.
set -e
patch=$(realpath "$1"); id=$2; tier=${3:-quick}
scratch=$(mktemp -d /tmp/mut-XXXXXX)
trap 'rm -rf "$scratch"' EXIT
mkdir -p "$scratch/src"
cp -r /repo/src/scippneutron "$scratch/src/"
(cd "$scratch" && patch -s -p1 < "$patch")
cd "$(dirname "$0")/.."
cp evidence/$id.json "$scratch/ev.bak" 2>/dev/null || true
set +e
VERIF_SRC="$scratch/src" ./check "$id" --tier "$tier" > "$scratch/out.txt" 2>&1
rc=$?
set -e
cp "$scratch/ev.bak" evidence/$id.json 2>/dev/null || true
grep -E "VIOLATION|KNOWN-FINDING|MACHINERY|key=" "$scratch/out.txt" | head -20
tail -1 "$scratch/out.txt"
echo "exit=$rc"
