------------------------ MODULE Growth_Gen_Metadata ------------------------
(* spec -> code: constant-level enumeration of the calls the harness replays into the real  *)
(* classes, each with the outcome the specification demands: every call that deviates from *)
(* the baseline call of its class in at most two fields (all pairs of fields x all pairs of *)
(* tokens), the equivalent respelling of its arguments (alt), the expected dumps; and the    *)
(* decision table of Software.from_package_metadata.                                        *)
EXTENDS Growth_MetadataDefs, TLC, Json, IOUtils, SequencesExt

CaseOf(c, g) ==
    LET r == Construct(c, g) IN
    [cls |-> c, given |-> g, verdict |-> r.verdict, bad |-> SetToSeq(r.bad), obj |-> r.obj,
     derived |-> r.derived,
     alt |-> [f \in FieldsOf(c) |-> AltTok(Kind(c, f), g[f])],
     dump_python |-> IF r.verdict = "built" THEN DumpObj(c, "python", r.obj) ELSE NoObj,
     dump_json |-> IF r.verdict = "built" THEN DumpObj(c, "json", r.obj) ELSE NoObj]

Cases == UNION {{CaseOf(c, g) : g \in PairGivens(c)} : c \in Classes}
ASSUME ndJsonSerialize(IOEnv.CASE_FILE, SetToSeq(Cases))

PkgRecords == {[meta |-> c.meta, module |-> c.module, labels |-> c.labels,
                out |-> PkgOutcome(c.meta, c.module, c.labels).out,
                version |-> PkgOutcome(c.meta, c.module, c.labels).version,
                url |-> SetToSeq(PkgOutcome(c.meta, c.module, c.labels).url)] : c \in PkgCases}
ASSUME ndJsonSerialize(IOEnv.PKG_FILE, SetToSeq(PkgRecords))

(* the token table itself, for the harness to draw random calls from (code -> spec) *)
TokRecords == {[kind |-> k, tokens |-> SetToSeq(Tok(k)), alt |-> [t \in Tok(k) |-> AltTok(k, t)]] : k \in Kinds}
SchemaRecords == {[cls |-> c, fields |-> [f \in FieldsOf(c) |-> Kind(c, f)]] : c \in Classes}
ASSUME ndJsonSerialize(IOEnv.TOK_FILE, SetToSeq(TokRecords))
ASSUME ndJsonSerialize(IOEnv.SCHEMA_FILE, SetToSeq(SchemaRecords))

ASSUME PrintT(<<"GEN", Cardinality(Cases), Cardinality(PkgRecords)>>)

VARIABLE x
Init == x = 0
Next == x' = x
=============================================================================
