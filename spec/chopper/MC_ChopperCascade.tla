------------------------- MODULE MC_ChopperCascade -------------------------
EXTENDS ChopperCascade

MC_Pulses == { [t0 |-> 0, t1 |-> 4, w0 |-> 0, w1 |-> 4],
               [t0 |-> 1, t1 |-> 3, w0 |-> 1, w1 |-> 4] }
MC_PulsesT == MC_Pulses \cup { [t0 |-> 2, t1 |-> 7, w0 |-> 2, w1 |-> 4] }

Single(E) == { <<w>> : w \in { x \in E \X E : x[1] < x[2] } }
Double(E) == { <<a, b>> : a \in { x \in E \X E : x[1] < x[2] }, b \in { x \in E \X E : x[1] < x[2] } }
Disjoint2(E) == { s \in Double(E) : s[1][2] < s[2][1] }

(* window edges: multiples of 4 touch the vertices of the first pulse exactly; the odd ones cut *)
EdgesA == {0, 4, 8, 12, 16, 20, 24, 28}
EdgesB == {3, 7, 10, 13, 17, 22}

(* two windows listed in DECREASING time order (the first pulse at d = 2 ends at t = 12)       *)
Reversed2(E) == { <<s[2], s[1]>> : s \in Disjoint2(E) }
WinSets == Reversed2({0, 4, 13, 20}) \cup Single(EdgesA) \cup Single(EdgesB) \cup Disjoint2({0, 4, 8, 13, 17, 24})
WinSetsQ == Reversed2({0, 4, 13, 20}) \cup Single({0, 4, 8, 12, 16, 24}) \cup Single({3, 10, 17}) \cup Disjoint2({0, 4, 10, 13, 20})

MC_Choppers  == { [d |-> d, win |-> w] : d \in {2, 4, 6}, w \in WinSets }
MC_ChoppersQ == { [d |-> d, win |-> w] : d \in {2, 4, 6}, w \in WinSetsQ }

=============================================================================
