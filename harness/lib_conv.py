"""Shared helpers of the conversion-kernel drivers (C01, C05, C07): canonical unit names and exact
SI factors, construction of scipp operands, classification of results, running a trace spec.

Nothing in here calls scippneutron; scipp is used only to build operands and to read the unit /
dtype / values of results.
"""

from __future__ import annotations

import math
from fractions import Fraction

import mpmath
import numpy as np
import scipp as sc

from .core import MachineryError
from .refmap import E_CHARGE, mpf
from .tlc import require_ok, write_ndjson

mpmath.mp.dps = 60

# canonical name -> (scipp unit string, exact SI factor).  deg carries pi and is handled apart.
_LEN = {'angstrom': Fraction(1, 10**10), 'nm': Fraction(1, 10**9), 'um': Fraction(1, 10**6),
        'mm': Fraction(1, 10**3), 'cm': Fraction(1, 100), 'm': Fraction(1), 'km': Fraction(1000)}
_TIME = {'ns': Fraction(1, 10**9), 'us': Fraction(1, 10**6), 'ms': Fraction(1, 10**3), 's': Fraction(1)}
_ENERGY = {'ueV': E_CHARGE / 10**6, 'meV': E_CHARGE / 1000, 'eV': E_CHARGE, 'keV': E_CHARGE * 1000,
           'J': Fraction(1)}
UNITS: dict[str, tuple[str, Fraction]] = {}
for _n, _f in _LEN.items():
    UNITS[_n] = (_n, _f)
    UNITS['1/' + _n] = ('1/' + _n, 1 / _f)
for _n, _f in _TIME.items():
    UNITS[_n] = (_n, _f)
for _n, _f in _ENERGY.items():
    UNITS[_n] = (_n, _f)
UNITS['rad'] = ('rad', Fraction(1))
UNITS['one'] = ('dimensionless', Fraction(1))
UNITS['s/m'] = ('s/m', Fraction(1))
UNITS['m/s^2'] = ('m/s^2', Fraction(1))
UNITS['mm/s^2'] = ('mm/s^2', Fraction(1, 1000))
UNITS['cm/s^2'] = ('cm/s^2', Fraction(1, 100))
UNITS['km/s^2'] = ('km/s^2', Fraction(1000))
UNITS['m/ms^2'] = ('m/ms^2', Fraction(10**6))

LENGTH_UNITS = tuple(_LEN)
TIME_UNITS = tuple(_TIME)
ENERGY_UNITS = tuple(_ENERGY)
ANGLE_UNITS = ('rad', 'deg')

_SC_UNITS = [(n, sc.Unit(s)) for n, (s, _) in UNITS.items()] + [('deg', sc.Unit('deg'))]
_name_cache: dict[str, str] = {}


def scu(name: str) -> sc.Unit:
    if name == 'deg':
        return sc.Unit('deg')
    return sc.Unit(UNITS[name][0])


def si(name: str) -> Fraction:
    """Exact SI factor of a canonical unit (not for 'deg')."""
    return UNITS[name][1]


def unit_name(u) -> str:
    """Canonical name of a scipp unit, or 'other:<repr>' if it is none of the known ones.
    Equality is scipp's own unit equality (same dimension and same multiplier)."""
    key = repr(u)
    got = _name_cache.get(key)
    if got is None:
        got = 'other:' + str(u)
        if u is not None:
            for n, su in _SC_UNITS:
                if su == u:
                    got = n
                    break
        _name_cache[key] = got
    return got


def dtype_name(dt) -> str:
    return str(dt)


def angle_rad(value: float, unit: str):
    """mpf radians of the float handed to the code (exact function of the float)."""
    v = mpf(Fraction(float(value)))
    return v if unit == 'rad' else v * mpmath.pi / 180


def cast_values(values, dtype: str) -> np.ndarray:
    """The array the code will see: values rounded once to the operand dtype (integers: to nearest)."""
    a = np.asarray(values, dtype='float64')
    if dtype.startswith('int'):
        a = np.rint(a)
    return a.astype(dtype)


INT_LIMIT = {'int64': 2 * 10 ** 9, 'int32': 30000}     # integer operands whose squares are representable


def is_int(dtype: str) -> bool:
    return dtype.startswith('int')


def var(values, dims, unit: str, dtype: str) -> sc.Variable:
    a = np.asarray(values)
    if a.ndim == 0:
        return sc.scalar(a.astype(dtype).item() if dtype.startswith('float') else int(a),
                         unit=scu(unit), dtype=dtype)
    return sc.array(dims=list(dims), values=a.astype(dtype), unit=scu(unit), dtype=dtype)


# ---------------------------------------------------------------- layouts of one and the same table
def binned_var(vals2d: np.ndarray, unit: str, dtype: str, gaps=None, dim: str = 'spectrum') -> sc.Variable:
    """Event layout: a binned variable over `dim`; row p of `vals2d` are the events of pixel p.
    gaps[0] events lie in the buffer before the first bin and gaps[p + 1] after bin p (events that belong
    to no bin, as left behind by slicing / filtering event data); they repeat values of the table."""
    P, X = vals2d.shape
    g = [0] * (P + 1) if gaps is None else [int(x) for x in gaps]
    rows = np.ascontiguousarray(vals2d).astype(dtype)
    parts, begin, pos = [np.repeat(rows[0, :1], g[0])], [], g[0]
    for p in range(P):
        begin.append(pos)
        parts += [rows[p], np.repeat(rows[p, :1], g[p + 1])]
        pos += X + g[p + 1]
    buf = sc.array(dims=['event'], values=np.concatenate(parts), unit=scu(unit), dtype=dtype)
    b = sc.array(dims=[dim], values=np.asarray(begin, dtype='int64'), unit=None, dtype='int64')
    e = b + sc.scalar(X, unit=None, dtype='int64')
    return sc.bins(begin=b, end=e, dim='event', data=buf)


def is_binned(v) -> bool:
    try:
        return v.bins is not None
    except Exception:  # noqa: BLE001
        return False


def elem_unit_name(v) -> str:
    return unit_name(v.bins.unit if is_binned(v) else v.unit)


def elem_dtype_name(v) -> str:
    return dtype_name(v.bins.constituents['data'].dtype if is_binned(v) else v.dtype)


def flat_values(v) -> np.ndarray:
    """All element values of a dense or binned variable (only the events inside the bins)."""
    if not is_binned(v):
        return np.asarray(v.values).reshape(-1)
    rows = bin_rows(v)
    return np.concatenate(rows) if rows else np.zeros(0)


def bin_rows(v) -> list:
    """Per-bin arrays of a 1-d binned variable."""
    c = v.bins.constituents
    data = np.asarray(c['data'].values)
    b, e = np.asarray(c['begin'].values).reshape(-1), np.asarray(c['end'].values).reshape(-1)
    return [data[int(i):int(j)] for i, j in zip(b, e)]


def strided_view(vals2d: np.ndarray, dims, unit: str, dtype: str, how: str) -> sc.Variable:
    """The same 2-d table as lc.var(vals2d, dims, ...) but laid out differently in memory:
    'T'     dims listed in the other order (the transposed table, contiguous),
    'view'  dims in the given order, memory in the other order (transposed view, strided),
    'slice' a window cut out of a larger table (strided in both dims)."""
    d0, d1 = dims
    if how == 'T':
        return var(np.ascontiguousarray(vals2d.T), [d1, d0], unit, dtype)
    if how == 'view':
        return var(np.ascontiguousarray(vals2d.T), [d1, d0], unit, dtype).transpose([d0, d1])
    if how == 'slice':
        n0, n1 = vals2d.shape
        big = np.full((n0 + 2, n1 + 3), 7, dtype=vals2d.dtype)
        big[1:n0 + 1, 2:n1 + 2] = vals2d
        return var(big, [d0, d1], unit, dtype)[d0, 1:n0 + 1][d1, 2:n1 + 2]
    raise ValueError(how)


class OperandPool:
    """Parameter objects that live across calls (item "second use"): the *same* scipp variable is handed
    to successive calls, its numbers overwritten in place in between - as a script does that loops over
    runs with one `Ltotal` / `two_theta` / `incident_energy` object.  A correct kernel sees only the
    current numbers."""

    def __init__(self):
        self._pool: dict = {}
        self.reused = 0

    def get(self, key, values, dims, unit: str, dtype: str) -> sc.Variable:
        a = np.asarray(values)
        k = (key, tuple(dims), a.shape, unit, dtype)
        v = self._pool.get(k)
        if v is None:
            v = self._pool[k] = var(values, dims, unit, dtype)
            return v
        if a.ndim == 0:
            v.value = a.astype(dtype).item()
        else:
            v.values = a.astype(dtype)
        self.reused += 1
        return v


def exact(x) -> Fraction:
    """Exact rational of a numpy / python float or int."""
    return Fraction(float(x)) if not isinstance(x, (int, np.integer)) else Fraction(int(x))


def classify(x: float) -> str:
    if math.isnan(x):
        return 'nan'
    if math.isinf(x):
        return 'inf'
    return 'num'


def short(x: float, bits: int) -> float:
    """x rounded to `bits` mantissa bits (exactly representable in float32 for bits <= 24)."""
    m, e = math.frexp(x)
    return math.ldexp(round(m * 2 ** bits), e - bits)


F32_MIN_NORMAL, F32_MAX = 2.0 ** -126, 3.4e38


def const_class(dt_E: str, eunit: str, tunit: str, length_units) -> str:
    """Input class used only to make violation signatures specific (inelastic kernels): is m_n/2,
    expressed in the unit [energy] ([time]/[length])^2 built from the operand units, a normal float32
    number?  (Relevant for float32 energies: an implementation that folds the unit factors into one
    single-precision constant needs it to be.)  Computed from exact SI factors, not from the code."""
    from .refmap import MN

    if dt_E != 'float32':
        return 'normal'
    for lu in length_units:
        c = float(MN / 2 / (si(eunit) * (si(tunit) / si(lu)) ** 2))
        if not F32_MIN_NORMAL <= c <= F32_MAX:
            return 'm_n/2 outside the normal float32 range in the operand-derived unit'
    return 'normal'


def run_trace(ctx, module: str, events: list, what: str, timeout: int = 1500):
    """Write events as NDJSON, let TLC (workers=1) judge every one, return [(line, tid, clause)]."""
    if not events:
        raise MachineryError(f'{what}: no events recorded')
    tf = ctx.tmp / (module.replace('/', '_') + f'-{len(ctx.tlc_runs)}.ndjson')
    write_ndjson(tf, events)
    tr = ctx.tlc(module, workers=1, env={'TRACE_FILE': str(tf)}, timeout=timeout)
    require_ok(ctx, tr, what)
    done = tr.tagged('DONE')
    if not done or done[0][1] != len(events):
        raise MachineryError(f'{what}: trace validation incomplete: {done} vs {len(events)} events')
    rej = [(r[1], r[2], r[3]) for r in tr.tagged('REJECT')]
    if done[0][2] != len(rej):
        raise MachineryError(f'{what}: {done[0][2]} rejected events but {len(rej)} REJECT lines parsed')
    ctx.traces(len(events))
    return rej
