---------------------- MODULE Growth_Trace_CifBeamline ----------------------
(* code -> spec: judges recorded programs over the real cif.CIF builder.  One NDJSON line   *)
(* per program:                                                                              *)
(*   calls  sequence of [parent, fc, given, type, probe, refused]: with_beamline on builder  *)
(*          number `parent` (1 = the empty root; every call that is not refused creates the  *)
(*          next builder number); refused = the call raised ValueError                       *)
(*   saves  sequence of [id, chunks]: builder `id` was saved and the text parsed (by the      *)
(*          harness' CIF reader); chunks = one record per beamline chunk found, in file      *)
(*          order: probe / device (the written word, "-" if the item is absent),              *)
(*          name_ok (diffrn_source.beamline is the supplied name), facility ("ok": the       *)
(*          supplied text, "absent", "wrong")                                                *)
(* Verdicts are total; a rejected line prints <<"REJECT", line, tid, clause, call, save>>.    *)
EXTENDS Growth_CifBeamlineDefs, TLC, Json, IOUtils

Tr == ndJsonDeserialize(IOEnv.TRACE_FILE)

VARIABLES l, nbad
tvars == <<l, nbad>>

SrcOf(c) == IF c.given THEN Src(c.type, c.probe) ELSE NoSource

(* builders as sequences of call indices, rebuilt from the calls *)
RECURSIVE Build(_, _, _)
Build(calls, k, bs) ==
    IF k > Len(calls) THEN bs
    ELSE IF calls[k].refused THEN Build(calls, k + 1, bs)
    ELSE Build(calls, k + 1, Append(bs, Append(bs[calls[k].parent], k)))

(* first call that is malformed or wrongly refused, 0 if none *)
BadCall(calls) ==
    LET bad == {k \in 1..Len(calls) :
                  \/ calls[k].refused /\ Refuse \notin Allowed(calls[k].fc, SrcOf(calls[k]))
                  \/ calls[k].parent < 1}
    IN IF bad = {} THEN 0 ELSE CHOOSE k \in bad : \A j \in bad : k <= j

ChunkVerdict(call, ch) ==
    IF Out(ch.probe, ch.device) \notin Allowed(call.fc, SrcOf(call)) \ {Refuse}
    THEN (IF ~SrcOf(call).given /\ Out(ch.probe, ch.device) = Omit THEN "known_facility_not_recognised"
          ELSE IF ~SrcOf(call).given THEN "probe_or_device_invented"
          ELSE "source_not_followed")
    ELSE IF ~ch.name_ok THEN "beamline_name"
    ELSE IF (ch.facility = "ok") # (call.fc # "absent") THEN "facility_field"
    ELSE "ok"

Judge(e) ==
    LET bc == BadCall(e.calls) IN
    IF bc # 0 THEN <<"refused_without_reason", bc, 0>>
    ELSE
    LET bs == Build(e.calls, 1, << <<>> >>)
        verdict(s) ==
            IF e.saves[s].id \notin 1..Len(bs) THEN <<"malformed_event", 0, s>>
            ELSE LET want == bs[e.saves[s].id]
                     got == e.saves[s].chunks
                 IN IF Len(got) # Len(want) THEN <<"number_of_beamline_chunks", 0, s>>
                    ELSE LET badj == {j \in 1..Len(want) : ChunkVerdict(e.calls[want[j]], got[j]) # "ok"}
                         IN IF badj = {} THEN <<"ok", 0, 0>>
                            ELSE LET j == CHOOSE j \in badj : \A i \in badj : j <= i
                                 IN <<ChunkVerdict(e.calls[want[j]], got[j]), want[j], s>>
        bads == {s \in 1..Len(e.saves) : verdict(s)[1] # "ok"}
    IN IF bads = {} THEN <<"ok", 0, 0>>
       ELSE verdict(CHOOSE s \in bads : \A r \in bads : s <= r)

TInit == l = 1 /\ nbad = 0
TNext == /\ l <= Len(Tr)
         /\ l' = l + 1
         /\ LET v == Judge(Tr[l]) IN
            /\ nbad' = IF v[1] = "ok" THEN nbad ELSE nbad + 1
            /\ (v[1] = "ok" \/ PrintT(<<"REJECT", l, Tr[l].tid, v[1], v[2], v[3]>>))
TSpec == TInit /\ [][TNext]_tvars
Done == (l = Len(Tr) + 1) => PrintT(<<"DONE", l - 1, nbad>>)
=============================================================================
