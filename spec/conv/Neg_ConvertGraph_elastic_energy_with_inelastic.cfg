SPECIFICATION Spec
CONSTANTS
  Heads <- AllHeads
  Masks <- MC_NegMasks
  Bug = "elastic_energy_with_inelastic"
INVARIANT NoWrongMode
