SPECIFICATION Spec
CONSTANTS
  TGrid = {1, 2, 3, 5}
  LGrid = {1, 2, 4}
  SinGrid <- MC_SinQuick
  MaxDepth = 4
  Bug = "efactor"
  MaxRetarget = 1
  Emit = FALSE
INVARIANT TypeOK
INVARIANT RouteAgreement
INVARIANT RoundTrip
INVARIANT QdTwoPi
INVARIANT EnergyDefinitions
CHECK_DEADLOCK FALSE
