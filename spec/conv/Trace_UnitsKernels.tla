------------------------- MODULE Trace_UnitsKernels -------------------------
(* Judge of recorded executions of the real kernels on the unit x dtype grid (C07).          *)
(* One event per returned quantity of one call:                                               *)
(*   k, part      kernel (name of the specification's table) and returned component            *)
(*   U, D         unit name and dtype name chosen for every operand                            *)
(*   status       "ok" | "unsupported" (scipp raised DTypeError) | "raised" (anything else)     *)
(*   out, dt      canonical name of the unit and dtype of the result                           *)
(*   close        harness flag: physical result equals that of the canonical-unit, all-double   *)
(*                run of the same physical scenario to rounding                                 *)
(*   shape        how the operands were handed over (hardening round): "1d" all operands 1-d,      *)
(*                "aux0d" only the data operands 1-d, "first1d" only the first operand 1-d (the       *)
(*                supplied energy of the inelastic kernels is then a 0-d parameter), "all0d",         *)
(*                "events" the first operand as event data binned over the 1-d dim                     *)
(*   layout_ok    the result is event data iff the first operand is                                    *)
(*   again        the row is replayed a second time at the end of the run                              *)
(* The unit string, dtype class and refusal class are judged here with the specification's      *)
(* OutName / ResultDType tables.                                                                *)
EXTENDS UnitsKernelsDefs, TLC, Json, IOUtils

Tr == ndJsonDeserialize(IOEnv.TRACE_FILE)
VARIABLES l, nbad
tvars == <<l, nbad>>

DTypeUndocumented == {"propagate_times", "wavelength_to_inverse_velocity", "Q_elements_from_wavelength"}
Shapes == {"1d", "aux0d", "first1d", "all0d", "events"}

JudgeCall(e) ==
    IF e.k \notin KernelNames THEN "unknown_kernel"
    ELSE IF DOMAIN e.U # ArgSet(e.k) \/ DOMAIN e.D # ArgSet(e.k) THEN "operands_differ_from_signature"
    ELSE IF \E a \in ArgSet(e.k) : UnitFam(e.U[a]) # ArgFam[a] THEN "unit_of_wrong_family"
    ELSE IF \E a \in ArgSet(e.k) : e.D[a] \notin AllDTypes THEN "unknown_dtype"
    ELSE IF e.shape \notin Shapes THEN "unknown_shape"
    ELSE IF e.status = "raised" THEN "kernel_raised"
    ELSE IF e.status = "malformed" THEN "malformed_result"
    ELSE IF e.status = "unsupported" THEN
         (IF \E a \in ArgSet(e.k) : IsInt(e.D[a]) THEN "ok" ELSE "float_operands_refused")
    ELSE IF e.status # "ok" THEN "unknown_status"
    ELSE IF ~e.layout_ok THEN "result_layout"
    ELSE IF e.out # OutName(e.k, e.U, "none") THEN "output_unit"
    ELSE IF /\ e.dt # ResultDType(Kernel[e.k].data, e.D, "none")
            \* the chopper-cascade helpers and the Q components document no dtype contract: with a single-precision
            \* operand both readings of the property (float32 result / "computed in double") are
            \* accepted; with double / integer operands the result must be double.
            /\ ~(e.k \in DTypeUndocumented /\ e.dt = "float32"
                 /\ \E a \in ArgSet(e.k) : e.D[a] = "float32")
         THEN "output_dtype"
    ELSE IF ~e.close THEN "value_changed_by_reexpression"
    ELSE "ok"

Judge(e) == IF e.ev = "call" THEN JudgeCall(e) ELSE "unknown_event"

TInit == l = 1 /\ nbad = 0
TNext == /\ l <= Len(Tr)
         /\ l' = l + 1
         /\ LET v == Judge(Tr[l]) IN
            /\ nbad' = IF v = "ok" THEN nbad ELSE nbad + 1
            /\ (v = "ok" \/ PrintT(<<"REJECT", l, Tr[l].tid, v>>))
TSpec == TInit /\ [][TNext]_tvars
Done == (l = Len(Tr) + 1) => PrintT(<<"DONE", l - 1, nbad>>)
=============================================================================
