SPECIFICATION SimSpec
CONSTANTS
  F = 20
  TMaxs = {0, 1, 19, 20, 21, 47, 60, 73}
  Pulses = {1, 3, 25}
  Offsets = {0, 2, 5, 31}
  Lambdas = {1, 2, 4, 7}
  Dists = {1, 3, 10, 12}
  LamMins = {1, 2, 3}
  LamMaxs = {0, 2, 3, 4, 9}
  Lmins = {0, 2, 5}
  Lmaxs = {6, 10}
  Strides = {1, 2, 3}
  FrameCounts = {1, 2, 3, 4}
  MaxOps = 6
  Bug = "none"
INVARIANT Aligned
INVARIANT PulseRectCount
INVARIANT PulseRectsAtFrameStarts
INVARIANT WorldlineSlope
INVARIANT FasterArrivesEarlier
INVARIANT SameEmissionNeverCross
INVARIANT LabelAtWorldlineEnd
INVARIANT BandShape
INVARIANT BandsShiftedByStride
INVARIANT BandIsWavelengthRange
INVARIANT BandFastEdge
INVARIANT NoOverlapWhenAuto
INVARIANT OverlapIffTooWide
INVARIANT LimitIsNextFastEdge
INVARIANT WorldlineInsideBand
INVARIANT ComponentSpansDiagram
INVARIANT OwnKindsOnly
INVARIANT OrderIndependent
PROPERTY EarlierObjectsKept
CHECK_DEADLOCK FALSE
INVARIANT Emit
