---------------------- MODULE Growth_NexusMetadataDefs ----------------------
(* GROWTH G07 (beyond the 20 listed properties): the NeXus metadata readers                   *)
(*   scippneutron.metadata.Beamline.from_nexus_entry(entry, *, instrument_name=None)          *)
(*   scippneutron.metadata.Measurement.from_nexus_entry(entry)                                *)
(* State-free definitions shared by the step machine Growth_NexusMetadata, the generator      *)
(* Growth_Gen_NexusMetadata and the judge Growth_Trace_NexusMetadata.  Written from the       *)
(* docstrings of the two readers and of the fields of the two models, and from the NeXus      *)
(* definition of NXentry / NXinstrument - not from the code.                                  *)
(*                                                                                            *)
(* What the documentation says                                                                *)
(*   Beamline.from_nexus_entry: "The entry needs to contain an NXinstrument with a 'name'     *)
(*   field to identify the instrument."  "instrument_name: If the entry contains more than    *)
(*   one NXinstrument group, this parameter must be the name of one of these groups."         *)
(*   "NeXus does not have a standard method for specifying the facility, site, or revision.   *)
(*   This function only sets those fields for known instruments."   Beamline: "If there is    *)
(*   no separate facility and site, either omit site or use the same value for both."         *)
(*   Measurement: title / run_number / experiment_id / experiment_doi are `str | None`,        *)
(*   start_time / end_time `datetime | None`; run_number "Run number of the measurement",     *)
(*   experiment_id "An ID for the experiment that this measurement is part of, e.g., proposal *)
(*   ID".  NXentry: title, entry_identifier ("unique identifier for the measurement, defined  *)
(*   by the facility" = the run number), experiment_identifier ("unique identifier for the    *)
(*   experiment, defined by the facility, possibly linked to the proposals"), start_time,     *)
(*   end_time (NX_DATE_TIME = ISO 8601).  A NeXus string (NX_CHAR) may be stored as a         *)
(*   variable-length or fixed-length HDF5 string, UTF-8 or ASCII, scalar or array of one.     *)
(*                                                                                            *)
(* An ENTRY is described by what decides the outcome:                                          *)
(*   groups   set of [gname, cls, nested, name]: the groups below the entry; `nested` = not a *)
(*            direct child; name = the `name` field of the group (a NAME FIELD)                *)
(*   strs     title / entry_identifier / experiment_identifier : STRING FIELD                  *)
(*   times    start_time / end_time : TIME FIELD                                               *)
(* NAME FIELD  [present, sp, inst, var, short_present, short_inst]: sp = HDF5 spelling,       *)
(*   inst = which instrument the text names (lower-case key; "" = empty text), var = case /   *)
(*   padding variant of the text, short_* = the `short_name` attribute of the field.           *)
(* STRING FIELD [present, sp, cls]   cls = plain | digits | unicode | long | empty | padded    *)
(* TIME FIELD  [present, sp, kind, day, sec, ns, zone, off]: kind = iso | garbage | empty;     *)
(*   day = days since 1970-01-01, sec = second of the day, ns = fraction in nanoseconds (as    *)
(*   written: wall clock), zone = naive | Z | offset, off = offset from UTC in minutes.        *)
(*                                                                                            *)
(* Verdicts are three-valued: what the documentation demands ("accept" with constraints,      *)
(* "refuse"), or "unspecified" where it is silent (instrument_name that names no NXinstrument *)
(* child, a field that is no single string, ...): then nothing is judged.                      *)
EXTENDS Integers, Sequences, FiniteSets

None == "none"

-----------------------------------------------------------------------------
(* Where the instruments stand (public knowledge, not the library's table).  A library may   *)
(* know any subset; an instrument it does not know gets no facility.                           *)
ESSInstruments  == {"beer", "bifrost", "cspec", "dream", "estia", "freia", "heimdal", "loki", "magic",
                    "miracles", "nmx", "odin", "skadi", "tbl", "trex", "vespa"}
SINQInstruments == {"amor", "boa", "camea", "dmc", "eiger", "focus", "hrpt", "icon", "neutra", "poldi",
                    "tasp", "zebra"}
(* real instruments at facilities this specification has no opinion about                      *)
Elsewhere       == {"powgen", "nomad", "wish", "polaris", "d20", "in5"}
(* texts that name no instrument at all, among them near misses of real names                  *)
MadeUp          == {"fakeinst", "dream2", "xloki", "amorph", "my instrument", "ess", "estia b"}

Where(i) == CASE i \in ESSInstruments  -> "ess"
              [] i \in SINQInstruments -> "sinq"
              [] i \in Elsewhere       -> "elsewhere"
              [] i = ""                -> "empty"
              [] OTHER                 -> "madeup"

CaseVars == {"canon", "lower", "upper", "title"}       \* DREAM/LoKI/Amor, dream, DREAM, Dream
Vars     == CaseVars \cup {"padded"}                   \* " DREAM "

AdmissibleSp == {"str", "bytes", "fixed", "fixed_padded", "vlen_ascii", "arr1", "arr1_fixed"}
ForeignSp    == {"arr2", "int", "group"}               \* not a single NeXus string: no verdict
Spellings    == AdmissibleSp \cup ForeignSp

NoName == [present |-> FALSE, sp |-> "str", inst |-> "", var |-> "canon", short_present |-> FALSE, short_inst |-> ""]
NameF(sp, inst, var) == [present |-> TRUE, sp |-> sp, inst |-> inst, var |-> var,
                         short_present |-> FALSE, short_inst |-> ""]
WithShort(nf, s) == [nf EXCEPT !.short_present = TRUE, !.short_inst = s]

NoArg      == [given |-> FALSE, target |-> ""]
ArgOf(t)   == [given |-> TRUE, target |-> t]

-----------------------------------------------------------------------------
(* (a) decision table of Beamline.from_nexus_entry                                            *)
NN == <<None, None>>
PairsOf(i) == CASE Where(i) = "ess"  -> {NN, <<"ESS", "ESS">>, <<"ESS", None>>}
                [] Where(i) = "sinq" -> {NN, <<"SINQ", "PSI">>}
                [] OTHER             -> {NN}

Verdict(kind, mayrefuse, names, pairs, anyfac, revnone, why) ==
    [kind |-> kind, mayrefuse |-> mayrefuse, names |-> names, pairs |-> pairs, anyfac |-> anyfac,
     rev_none |-> revnone, why |-> why]
Unspecified  == Verdict("unspecified", TRUE, {}, {}, TRUE, FALSE, "-")
MustRefuse(why) == Verdict("refuse", TRUE, {}, {}, FALSE, FALSE, why)

(* the instrument group is determined; what does its name field give?                         *)
NameVerdict(nf) ==
    IF ~nf.present THEN MustRefuse("beamline_returned_although_the_NXinstrument_has_no_name_field")
    ELSE IF nf.sp \notin AdmissibleSp THEN Unspecified
    ELSE IF nf.inst = ""        \* an empty or blank name identifies nothing: refusal or an empty name, never a facility
         THEN Verdict("accept", TRUE, {"raw", "stripped"}, {NN}, FALSE, TRUE, "-")
    ELSE LET short == nf.short_present /\ nf.short_inst # ""
             insts == {nf.inst} \cup (IF short THEN {nf.short_inst} ELSE {})
         IN  Verdict("accept", FALSE,
                     IF nf.var = "padded" THEN {"raw", "stripped"} ELSE {"raw"},
                     UNION { PairsOf(i) : i \in insts },
                     \E i \in insts : Where(i) = "elsewhere",
                     \A i \in insts : Where(i) = "madeup",
                     "-")

DirectInstruments(gs) == { g \in gs : g.cls = "NXinstrument" /\ ~g.nested }

BeamlineVerdict(gs, arg) ==
    LET D == DirectInstruments(gs) IN
    IF arg.given
    THEN IF \E g \in D : g.gname = arg.target
         THEN NameVerdict((CHOOSE g \in D : g.gname = arg.target).name)
         ELSE Unspecified        \* "must be the name of one of these groups": an obligation of the caller
    ELSE IF Cardinality(D) = 0 THEN MustRefuse("beamline_returned_although_the_entry_has_no_NXinstrument")
    ELSE IF Cardinality(D) > 1
         THEN MustRefuse("beamline_returned_although_several_NXinstrument_and_no_instrument_name")
    ELSE NameVerdict((CHOOSE g \in D : TRUE).name)

(* an observed result:  [out, name, fac, site, rev]                                           *)
(*   out  "beamline" | "refused";  name "raw" | "stripped" | "short" | "other"                 *)
(*   fac, site  "none" | "ESS" | "SINQ" | "PSI" | "other";  rev "none" | "set"                 *)
Refused   == [out |-> "refused", name |-> "-", fac |-> None, site |-> None, rev |-> None]
BeamlineClause(v, o) ==
    IF v.kind = "unspecified" THEN "ok"
    ELSE IF v.kind = "refuse" THEN (IF o.out = "refused" THEN "ok" ELSE v.why)
    ELSE IF o.out = "refused"
         THEN (IF v.mayrefuse THEN "ok" ELSE "refused_although_one_NXinstrument_with_a_name_is_selected")
    ELSE IF o.name \notin v.names
         THEN (IF o.name = "short" THEN "name_is_the_short_name_attribute_not_the_name_field"
               ELSE "name_is_not_the_text_of_the_name_field")
    ELSE IF ~v.anyfac /\ <<o.fac, o.site>> \notin v.pairs
         THEN (IF v.pairs = {NN} THEN "facility_or_site_set_for_a_text_that_names_no_known_instrument"
               ELSE "wrong_facility_or_site_for_the_instrument")
    ELSE IF v.rev_none /\ o.rev # None THEN "revision_set_for_a_text_that_names_no_known_instrument"
    ELSE "ok"

(* recognition must not depend on the letter case the file writer chose: outs = what was      *)
(* observed for the case variants of ONE instrument ("known" | "unknown" | "refused")          *)
CaseFamilyOK(outs) == \A i, j \in 1..Len(outs) : outs[i] = outs[j]

-----------------------------------------------------------------------------
(* (a) decision table of Measurement.from_nexus_entry                                         *)
StrKeys   == {"title", "entry_identifier", "experiment_identifier"}
TimeKeys  == {"start_time", "end_time"}
(* model field -> NXentry field (NeXus definitions + field documentation)                     *)
SourceOf(f) == CASE f = "title" -> "title" [] f = "run_number" -> "entry_identifier"
                 [] f = "experiment_id" -> "experiment_identifier"
                 [] f = "start_time" -> "start_time" [] f = "end_time" -> "end_time"
StrFields  == {"title", "run_number", "experiment_id"}
TimeFields == {"start_time", "end_time"}
OtherTime(k) == IF k = "start_time" THEN "end_time" ELSE "start_time"

StrClasses == {"plain", "digits", "unicode", "long", "empty", "padded"}
NoStr  == [present |-> FALSE, sp |-> "str", cls |-> "plain"]
StrF(sp, cls) == [present |-> TRUE, sp |-> sp, cls |-> cls]

NoTime == [present |-> FALSE, sp |-> "str", kind |-> "iso", day |-> 0, sec |-> 0, ns |-> 0, zone |-> "naive", off |-> 0]
TimeF(sp, day, sec, ns, zone, off) ==
    [present |-> TRUE, sp |-> sp, kind |-> "iso", day |-> day, sec |-> sec, ns |-> ns, zone |-> zone, off |-> off]
BadTime(kind) == [NoTime EXCEPT !.present = TRUE, !.kind = kind]

(* an observed string value  [src, form]: form "none" | "empty" | "raw" | "stripped" | "other";*)
(* src = the NXentry field whose text it is ("-" unless raw / stripped).  The harness writes   *)
(* pairwise different texts into one entry, hence src is well defined.                         *)
ObsNone == [src |-> "-", form |-> None]
StrOK(k, sv, os) ==
    IF ~sv.present THEN os.form = None
    ELSE IF sv.cls = "empty" THEN os.form \in {"empty", None}
    ELSE IF sv.cls = "padded" THEN os.src = k /\ os.form \in {"raw", "stripped"}
    ELSE os.src = k /\ os.form = "raw"

(* instants without 32-bit overflow: <<minutes since the epoch, second of the minute>>          *)
WallInstant(tv) == << tv.day * 1440 + (tv.sec \div 60), tv.sec % 60 >>
UtcInstant(tv)  == << tv.day * 1440 + (tv.sec \div 60) - tv.off, tv.sec % 60 >>
ObsInstant(o)   == << o.day * 1440 + (o.sec \div 60), o.sec % 60 >>
(* a datetime has microseconds: a longer fraction is cut or rounded (never carried: the        *)
(* inputs stay below 999 999 500 ns)                                                            *)
Micros(ns) == { ns \div 1000 } \cup (IF (ns + 500) \div 1000 < 1000000 THEN { (ns + 500) \div 1000 } ELSE {})

(* an observed time  [kind, day, sec, micro, off]: kind "none" | "naive" | "aware" | "other";  *)
(* naive: wall clock; aware: day / sec / micro of the UTC instant, off = utcoffset in minutes  *)
ObsNoTime == [kind |-> None, day |-> 0, sec |-> 0, micro |-> 0, off |-> 0]
Zoned(tv) == tv.zone # "naive"
TimeMatches(tv, o) ==
    /\ tv.present /\ tv.kind = "iso"
    /\ o.kind = (IF Zoned(tv) THEN "aware" ELSE "naive")
    /\ ObsInstant(o) = (IF Zoned(tv) THEN UtcInstant(tv) ELSE WallInstant(tv))
    /\ o.micro \in Micros(tv.ns)
TimeClause(tv, other, o) ==
    IF ~tv.present THEN (IF o.kind = None THEN "ok"
                         ELSE IF TimeMatches(other, o) THEN "taken_from_the_other_time_field"
                         ELSE "value_although_the_field_is_absent")
    ELSE IF tv.kind # "iso" THEN (IF o.kind = None THEN "ok" ELSE "a_time_although_the_text_contains_none")
    ELSE IF o.kind = None THEN "none_although_the_field_is_present"
    ELSE IF o.kind = "other" THEN "not_a_datetime"
    ELSE IF TimeMatches(tv, o) THEN "ok"
    ELSE IF TimeMatches(other, o) /\ other # tv THEN "taken_from_the_other_time_field"
    ELSE IF Zoned(tv) /\ o.kind = "naive" THEN "time_zone_dropped"
    ELSE IF ~Zoned(tv) /\ o.kind = "aware" THEN "time_zone_invented"
    ELSE IF ObsInstant(o) # (IF Zoned(tv) THEN UtcInstant(tv) ELSE WallInstant(tv)) THEN "different_instant"
    ELSE "fraction_of_the_second_wrong"

MeasSpecified(c) == /\ \A k \in StrKeys  : c.strs[k].present  => c.strs[k].sp  \in AdmissibleSp
                    /\ \A k \in TimeKeys : c.times[k].present => c.times[k].sp \in AdmissibleSp
MeasMayRefuse(c) == \E k \in TimeKeys : c.times[k].present /\ c.times[k].kind # "iso"

(* verdict on an observed result o = [out, title, run_number, experiment_id, doi, start_time,  *)
(* end_time]: <<clause, model field>>                                                           *)
MeasurementClause(c, o) ==
    IF ~MeasSpecified(c) THEN <<"ok", "-">>
    ELSE IF o.out = "refused"
         THEN (IF MeasMayRefuse(c) THEN <<"ok", "-">> ELSE <<"refused_although_every_field_is_absent_or_readable", "-">>)
    ELSE IF \E f \in StrFields : ~StrOK(SourceOf(f), c.strs[SourceOf(f)], o[f])
         THEN LET f == CHOOSE f \in StrFields : ~StrOK(SourceOf(f), c.strs[SourceOf(f)], o[f])
                  os == o[f]
              IN  << IF os.form = None THEN "none_although_the_field_is_present"
                     ELSE IF ~c.strs[SourceOf(f)].present /\ os.src = "-" THEN "value_although_the_field_is_absent"
                     ELSE IF os.src \notin {"-", SourceOf(f)} THEN "taken_from_another_field"
                     ELSE "text_changed", f >>
    ELSE IF o.doi # None THEN <<"a_DOI_although_NXentry_has_none", "experiment_doi">>
    ELSE IF \E f \in TimeFields : TimeClause(c.times[f], c.times[OtherTime(f)], o[f]) # "ok"
         THEN LET f == CHOOSE f \in TimeFields : TimeClause(c.times[f], c.times[OtherTime(f)], o[f]) # "ok"
              IN  << TimeClause(c.times[f], c.times[OtherTime(f)], o[f]), f >>
    ELSE <<"ok", "-">>

-----------------------------------------------------------------------------
(* the same tables in the form the generator exports (spec -> code)                           *)
ObsStrUniverse == { [src |-> s, form |-> f] : s \in {"-"} \cup StrKeys, f \in {None, "empty", "raw", "stripped", "other"} }
StrAllowed(k, sv) == { os \in ObsStrUniverse : StrOK(k, sv, os) }
TimeExpect(tv) ==
    LET inst == IF Zoned(tv) THEN UtcInstant(tv) ELSE WallInstant(tv) IN
    [kind |-> IF ~tv.present \/ tv.kind # "iso" THEN None ELSE IF Zoned(tv) THEN "aware" ELSE "naive",
     mins |-> inst[1], s |-> inst[2], micros |-> Micros(tv.ns)]
(* Measurement.run_number_maybe_int: "Return the run number as an int if possible", `int | str | None` *)
MaybeIntExpected(sv, os) == IF os.form = None THEN None ELSE IF sv.cls = "digits" THEN "int" ELSE "text"

MeasRefused == [out |-> "refused", title |-> ObsNone, run_number |-> ObsNone, experiment_id |-> ObsNone,
                doi |-> None, start_time |-> ObsNoTime, end_time |-> ObsNoTime]
=============================================================================
