SPECIFICATION Spec
CONSTANTS
  TimeUnits = {"ns", "us", "ms", "s"}
  LengthUnits = {"angstrom", "mm", "cm", "m", "km"}
  EnergyUnits = {"ueV", "meV", "eV", "keV", "J"}
  AngleUnits = {"rad", "deg"}
  AccelUnits <- MC_AccelFull
  InvLengthUnits <- MC_InvFull
  DTypeSet = {"float64", "float32", "int64", "int32"}
  Kernels <- MC_AllKernels
  WithShapes = FALSE
  Bug = "none"
INVARIANT TypeOK
INVARIANT DimensionOK
INVARIANT UnitEquivariance
INVARIANT OutUnitRule
INVARIANT DTypeRule
PROPERTY OutUnitStep
PROPERTY DTypeStep
CHECK_DEADLOCK FALSE
