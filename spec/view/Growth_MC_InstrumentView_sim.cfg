SPECIFICATION SimSpec
CONSTANTS
  Detectors <- MC_DetectorsQuick
  PixelSizes = {0}
  Names = {"sample", "source", "chopper 1", "mon_2", "Guide-B", "x"}
  Types = {"box", "cylinder", "disk", "sphere"}
  Centers <- MC_CentersQuick
  Sizes <- MC_SizesQuick
  Styles <- MC_StylesQuick
  MaxComps = 5
  Bug = "none"
INVARIANT Aligned
INVARIANT OneShapeOneLabel
INVARIANT TypeAndPlace
INVARIANT BoundingBox
INVARIANT DiskFacesBeam
INVARIANT LabelAbove
INVARIANT StyleAsRequested
INVARIANT CloudOnce
INVARIANT PixelGuess
INVARIANT FarReaches
INVARIANT NothingWithoutComponents
INVARIANT UnknownRefused
INVARIANT OrderIndependent
CHECK_DEADLOCK FALSE
INVARIANT Emit
