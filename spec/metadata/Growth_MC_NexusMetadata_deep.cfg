SPECIFICATION Spec
CONSTANTS
  Universe <- UQ
  ArgSeq <- ArgsQ
  MaxSteps = 5
  LibKnown <- LibQ
  Bug = "none"
  Export = FALSE
INVARIANT TypeOK
INVARIANT Admitted
INVARIANT Delivers
INVARIANT OrderFree
INVARIANT ReadsStable
INVARIANT CaseInsensitive
PROPERTY ReadsDoNotWrite
CHECK_DEADLOCK FALSE
