----------------------- MODULE Growth_CifBeamlineDefs -----------------------
(* GROWTH (beyond the 20 listed properties): what  CIF.with_beamline(beamline, source)     *)
(* writes into  _diffrn_radiation.probe  and  _diffrn_source.device  (plus .beamline and     *)
(* .facility), as a decision table over                                                     *)
(*     the Source (absent, or source_type x probe)  x  the class of the facility name.       *)
(* Written from the CIF core dictionary (enumerations of the two items), the documentation   *)
(* of metadata.Source / SourceType / RadiationProbe / Beamline, and facts about facilities.  *)
(* The deduction without a Source is best effort, so the table gives a SET of allowed         *)
(* outcomes per input and a Reference choice inside it:                                      *)
(*   - a Source that is given decides alone (the facility name is not consulted);            *)
(*   - a consistent Source (its probe is what its type produces) has exactly one outcome;     *)
(*   - an inconsistent Source (e.g. synchrotron + neutron) cannot be written faithfully:      *)
(*     following the type, following the probe field, or refusing are all accepted;          *)
(*   - without a Source nothing may be invented: for a name that is no facility, or no name,  *)
(*     both items are omitted; for a real facility either both are omitted or both state      *)
(*     what that facility really is; facilities the library's own documentation names         *)
(*     (Beamline docstring: ESS, SINQ - also the only facilities Beamline.from_nexus_entry    *)
(*     fills in) must be known.                                                              *)
EXTENDS Integers, Sequences, FiniteSets

CONSTANT Bug     \* "none" | "facility_beats_source"  (negative control)

SourceTypes == {"spallation", "reactor", "synchrotron"}
ProbeKinds == {"neutron", "xray"}

(* cif_core.dic: _diffrn_radiation.probe and _diffrn_source.device are enumerated *)
CifProbes == {"x-ray", "neutron", "electron", "gamma"}
CifDevices == {"tube", "nuclear", "spallation", "elect-micro", "rot_anode", "synch"}

DeviceOf(t) == CASE t = "spallation" -> "spallation" [] t = "reactor" -> "nuclear" [] t = "synchrotron" -> "synch"
ProbeOfType(t) == IF t = "synchrotron" THEN "xray" ELSE "neutron"
ProbeWord(p) == IF p = "xray" THEN "x-ray" ELSE "neutron"

NoSource == [given |-> FALSE, type |-> "-", probe |-> "-"]
Src(t, p) == [given |-> TRUE, type |-> t, probe |-> p]
Sources == {NoSource} \cup {Src(t, p) : t \in SourceTypes, p \in ProbeKinds}
Consistent(s) == s.given /\ ProbeOfType(s.type) = s.probe

(* classes of Beamline.facility:  absent (None);  doc_spallation: ESS, SINQ;  spallation:    *)
(* CSNS, ISIS, J-PARC, LANSCE, SNS;  reactor: ILL, FRM II, HFIR ...;  synchrotron: ESRF,      *)
(* PETRA III, APS ...;  unknown: text that names no facility                                 *)
FacilityClasses == {"absent", "doc_spallation", "spallation", "reactor", "synchrotron", "unknown"}
TruthOf(fc) == CASE fc \in {"doc_spallation", "spallation"} -> "spallation"
                 [] fc = "reactor" -> "reactor"
                 [] fc = "synchrotron" -> "synchrotron"
                 [] OTHER -> "none"
MustKnow(fc) == fc = "doc_spallation"

Out(p, d) == [probe |-> p, device |-> d]
Omit == Out("-", "-")
Refuse == Out("refused", "refused")
FromType(t) == Out(ProbeWord(ProbeOfType(t)), DeviceOf(t))

Allowed(fc, s) ==
    IF s.given
    THEN IF Consistent(s) THEN {FromType(s.type)}
         ELSE {FromType(s.type), Out(ProbeWord(s.probe), DeviceOf(s.type)), Refuse}
    ELSE IF TruthOf(fc) = "none" THEN {Omit}
         ELSE IF MustKnow(fc) THEN {FromType(TruthOf(fc))}
         ELSE {Omit, FromType(TruthOf(fc))}

(* the reference writer: the Source if given, else the facility if it is a known one *)
Reference(fc, s) ==
    IF Bug = "facility_beats_source" /\ TruthOf(fc) # "none" THEN FromType(TruthOf(fc))
    ELSE IF s.given THEN FromType(s.type)
    ELSE IF TruthOf(fc) # "none" THEN FromType(TruthOf(fc))
    ELSE Omit

(* one call as recorded / enumerated *)
Call(parent, fc, s) == [parent |-> parent, fc |-> fc, src |-> s]

(* the chunk the reference writer appends *)
ChunkOf(fc, s) == [fc |-> fc, src |-> s, out |-> Reference(fc, s)]

PhysConsistent(o) ==
    /\ (o.device \in {"spallation", "nuclear"} => o.probe = "neutron")
    /\ (o.device = "synch" => o.probe = "x-ray")
InEnums(o) == /\ o.probe \in CifProbes \cup {"-"}
              /\ o.device \in CifDevices \cup {"-"}
BothOrNeither(o) == (o.probe = "-") = (o.device = "-")
=============================================================================
