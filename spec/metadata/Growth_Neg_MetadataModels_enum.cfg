SPECIFICATION Spec
CONSTANTS
  Bug = "enum_dump_name"
  MaxDev = 1
INVARIANT RoundTrip
CHECK_DEADLOCK FALSE
