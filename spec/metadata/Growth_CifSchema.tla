-------------------------- MODULE Growth_CifSchema --------------------------
(* GROWTH: blocks, items and copies as a state machine; see Growth_CifSchemaDefs.            *)
EXTENDS Growth_CifSchemaDefs, TLC

CONSTANTS MaxBlocks, MaxItems, ItemDecls   \* ItemDecls: the declarations items may carry

VARIABLES blocks, written
vars == <<blocks, written>>

Init == blocks = <<>> /\ written = [id |-> 0, rows |-> {}]

NewBlock(d) == /\ Len(blocks) < MaxBlocks
               /\ blocks' = Append(blocks, [own |-> d, items |-> <<>>])
               /\ UNCHANGED written

AddItem(i, d) ==
    /\ Len(blocks[i].items) < MaxItems
    /\ blocks' = [k \in 1..Len(blocks) |->
                    IF k = i \/ (Bug = "copy_shares_items" /\ blocks[k].own = blocks[i].own
                                 /\ blocks[k].items = blocks[i].items)
                    THEN [blocks[k] EXCEPT !.items = Append(@, d)] ELSE blocks[k]]
    /\ UNCHANGED written

(* Block.copy(): same name, same items, schema = everything the block uses *)
CopyBlock(i) == /\ Len(blocks) < MaxBlocks
                /\ blocks' = Append(blocks, [own |-> IF BlockSchema(blocks[i]) = {} THEN NoDecl
                                                      ELSE Decl(BlockSchema(blocks[i])),
                                             items |-> blocks[i].items])
                /\ UNCHANGED written

Write(i) == /\ written' = [id |-> i, rows |-> BlockSchema(blocks[i])]
            /\ UNCHANGED blocks

Next == \/ \E d \in {NoDecl, Decl({"core"}), Decl({"pd"}), Decl({"x", "y"})} : NewBlock(d)
        \/ \E i \in 1..Len(blocks) : \E d \in ItemDecls : AddItem(i, d)
        \/ \E i \in 1..Len(blocks) : CopyBlock(i) \/ Write(i)
Spec == Init /\ [][Next]_vars

-----------------------------------------------------------------------------
AllBlocks == {blocks[i] : i \in 1..Len(blocks)}

(* anything declared at all brings coreCIF with it *)
CoreWheneverAny == \A b \in AllBlocks : BlockSchema(b) # {} => "core" \in BlockSchema(b)
(* declared schemas are used, nothing else is *)
DeclaredAreUsed == \A b \in AllBlocks :
                      /\ b.own.set \subseteq BlockSchema(b)
                      /\ \A j \in 1..Len(b.items) : b.items[j].set \subseteq BlockSchema(b)
NothingUndeclared == \A b \in AllBlocks :
                        BlockSchema(b) \subseteq
                            (b.own.set \cup UNION {b.items[j].set : j \in 1..Len(b.items)} \cup {"core"})
NoSchemaNoLoop == \A b \in AllBlocks :
                     (~b.own.declared /\ \A j \in 1..Len(b.items) : ~b.items[j].declared) => BlockSchema(b) = {}
WriteFaithful == [][written' # written => written'.rows = BlockSchema(blocks[written'.id])]_vars

(* adding never removes a schema, touches only the block it is applied to; a copy starts    *)
(* with the same schemas as its original                                                    *)
Steps == [][/\ \A i \in 1..Len(blocks) : BlockSchema(blocks[i]) \subseteq BlockSchema(blocks'[i])
            /\ Cardinality({i \in 1..Len(blocks) : blocks'[i] # blocks[i]}) <= 1
            /\ (Len(blocks') > Len(blocks) /\ blocks'[Len(blocks')].items # <<>>) =>
                  \E i \in 1..Len(blocks) : BlockSchema(blocks'[Len(blocks')]) = BlockSchema(blocks[i])]_vars
=============================================================================
