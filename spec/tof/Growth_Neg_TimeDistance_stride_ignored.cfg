SPECIFICATION Spec
CONSTANTS
  F = 20
  TMaxs = {0, 30, 40}
  Pulses = {3, 25}
  Offsets = {0, 5}
  Lambdas = {1, 4}
  Dists = {3, 10}
  LamMins = {1, 2}
  LamMaxs = {0, 4}
  Lmins = {0, 2}
  Lmaxs = {10}
  Strides = {1, 2}
  FrameCounts = {2}
  MaxOps = 2
  Bug = "stride_ignored"
INVARIANT Aligned
INVARIANT PulseRectCount
INVARIANT PulseRectsAtFrameStarts
INVARIANT WorldlineSlope
INVARIANT FasterArrivesEarlier
INVARIANT SameEmissionNeverCross
INVARIANT LabelAtWorldlineEnd
INVARIANT BandShape
INVARIANT BandsShiftedByStride
INVARIANT BandIsWavelengthRange
INVARIANT BandFastEdge
INVARIANT NoOverlapWhenAuto
INVARIANT OverlapIffTooWide
INVARIANT LimitIsNextFastEdge
INVARIANT WorldlineInsideBand
INVARIANT ComponentSpansDiagram
INVARIANT OwnKindsOnly
INVARIANT OrderIndependent
PROPERTY EarlierObjectsKept
CHECK_DEADLOCK FALSE
