------------------------------ MODULE QVecDefs ------------------------------
(* Momentum-transfer vector and hkl algebra (scippneutron.conversion.tof), state-free.    *)
(*   Q = (2 pi / lambda) (e_i - e_f),   e_i = b1/|b1|, e_f = b2/|b2|                       *)
(* A beam is a record [v, n]: an integer vector together with its integer norm            *)
(* (axis vectors, Pythagorean triples and quadruples, their signed permutations, integer   *)
(* multiples and images under rational rotations), so the unit vectors are rational:       *)
(*   e_i - e_f = QDirN / QDirD.   The factor 2 pi / lambda is applied by the harness.      *)
(* Rotations are QuatMat(q)/QuatN(q) for small integer quaternions (Lattice).              *)
(*   Q_lab = 2 pi R U B hkl;  with R = MR/NR, U = MU/NU and integer B:                     *)
(*   Q_lab / (2 pi) = A hkl / D,   A = MR MU B (integer),  D = NR NU                       *)
(*   hkl = D Adj(A) (Q_lab / 2 pi) / Det(A)                 (Cramer's rule)                *)
EXTENDS Lattice

IsBeam(b) == b.n > 0 /\ b.n * b.n = Norm2(b.v)

(* e_i - e_f = (n2 b1 - n1 b2) / (n1 n2) *)
QDirN(b1, b2) == VSub(VScale(b2.n, b1.v), VScale(b1.n, b2.v))
QDirD(b1, b2) == b1.n * b2.n
(* canonical form: componentwise reduced rationals *)
RatVec(v, d)  == <<Reduce(v[1], d), Reduce(v[2], d), Reduce(v[3], d)>>
QDir(b1, b2)  == RatVec(QDirN(b1, b2), QDirD(b1, b2))

(* |e_i - e_f|^2 = 2 - 2 cos(2theta) = 4 sin^2(theta) = (Q lambda / 2 pi)^2,               *)
(* cos(2theta) = b1.b2/(n1 n2) being the cosine of C03's angle class (scalar route, C01)   *)
FourSin2(b1, b2) == Reduce(2 * (QDirD(b1, b2) - Dot(b1.v, b2.v)), QDirD(b1, b2))

(* rotation of a rational vector v/d by the rational rotation QuatMat(q)/QuatN(q) *)
RotRat(q, v, d) == RatVec(MatVec(QuatMat(q), v), QuatN(q) * d)
(* rotating a beam: the numerator matrix is applied, M b has norm N |b|; by length         *)
(* independence this is as good as the rotated beam itself                                 *)
RotBeam(q, b)   == [v |-> MatVec(QuatMat(q), b.v), n |-> QuatN(q) * b.n]
ScaleBeam(k, b) == [v |-> VScale(k, b.v), n |-> k * b.n]

IsRotation(q) == /\ MatMul(QuatMat(q), Transpose(QuatMat(q))) = MatScale(QuatN(q) * QuatN(q), Identity3)
                 /\ Det3(QuatMat(q)) = QuatN(q) * QuatN(q) * QuatN(q)

(* ------------------------------------------------------------------------- hkl *)
UBNum(qu, B)      == MatMul(QuatMat(qu), B)                              \* U B = UBNum / QuatN(qu)
RUBNum(qr, qu, B) == MatMul(QuatMat(qr), UBNum(qu, B))                   \* A = MR (MU B)
RUBDen(qr, qu)    == QuatN(qr) * QuatN(qu)                               \* D
(* Q_lab/(2 pi) for given hkl, as numerator vector over D *)
QLabNum(qr, qu, B, h) == MatVec(RUBNum(qr, qu, B), h)
(* Cramer: the solution x of (A/D) x = v/dv  is  D Adj(A) v / (Det(A) dv) *)
Solve(A, D, v, dv) ==
    LET w == MatVec(Adj3(A), v)  g == GCD(VGcd(w), Det3(A))          \* divide first: 32 bit
    IN  RatVec(VScale(D, <<w[1] \div g, w[2] \div g, w[3] \div g>>), (Det3(A) \div g) * dv)

(* splitting a vector into components and reassembling it *)
Split(v) == [x |-> v[1], y |-> v[2], z |-> v[3]]
Join(c)  == <<c.x, c.y, c.z>>
=============================================================================
