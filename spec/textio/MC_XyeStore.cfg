SPECIFICATION Spec
CONSTANTS
  NPaths = 2
  MaxOps = 5
  Bug = "none"
INVARIANT TypeOK
INVARIANT LoadReturnsLastSaved
INVARIANT FilesWellFormed
CHECK_DEADLOCK FALSE
