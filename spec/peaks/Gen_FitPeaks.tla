---------------------------- MODULE Gen_FitPeaks ----------------------------
(* spec -> code: enumerates, at constant level, every window configuration of the bounded  *)
(* model with the exact expected windows, and every scripted behaviour of the model-       *)
(* selection loop with its expected result; the driver replays each into fit_peaks.        *)
(* Output: NDJSON files named by the environment variables WIN_FILE and LOOP_FILE.         *)
EXTENDS FitPeaksDefs, TLC, Json, IOUtils, SequencesExt

Factors == {<<1, 3>>, <<1, 4>>, <<1, 2>>, <<3, 4>>}
EstVals == {-36, -12, 0, 12, 36, 48, 84, 96, 108, 132}
Widths == {2, 12, 24, 26, 50, 100, 400}
MaxEst == 4
DataLo == 0
DataHi == 96

SortedSeqs(S, n) == {s \in UNION {[1..k -> S] : k \in 1..n} :
                        \A i \in 1..(Len(s) - 1) : s[i] <= s[i+1]}
WConfigs == {[ests |-> e, width |-> wd, lo |-> DataLo, hi |-> DataHi, fn |-> f[1], fd |-> f[2]] :
               e \in SortedSeqs(EstVals, MaxEst), wd \in Widths, f \in Factors}

WCase(c) == [cfg |-> c, wins |-> WindowsOf(c)]

(* hardening round: data of one to five points (every window holds too few points), and the *)
(* variants of a configuration (element types, memory layout) the driver attaches in turn   *)
TinyConfigs == {[ests |-> e, width |-> wd, lo |-> 0, hi |-> h, fn |-> f[1], fd |-> f[2]] :
                  e \in SortedSeqs({-12, 0, 6, 12, 24}, 2), wd \in {2, 12, 50}, f \in {<<1, 3>>, <<1, 2>>},
                  h \in {0, 12}}

ASSUME \A c \in WConfigs \cup TinyConfigs : ExactCfg(c)
ASSUME ndJsonSerialize(IOEnv.WIN_FILE, SetToSeq({WCase(c) : c \in WConfigs}))
ASSUME ndJsonSerialize(IOEnv.TINY_FILE, SetToSeq({WCase(c) : c \in TinyConfigs}))
ASSUME ndJsonSerialize(IOEnv.VARIANT_FILE, SetToSeq(WindowVariants))

(* loop: parameter counts of the scripted models (peak models with 3 and 6 parameters,      *)
(* backgrounds with 2 and 3): the combinations have 5, 6, 8, 9 parameters, so that with 7   *)
(* points the first two are fitted and the last two are too narrow.  Point counts equal to  *)
(* a parameter count (zero degrees of freedom) are excluded here; see Trace_FitPeaks.       *)
Verdicts == {"success", "rejected", "error"}
Shapes == {<<<<3>>, <<2>>>>, <<<<3>>, <<2, 3>>>>, <<<<3, 6>>, <<2>>>>, <<<<3, 6>>, <<2, 3>>>>, <<<<6, 3>>, <<3, 2>>>>}
NptsVals == {0, 1, 2, 4, 7, 10, 13}
NpsOf(sh) == LET nb == Len(sh[2]) K == Len(sh[1]) * nb
             IN [k \in 1..K |-> sh[1][ComboAt(k, nb)[1]] + sh[2][ComboAt(k, nb)[2]]]
LCase(sh, n, s) ==
    LET nps == NpsOf(sh)
        res == LoopResultOf(n, nps, s)
    IN [pk |-> sh[1], bk |-> sh[2], npts |-> n, script |-> s, combo |-> res.combo,
        pb |-> ComboAt(res.combo, Len(sh[2])), outcome |-> res.outcome, attempts |-> res.attempts,
        fits |-> [k \in 1..res.attempts |-> AttemptFits(n, nps[k])]]
LCases == UNION {{LCase(sh, n, s) : n \in NptsVals, s \in [1..Len(NpsOf(sh)) -> Verdicts]} : sh \in Shapes}
ASSUME \A c \in LCases : \A k \in 1..Len(c.script) : c.npts # NpsOf(<<c.pk, c.bk>>)[k]
ASSUME ndJsonSerialize(IOEnv.LOOP_FILE, SetToSeq(LCases))
ASSUME PrintT(<<"GEN", Cardinality(WConfigs), Cardinality(LCases), Cardinality(TinyConfigs),
                 Cardinality(WindowVariants)>>)

VARIABLE x
Init == x = 0
Next == x' = x
=============================================================================
