---------------------------- MODULE ConvertGraph ----------------------------
(* scippneutron.convert(data, origin, target, scatter) as a state machine.                 *)
(*                                                                                          *)
(*   Supply      - which of the 11 geometry / energy coordinates the data carries           *)
(*   DeduceMode  - presence of incident_energy / final_energy, origin, target               *)
(*   SelectGraph - beamline-only for geometry targets, elastic(origin), direct / indirect,  *)
(*                 no-scatter                                                               *)
(*   Found / Descend / Compute / Fail / Finish - the documented walk of transform_coords:   *)
(*       "1. if the node is found in the metadata, return it;                               *)
(*        2. otherwise, for each input of the node go to 1., then compute the node;         *)
(*        if the top of the graph is reached without finding all inputs, fail"              *)
(*     with an explicit stack of frames [n |-> node, k |-> number of inputs already visited] *)
(*                                                                                          *)
(* The invariants compare the walk with the declarative definitions of ConvertGraphDefs     *)
(* (least fixed point of derivability, set of computed nodes, provenance).                  *)
EXTENDS ConvertGraphDefs, TLC

CONSTANTS Heads,      \* set of [o, t, s, x] explored (origin, target, scatter, aux)
          Masks,      \* set of 11-bit masks explored (which of Geo11 are supplied)
          Bug         \* "none" or the name of a negative-control variant

VARIABLES cfg, pc, mode, graph, stack, have, deps, outcome
vars == <<cfg, pc, mode, graph, stack, have, deps, outcome>>

NoDeps == [ n \in {} |-> "" ]

-----------------------------------------------------------------------------
(* implementation-shaped choices, with the negative-control variants *)
ImplMode(c) ==
    IF Bug = "both_energies_direct" /\ c.t = "energy_transfer" /\ Cardinality(Inelastic(c)) = 2
    THEN "direct_inelastic" ELSE
    IF Bug = "swap_modes" /\ DeducedMode(c) = "direct_inelastic" THEN "indirect_inelastic"
    ELSE IF Bug = "swap_modes" /\ DeducedMode(c) = "indirect_inelastic" THEN "direct_inelastic"
    ELSE IF Bug = "elastic_energy_with_inelastic" /\ c.t # "energy_transfer" THEN "elastic"
    ELSE DeducedMode(c)

UsedTag(c, m) ==
    IF Bug = "noscatter_ignored" THEN GraphTagFor(c.o, c.t, TRUE, m)
    ELSE IF Bug = "used_full_graph" /\ c.s /\ m = "elastic"
         THEN GraphTagFor(c.o, "wavelength", c.s, m)   \* never beamline-only
    ELSE GraphTagFor(c.o, c.t, c.s, m)

Top == stack[Len(stack)]
Pop == SubSeq(stack, 1, Len(stack) - 1)
G == Rules(graph)

IsFound(n) == IF Bug = "recompute" THEN n \in have /\ ~HasRule(G, n)
              ELSE IF Bug = "ignore_supplied_target" THEN n \in have /\ ~(Len(stack) = 1 /\ n \in Present(cfg))
              ELSE n \in have

(* the call: the caller chooses the arguments (Init) and what the data carries (Supply) *)
Init == /\ \E h \in Heads : cfg = [o |-> h.o, t |-> h.t, s |-> h.s, x |-> h.x, m |-> 0]
        /\ pc = "supply" /\ mode = "none" /\ graph = "none"
        /\ stack = <<>> /\ have = {} /\ deps = NoDeps /\ outcome = "pending"

Supply ==
    /\ pc = "supply"
    /\ \E m \in Masks : /\ cfg' = [cfg EXCEPT !.m = m]
                        /\ have' = Present(cfg')
    /\ pc' = "deduce"
    /\ UNCHANGED <<mode, graph, stack, deps, outcome>>

DeduceMode ==
    /\ pc = "deduce"
    /\ LET m == ImplMode(cfg) IN
       IF m = "error"
       THEN /\ outcome' = "mode_error" /\ pc' = "done" /\ UNCHANGED mode
       ELSE /\ mode' = m /\ pc' = "select" /\ UNCHANGED outcome
    /\ UNCHANGED <<cfg, graph, stack, have, deps>>

SelectGraph ==
    /\ pc = "select"
    /\ graph' = UsedTag(cfg, mode)
    /\ stack' = << [n |-> cfg.t, k |-> 0] >>
    /\ pc' = "walk"
    /\ UNCHANGED <<cfg, mode, have, deps, outcome>>

Found ==
    /\ pc = "walk" /\ stack # <<>> /\ IsFound(Top.n)
    /\ stack' = Pop
    /\ UNCHANGED <<cfg, pc, mode, graph, have, deps, outcome>>

Fail ==
    /\ pc = "walk" /\ stack # <<>> /\ ~IsFound(Top.n) /\ ~HasRule(G, Top.n)
    /\ outcome' = "missing" /\ pc' = "done"
    /\ UNCHANGED <<cfg, mode, graph, stack, have, deps>>

Descend ==
    /\ pc = "walk" /\ stack # <<>> /\ ~IsFound(Top.n) /\ HasRule(G, Top.n)
    /\ LET r == RuleFor(G, Top.n)
           nin == IF Bug = "first_input_only" THEN 1 ELSE Len(r.ins)
       IN /\ Top.k < nin
          /\ stack' = Append([stack EXCEPT ![Len(stack)].k = @ + 1],
                             [n |-> r.ins[Top.k + 1], k |-> 0])
    /\ UNCHANGED <<cfg, pc, mode, graph, have, deps, outcome>>

Compute ==
    /\ pc = "walk" /\ stack # <<>> /\ ~IsFound(Top.n) /\ HasRule(G, Top.n)
    /\ LET r == RuleFor(G, Top.n)
           nin == IF Bug = "first_input_only" THEN 1 ELSE Len(r.ins)
           new == Range(r.outs)
       IN /\ Top.k >= nin
          /\ have' = have \cup new
          /\ deps' = [ n \in DOMAIN deps \cup new |-> IF n \in new THEN r.kernel ELSE deps[n] ]
    /\ stack' = Pop
    /\ UNCHANGED <<cfg, pc, mode, graph, outcome>>

Finish ==
    /\ pc = "walk" /\ stack = <<>>
    /\ outcome' = "ok" /\ pc' = "done"
    /\ UNCHANGED <<cfg, mode, graph, stack, have, deps>>

Terminated == pc = "done" /\ UNCHANGED vars

Next == Supply \/ DeduceMode \/ SelectGraph \/ Found \/ Fail \/ Descend \/ Compute \/ Finish \/ Terminated

Spec == Init /\ [][Next]_vars

-----------------------------------------------------------------------------
(* Properties *)
TypeOK ==
    /\ IsConfig(cfg)
    /\ pc \in {"supply", "deduce", "select", "walk", "done"}
    /\ mode \in {"none", "elastic", "direct_inelastic", "indirect_inelastic"}
    /\ graph \in GraphTags \cup {"none"}
    /\ outcome \in {"pending", "ok", "mode_error", "missing"}
    /\ (outcome # "pending") = (pc = "done")
    /\ pc # "supply" => Present(cfg) \subseteq have /\ DOMAIN deps = have \ Present(cfg)

(* the walk answers exactly when the target is in the least fixed point of the selected graph *)
Sound    == outcome = "ok" => /\ Derivable(G, Present(cfg), cfg.t) /\ cfg.t \in have
Complete == /\ outcome = "missing" => ~Derivable(G, Present(cfg), cfg.t)
            /\ outcome = "mode_error" => ModeAmbiguous(cfg)
            /\ (pc \notin {"supply", "deduce"} /\ ModeAmbiguous(cfg)) => outcome = "mode_error"
OutcomeIsDeclarative == pc = "done" => outcome = Outcome(cfg)

(* a supplied coordinate is never recomputed *)
Precedence == DOMAIN deps \cap Present(cfg) = {}

(* what was computed and how is what the declarative provenance says *)
WalkIsDeclarative == outcome = "ok" => deps = Prov(G, Present(cfg), cfg.t)

(* never a quantity of the wrong scattering mode *)
NoWrongMode ==
    /\ ("energy" \in DOMAIN deps \/ (cfg.o = "energy" /\ outcome = "ok" /\ cfg.t \notin GeometryTargets))
          => Inelastic(cfg) = {}
    /\ "energy_transfer" \in DOMAIN deps =>
          \/ Inelastic(cfg) = {"incident_energy"} /\ deps["energy_transfer"] = "energy_transfer_direct_from_tof"
          \/ Inelastic(cfg) = {"final_energy"} /\ deps["energy_transfer"] = "energy_transfer_indirect_from_tof"
    /\ "Ltotal" \in DOMAIN deps =>
          deps["Ltotal"] = (IF cfg.s THEN "total_beam_length" ELSE "total_straight_beam_length_no_scatter")
    /\ ~cfg.s => \A n \in DOMAIN deps :
                    \E r \in BeamlineNoScatter \cup KinematicTof : r.kernel = deps[n] /\ n \in Range(r.outs)

(* the graph reported by deduce_conversion_graph is the one convert walks *)
GraphReportedIsUsed == graph # "none" => graph = ReportedTag(cfg)

(* no cycle is ever entered, the walk is bounded *)
StackSimple == \A i, j \in 1..Len(stack) : i # j => stack[i].n # stack[j].n

(* nothing that exists is dropped or recomputed *)
Monotone == [][ /\ have \subseteq have'
                /\ \A n \in DOMAIN deps : n \in DOMAIN deps' /\ deps'[n] = deps[n] ]_vars

(* Progress: TLC's deadlock check is on (no CHECK_DEADLOCK FALSE in the cfgs) and the only  *)
(* stuttering action is Terminated, so a call that is still pending always has a next step;  *)
(* with StackSimple (bounded stack) and Monotone (have only grows) every call terminates.    *)
=============================================================================
