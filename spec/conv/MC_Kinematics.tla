--------------------------- MODULE MC_Kinematics ---------------------------
EXTENDS Kinematics
(* sin(theta) grid: theta in (0, pi/2], i.e. two_theta in (0, pi]; from back-scattering (s = 1)   *)
(* down to small angles (two_theta = 2e-3 and 2e-6 rad), where formulas that are fine at large    *)
(* angles (half-angle identities, thresholds on the angle or its sine) lose their digits          *)
MC_SinQuick == {<<1, 1000000>>, <<1, 1000>>, <<1, 2>>, <<3, 5>>, <<1, 1>>}
MC_SinFull  == {<<1, 1000000>>, <<1, 1000>>, <<1, 2>>, <<3, 5>>, <<4, 5>>, <<5, 13>>, <<12, 13>>, <<1, 1>>}
ASSUME PrintT(<<"DIM", PhysDim, SinExp>>)
=============================================================================
