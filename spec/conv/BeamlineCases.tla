--------------------------- MODULE BeamlineCases ---------------------------
(* Constant-level export of C03 replay cases (spec -> code).  TLC evaluates the spec's   *)
(* own operators (BeamlineDefs) on every base configuration x transformation and writes  *)
(* one JSON record per pair holding both configurations and their exact integers; the   *)
(* near-degenerate dyadic families are exported with their exact symbolic terms.        *)
EXTENDS BeamlineDefs, TLC, Json, IOUtils, SequencesExt

CONSTANTS SrcBox, DetBox,     \* coordinate ranges of source / detector (sample at the origin)
          Scales, Exps, Ks

C1 == -1..1
C2 == -2..2
Box(C)   == { v \in C \X C \X C : v # Zero3 }
Unit     == -1..1
Steps    == Box(Unit) \cup { <<64, 0, 0>>, <<-37, 11, 5>>, <<1000, 1000, -1000>> }
Bases    == { [src |-> s, smp |-> Zero3, det |-> d] : s \in Box(SrcBox), d \in Box(DetBox) }
Acts     == { <<"rot", R>> : R \in Rot24 } \cup { <<"trans", t>> : t \in Steps }
            \cup { <<"scale1", k>> : k \in Scales } \cup { <<"scale2", k>> : k \in Scales }
            \cup { <<"swap", 0>> }

Pair(c, a) == LET c2 == Apply(a[1], a[2], c) IN
              [kind |-> "pair", act |-> a[1], p |-> a[2], c |-> c, c2 |-> c2,
               x |-> Exact(c), x2 |-> Exact(c2)]
Pairs == { Pair(c, a) : c \in Bases, a \in Acts }

Dirs == Box(Unit)
NotPar(b1)  == { p \in Dirs : Cross(b1, p) # Zero3 }
PerpPairs(b1) == { r \in Dirs \X Dirs : Dot(b1, r[1]) = 0 /\ Dot(b1, r[2]) # 0 }
NearPar == UNION { { [kind |-> "near", fam |-> "par", b1 |-> b1, k |-> k, sgn |-> sgn, q |-> Zero3, p |-> p,
                      e |-> e, t |-> NearParallelTerms(b1, k, sgn, p), cls |-> NearClass("par", sgn)] :
                     k \in Ks, sgn \in {-1, 1}, e \in Exps, p \in NotPar(b1) } : b1 \in Dirs }
NearPerp == UNION { { [kind |-> "near", fam |-> "perp", b1 |-> b1, k |-> 1, sgn |-> 1, q |-> r[1], p |-> r[2],
                       e |-> e, t |-> NearPerpTerms(b1, r[1], r[2]), cls |-> NearClass("perp", 1)] :
                      e \in Exps, r \in PerpPairs(b1) } : b1 \in Dirs }

ASSUME ndJsonSerialize(IOEnv.OUT_FILE, SetToSeq(Pairs) \o SetToSeq(NearPar) \o SetToSeq(NearPerp))
ASSUME PrintT(<<"CASES", Cardinality(Pairs), Cardinality(NearPar), Cardinality(NearPerp)>>)
=============================================================================
