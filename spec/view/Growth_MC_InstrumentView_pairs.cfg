SPECIFICATION Spec
CONSTANTS
  Detectors <- MC_DetectorsPairs
  PixelSizes = {0}
  Names = {"near", "far"}
  Types = {"box", "disk", "sphere"}
  Centers <- MC_CentersPairs
  Sizes <- MC_SizesPairs
  Styles <- MC_StylesPairs
  MaxComps = 2
  Bug = "none"
INVARIANT Aligned
INVARIANT OneShapeOneLabel
INVARIANT TypeAndPlace
INVARIANT BoundingBox
INVARIANT DiskFacesBeam
INVARIANT LabelAbove
INVARIANT StyleAsRequested
INVARIANT CloudOnce
INVARIANT PixelGuess
INVARIANT FarReaches
INVARIANT NothingWithoutComponents
INVARIANT UnknownRefused
INVARIANT OrderIndependent
PROPERTY EarlierObjectsKept
PROPERTY FarMonotone
PROPERTY InputUnchanged
PROPERTY RefusalLeavesScene
CHECK_DEADLOCK FALSE
INVARIANT Emit
