-------------------------- MODULE ConvertGraphDefs --------------------------
(* State-free definitions for scippneutron.convert / deduce_conversion_graph /             *)
(* conversion_graph, shared by the state machine ConvertGraph, the case emitter             *)
(* Emit_ConvertGraph and the trace specification Trace_ConvertGraph.                        *)
(*                                                                                          *)
(* Everything here is transcribed from the documentation, not from core/conversions.py:     *)
(*   - the rule tables from the user guide "Coordinate Transformations" (table of           *)
(*     conversions, the four graph pictures) and the docstrings of                          *)
(*     scippneutron.conversion.graph.{beamline,tof} / conversion.{beamline,tof}             *)
(*     (inputs of a kernel = its documented parameters, in documented order);               *)
(*   - the mode deduction and graph selection from the docstrings of convert,               *)
(*     deduce_conversion_graph, conversion_graph and from the property text (C02).          *)
(* A configuration is a record [o, t, s, m, x]: origin, target, scatter flag, an 11-bit      *)
(* mask over Geo11 (which geometry / energy coordinates are supplied) and x = the           *)
(* auxiliary inputs (pulse_time, u_matrix, b_matrix, sample_rotation) are supplied.          *)
EXTENDS Integers, Sequences, FiniteSets

Range(f) == { f[i] : i \in DOMAIN f }

Origins == {"tof", "wavelength", "energy", "Q"}

Geo11 == << "position", "source_position", "sample_position", "incident_beam",
            "scattered_beam", "L1", "L2", "Ltotal", "two_theta",
            "incident_energy", "final_energy" >>

Aux == {"pulse_time", "u_matrix", "b_matrix", "sample_rotation"}

(* the targets the package supports: every node some documented graph can produce *)
GeometryTargets == {"incident_beam", "scattered_beam", "L1", "L2", "two_theta", "Ltotal"}
AuxTargets == {"hkl_vec", "h", "k", "l", "ub_matrix", "time_at_sample"}
Targets == GeometryTargets \cup AuxTargets \cup
           {"dspacing", "energy", "wavelength", "Q", "Q_vec", "Qx", "Qy", "Qz",
            "energy_transfer"}

-----------------------------------------------------------------------------
(* Rule tables.  A rule = [outs, kernel, ins]; a graph = a set of rules.        *)
R(o, k, i) == [outs |-> o, kernel |-> k, ins |-> i]

BeamlineScatter == {
    R(<<"incident_beam">>,  "straight_incident_beam",  <<"source_position", "sample_position">>),
    R(<<"scattered_beam">>, "straight_scattered_beam", <<"position", "sample_position">>),
    R(<<"L1">>,             "L1",                      <<"incident_beam">>),
    R(<<"L2">>,             "L2",                      <<"scattered_beam">>),
    R(<<"two_theta">>,      "two_theta",               <<"incident_beam", "scattered_beam">>),
    R(<<"Ltotal">>,         "total_beam_length",       <<"L1", "L2">>) }

BeamlineNoScatter == {
    R(<<"Ltotal">>, "total_straight_beam_length_no_scatter", <<"source_position", "position">>) }

(* nodes shared by the 'tof' and 'wavelength' elastic graphs *)
FromWavelength == {
    R(<<"Q">>,            "Q_from_wavelength",          <<"wavelength", "two_theta">>),
    R(<<"Qx","Qy","Qz">>, "Q_elements_from_wavelength", <<"wavelength", "incident_beam", "scattered_beam">>),
    R(<<"Q_vec">>,        "Q_vec_from_Q_elements",      <<"Qx", "Qy", "Qz">>),
    R(<<"ub_matrix">>,    "ub_matrix_from_u_and_b",     <<"u_matrix", "b_matrix">>),
    R(<<"hkl_vec">>,      "hkl_vec_from_Q_vec",         <<"Q_vec", "ub_matrix", "sample_rotation">>),
    R(<<"h","k","l">>,    "hkl_elements_from_hkl_vec",  <<"hkl_vec">>) }

ElasticTof == FromWavelength \cup {
    R(<<"wavelength">>,     "wavelength_from_tof",     <<"tof", "Ltotal">>),
    R(<<"energy">>,         "energy_from_tof",         <<"tof", "Ltotal">>),
    R(<<"dspacing">>,       "dspacing_from_tof",       <<"tof", "Ltotal", "two_theta">>),
    R(<<"time_at_sample">>, "time_at_sample_from_tof", <<"pulse_time", "tof", "L2", "wavelength">>) }

ElasticWavelength == FromWavelength \cup {
    R(<<"energy">>,   "energy_from_wavelength",   <<"wavelength">>),
    R(<<"dspacing">>, "dspacing_from_wavelength", <<"wavelength", "two_theta">>) }

ElasticEnergy == {
    R(<<"wavelength">>, "wavelength_from_energy", <<"energy">>),
    R(<<"dspacing">>,   "dspacing_from_energy",   <<"energy", "two_theta">>) }

ElasticQ == { R(<<"wavelength">>, "wavelength_from_Q", <<"Q", "two_theta">>) }

Direct   == { R(<<"energy_transfer">>, "energy_transfer_direct_from_tof",
                <<"tof", "L1", "L2", "incident_energy">>) }
Indirect == { R(<<"energy_transfer">>, "energy_transfer_indirect_from_tof",
                <<"tof", "L1", "L2", "final_energy">>) }

(* "kinematic: straight propagation without scattering; only 'tof' is supported as start" *)
KinematicTof == { r \in ElasticTof : r.outs \in {<<"wavelength">>, <<"energy">>} }

GraphTags == {"beamline", "elastic_tof", "elastic_wavelength", "elastic_energy", "elastic_Q",
              "direct_inelastic", "indirect_inelastic", "no_scatter"}

Rules(tag) ==
    CASE tag = "beamline"           -> BeamlineScatter
      [] tag = "elastic_tof"        -> BeamlineScatter \cup ElasticTof
      [] tag = "elastic_wavelength" -> BeamlineScatter \cup ElasticWavelength
      [] tag = "elastic_energy"     -> BeamlineScatter \cup ElasticEnergy
      [] tag = "elastic_Q"          -> BeamlineScatter \cup ElasticQ
      [] tag = "direct_inelastic"   -> BeamlineScatter \cup Direct
      [] tag = "indirect_inelastic" -> BeamlineScatter \cup Indirect
      [] tag = "no_scatter"         -> BeamlineNoScatter \cup KinematicTof

OutsOf(rules) == UNION { Range(r.outs) : r \in rules }
HasRule(rules, n) == \E r \in rules : n \in Range(r.outs)
RuleFor(rules, n) == CHOOSE r \in rules : n \in Range(r.outs)

(* every graph is a function (one rule per node) and acyclic (a rank exists) *)
Functional(rules) == \A r, q \in rules : (Range(r.outs) \cap Range(q.outs) # {}) => r = q
NodesOf(rules) == OutsOf(rules) \cup UNION { Range(r.ins) : r \in rules }
RECURSIVE Peel(_, _)
Peel(rules, done) ==       \* repeatedly remove rules whose inputs are all leaves or done
    LET ready == { r \in rules : \A i \in Range(r.ins) : i \in done \/ ~HasRule(rules, i) }
    IN IF ready = {} THEN rules ELSE Peel(rules \ ready, done \cup OutsOf(ready))
Acyclic(rules) == Peel(rules, {}) = {}

-----------------------------------------------------------------------------
(* Configurations *)
Bit(m, i) == (m \div (2 ^ (i - 1))) % 2 = 1
Supplied(m) == { Geo11[i] : i \in { j \in 1..11 : Bit(m, j) } }
Present(c) == {c.o} \cup Supplied(c.m) \cup (IF c.x THEN Aux ELSE {})

Inelastic(c) == Supplied(c.m) \cap {"incident_energy", "final_energy"}

IsConfig(c) == /\ c.o \in Origins /\ c.t \in Targets /\ c.t # c.o
               /\ c.s \in BOOLEAN /\ c.m \in 0..2047
               /\ c.x \in (IF c.t \in AuxTargets THEN BOOLEAN ELSE {FALSE})

Configs == { c \in [o : Origins, t : Targets, s : BOOLEAN, m : 0..2047, x : BOOLEAN] : IsConfig(c) }

-----------------------------------------------------------------------------
(* Mode deduction (docstring of convert / messages of the documented RuntimeErrors):       *)
(*   energy_transfer needs exactly one of incident_energy / final_energy;                  *)
(*   elastic 'energy' as origin or target is refused when inelastic coordinates exist;      *)
(*   everything else is elastic.                                                            *)
DeducedMode(c) ==
    IF c.t = "energy_transfer" THEN
        IF Inelastic(c) = {"incident_energy"} THEN "direct_inelastic"
        ELSE IF Inelastic(c) = {"final_energy"} THEN "indirect_inelastic"
        ELSE "error"
    ELSE IF "energy" \in {c.o, c.t} /\ Inelastic(c) # {} THEN "error"
    ELSE "elastic"

(* independent, declarative statement of the same thing, used by the invariants *)
ModeAmbiguous(c) ==
    \/ c.t = "energy_transfer" /\ Cardinality(Inelastic(c)) # 1
    \/ c.t # "energy_transfer" /\ (c.o = "energy" \/ c.t = "energy") /\ Cardinality(Inelastic(c)) >= 1

(* the refusal is demanded by the property only where answering would mean a wrong mode;    *)
(* for a pure geometry target (mode-independent) answering from the beamline graph of the   *)
(* requested scatter flag is also an admissible behaviour (DESIGN 3.4: never demand more    *)
(* than the property states)                                                                *)
RefusalOptional(c) == ModeAmbiguous(c) /\ c.t \in GeometryTargets
AltTag(c) == IF c.s THEN "beamline" ELSE "no_scatter"

(* conversion_graph(origin, target, scatter, energy_mode) *)
GraphTagFor(o, t, s, mode) ==
    IF ~s THEN "no_scatter"
    ELSE IF mode = "elastic"
         THEN IF t \in OutsOf(BeamlineScatter) THEN "beamline" ELSE
              CASE o = "tof" -> "elastic_tof" [] o = "wavelength" -> "elastic_wavelength"
                [] o = "energy" -> "elastic_energy" [] o = "Q" -> "elastic_Q"
         ELSE mode

(* deduce_conversion_graph(data, origin, target, scatter): tag or "error" *)
ReportedTag(c) == LET m == DeducedMode(c) IN
                  IF m = "error" THEN "error" ELSE GraphTagFor(c.o, c.t, c.s, m)

-----------------------------------------------------------------------------
(* Declarative semantics of the walk *)
RECURSIVE Lfp(_, _)
Lfp(rules, S) ==
    LET add == OutsOf({ r \in rules : Range(r.ins) \subseteq S })
    IN IF add \subseteq S THEN S ELSE Lfp(rules, S \cup add)
Closure(rules, P) == Lfp(rules, P)
Derivable(rules, P, t) == t \in Closure(rules, P)

(* nodes computed on a successful walk: a supplied coordinate is a leaf *)
RECURSIVE Computed(_, _, _)
Computed(rules, P, n) ==
    IF n \in P \/ ~HasRule(rules, n) THEN {}
    ELSE LET r == RuleFor(rules, n)
         IN Range(r.outs) \cup UNION { Computed(rules, P, i) : i \in Range(r.ins) }

(* provenance: node -> kernel that produced it *)
Prov(rules, P, t) == [ n \in Computed(rules, P, t) |-> RuleFor(rules, n).kernel ]

(* expected outcome class of convert *)
Outcome(c) ==
    IF ModeAmbiguous(c) THEN "mode_error"
    ELSE IF Derivable(Rules(ReportedTag(c)), Present(c), c.t) THEN "ok" ELSE "missing"
=============================================================================
