SPECIFICATION Spec
CONSTANTS
  K = 8
  SlitSets <- MC_SlitSetsQ
  Bug = "none"
INVARIANT PathWellFormed
INVARIANT SlitsAreDrawn
INVARIANT OneTurn
INVARIANT FlagsRight
INVARIANT MarksAtTheEdges
INVARIANT NothingForNoSlit
CHECK_DEADLOCK FALSE
INVARIANT EmitCase
