------------------------ MODULE Trace_ConvertGraph ------------------------
(* Judges recorded executions of scippneutron.convert / deduce_conversion_graph /           *)
(* conversion_graph / the graph factories against the definitions of ConvertGraphDefs.      *)
(* One NDJSON line per event; every event is judged (total verdicts):                       *)
(*     <<"REJECT", line, tid, clause>> per bad event, <<"DONE", n, nbad>> at the end.       *)
(*                                                                                          *)
(* Event kinds                                                                              *)
(*   def      id, kind ("graph" | "pairs" | "names"), val                                   *)
(*            interning table: large repeated values (a reported graph = list of            *)
(*            [outs, kernel, ins]; a provenance = list of [node, kernel]; a set of names)   *)
(*            are logged once and referenced by id afterwards (state variable tab)          *)
(*   factory  name, g            graph returned by a documented graph factory               *)
(*   cgraph   o, t, s, mode, g   conversion_graph(o, t, s, mode)                            *)
(*            hist               "first" | "reversed" | "shuffled": the complete argument   *)
(*                               space is requested three times in different orders, the    *)
(*                               caller clearing every returned graph (ConvertGraphHistory:  *)
(*                               the answer is a function of the arguments, not of history)  *)
(*   convert  o, t, s, m, x      configuration                                              *)
(*            hist               "first" | "replay" (the same case executed again at the    *)
(*                               end of the run, in another order, after all other calls)   *)
(*            lay                layout class of the data ("canon" | "scalar" | "pixel");    *)
(*                               the verdict does not depend on it                           *)
(*            pv                 id of the provenance the harness evaluated numerically     *)
(*            g                  id of the graph deduce_conversion_graph returned,          *)
(*                               -1 = RuntimeError, -2 = any other exception                *)
(*            copy               the returned graph is a private copy                       *)
(*            da, ds             per container: out ("ok" | "RuntimeError" | "other" |      *)
(*                               "malformed" = the call returned something that is not a    *)
(*                               data array / dataset), add = id of the set of added        *)
(*                               coordinates, val = values equal the reference formulas     *)
(*                               along pv (1e-9), fin = every compared value is finite,     *)
(*                               same = supplied coordinates unchanged (against a deep      *)
(*                               snapshot taken before the call), has = target present      *)
EXTENDS ConvertGraphDefs, TLC, Json, IOUtils

Tr == ndJsonDeserialize(IOEnv.TRACE_FILE)

VARIABLES l, nbad, tab
tvars == <<l, nbad, tab>>

ToRules(v) == { R(v[i][1], v[i][2], v[i][3]) : i \in DOMAIN v }
ToPairs(v) == { <<v[i][1], v[i][2]>> : i \in DOMAIN v }
ToNames(v) == { v[i] : i \in DOMAIN v }
PairsOf(f) == { <<n, f[n]>> : n \in DOMAIN f }

Known(id) == id \in DOMAIN tab

FactoryRules(name) ==
    CASE name = "beamline(scatter=True)"  -> BeamlineScatter
      [] name = "beamline(scatter=False)" -> BeamlineNoScatter
      [] name = "elastic(tof)"            -> ElasticTof
      [] name = "elastic(wavelength)"     -> ElasticWavelength
      [] name = "elastic(energy)"         -> ElasticEnergy
      [] name = "elastic(Q)"              -> ElasticQ
      [] name = "kinematic(tof)"          -> KinematicTof
      [] name = "direct_inelastic(tof)"   -> Direct
      [] name = "indirect_inelastic(tof)" -> Indirect
      [] OTHER -> {}

JudgeFactory(e) ==
    IF ~Known(e.g) THEN "factory_raised_or_unknown_graph"
    ELSE IF tab[e.g] # FactoryRules(e.name) THEN "factory_table_differs_from_documentation"
    ELSE "ok"

(* a verdict on a repeated request names the history in its clause *)
After(v, hist) == IF v = "ok" \/ hist = "first" THEN v ELSE v \o "_on_" \o hist \o "_request"

JudgeCGraph(e) ==
    After(IF ~Known(e.g) THEN "conversion_graph_raised"
          ELSE IF tab[e.g] # Rules(GraphTagFor(e.o, e.t, e.s, e.mode)) THEN "conversion_graph_differs"
          ELSE "ok", e.hist)

(* one container against a walk of `rules` *)
JudgeWalk(c, rules, ob, pv, who) ==
    IF Derivable(rules, Present(c), c.t) THEN
        IF ob.out # "ok" THEN "derivable_but_" \o ob.out \o who
        ELSE IF ~ob.has THEN "target_not_in_result" \o who
        ELSE IF ~Known(ob.add) \/ tab[ob.add] # Computed(rules, Present(c), c.t)
            THEN "computed_set" \o who
        ELSE IF pv # PairsOf(Prov(rules, Present(c), c.t)) THEN "provenance_echo"
        ELSE IF ~ob.same THEN "supplied_coordinate_changed" \o who
        ELSE IF ~ob.fin THEN "non_finite_value" \o who
        ELSE IF ~ob.val THEN "value" \o who
        ELSE "ok"
    ELSE IF ob.out = "RuntimeError" THEN "ok"
    ELSE IF ob.out = "ok" THEN "answered_although_not_derivable" \o who
    ELSE "not_derivable_but_" \o ob.out \o who

First(a, b) == IF a # "ok" THEN a ELSE b

JudgeRefusal(e) ==
    IF e.g # -1 THEN "mode_ambiguous_but_graph_reported"
    ELSE IF e.da.out # "RuntimeError" THEN "mode_ambiguous_but_" \o e.da.out \o "_DataArray"
    ELSE IF e.ds.out # "RuntimeError" THEN "mode_ambiguous_but_" \o e.ds.out \o "_Dataset"
    ELSE "ok"

JudgeConvert1(e) ==
    LET c == [o |-> e.o, t |-> e.t, s |-> e.s, m |-> e.m, x |-> e.x]
        pv == IF Known(e.pv) THEN tab[e.pv] ELSE {<<"?", "?">>}
    IN
    IF ~IsConfig(c) THEN "not_a_configuration"
    ELSE IF e.hist \notin {"first", "replay"} \/ e.lay \notin {"canon", "scalar", "pixel"} THEN "not_a_configuration"
    ELSE IF ~e.copy THEN "reported_graph_is_not_a_copy"
    ELSE IF ModeAmbiguous(c) THEN
        IF RefusalOptional(c) /\ e.g # -1 THEN
            (* answering a geometry target from the beamline graph is the only alternative *)
            IF ~Known(e.g) \/ tab[e.g] # Rules(AltTag(c)) THEN "reported_graph_differs"
            ELSE First(JudgeWalk(c, Rules(AltTag(c)), e.da, pv, "_DataArray"),
                       JudgeWalk(c, Rules(AltTag(c)), e.ds, pv, "_Dataset"))
        ELSE JudgeRefusal(e)
    ELSE
        LET rules == Rules(ReportedTag(c)) IN
        IF e.g = -1 THEN "graph_refused_although_mode_is_determined"
        ELSE IF ~Known(e.g) THEN "deduce_conversion_graph_raised"
        ELSE IF tab[e.g] # rules THEN "reported_graph_differs"
        ELSE First(JudgeWalk(c, rules, e.da, pv, "_DataArray"),
                   JudgeWalk(c, rules, e.ds, pv, "_Dataset"))

JudgeConvert(e) == After(JudgeConvert1(e), e.hist)

Judge(e) == IF e.ev = "convert" THEN JudgeConvert(e)
            ELSE IF e.ev = "def" THEN "ok"
            ELSE IF e.ev = "cgraph" THEN JudgeCGraph(e)
            ELSE IF e.ev = "factory" THEN JudgeFactory(e)
            ELSE "unknown_event"

NewTab(e) ==
    IF e.ev # "def" THEN tab
    ELSE LET v == IF e.kind = "graph" THEN ToRules(e.val)
                  ELSE IF e.kind = "pairs" THEN ToPairs(e.val)
                  ELSE ToNames(e.val)
         IN [ i \in DOMAIN tab \cup {e.id} |-> IF i = e.id THEN v ELSE tab[i] ]

TInit == l = 1 /\ nbad = 0 /\ tab = [ i \in {} |-> {} ]
TNext == /\ l <= Len(Tr)
         /\ l' = l + 1
         /\ tab' = NewTab(Tr[l])
         /\ LET v == Judge(Tr[l]) IN
            /\ nbad' = IF v = "ok" THEN nbad ELSE nbad + 1
            /\ (v = "ok" \/ PrintT(<<"REJECT", l, Tr[l].tid, v>>))
TSpec == TInit /\ [][TNext]_tvars
Done == (l = Len(Tr) + 1) => PrintT(<<"DONE", l - 1, nbad>>)
=============================================================================
