SPECIFICATION Spec
CONSTANTS
  Kinds = {"path", "stringio", "bytesio", "textfile", "binfile"}
  Modes = {"w", "r+", "r"}
  Sizes = {0, 2}
  MaxUses = 2
  MaxBody = 2
  Bug = "truncate_handle"
INVARIANT TypeOK
INVARIANT CallersStaysOpen
INVARIANT NoLeak
INVARIANT Identity
INVARIANT NothingOpenedForHandles
PROPERTY NeverClosesCallers
PROPERTY EnterKeepsHandle
PROPERTY ExitKeepsContent
PROPERTY PathTruncation
CHECK_DEADLOCK FALSE
