"""Independent reading of the bundled nuclear-data tables for C20 (refinement mapping of AtomTables).

The three CSV files are read with Python's own ``csv`` module — never with scippneutron's parser — and
exported to JSON for TLC on every run (the CommunityModules ``CSVRead`` operator was tried first and is
unusable for these files: it splits with Java's ``String.split``, which drops trailing empty fields, and
it cannot skip the comment line of two of the files).  All values stay text; names are additionally
given as sequences of code points so that the TLA+ near-miss generator can cut, extend and re-case them.

Column layout of ``scattering_parameters.csv`` (the file has no header): the NIST list of neutron
scattering lengths and cross sections (https://www.ncnr.nist.gov/resources/n-lengths/list.html, Sears
1992) has the columns  isotope, [conc,] Coh b, Inc b, Coh xs, Inc xs, Scatt xs, Abs xs; the complex
lengths are split into real and imaginary part and every value is followed by its uncertainty.  Anchors
from the NIST list itself: H  Coh b -3.7390, Coh xs 1.7568, Inc xs 80.26, Scatt xs 82.02, Abs xs 0.3326;
157Gd  Coh b -1.14-71.9i, Inc b +/-5(5)-55.8i, 650(4), 394(7), 1044(8), 259000(700).
"""

from __future__ import annotations

import csv
import json
from fractions import Fraction as F
from pathlib import Path

SCAT_FIELDS = (
    ('coherent_scattering_length_re', 'fm'),
    ('coherent_scattering_length_im', 'fm'),
    ('incoherent_scattering_length_re', 'fm'),
    ('incoherent_scattering_length_im', 'fm'),
    ('coherent_scattering_cross_section', 'barn'),
    ('incoherent_scattering_cross_section', 'barn'),
    ('total_scattering_cross_section', 'barn'),
    ('absorption_cross_section', 'barn'),
)

REFERENCE_WAVELENGTH_ANGSTROM = F(17982, 10000)


def tables_dir() -> Path:
    """Directory of the data files of the scippneutron that is being checked (source tree or the
    mutant's scratch copy) — located without importing the parser."""
    import importlib.util

    spec = importlib.util.find_spec('scippneutron')
    return Path(spec.origin).parent / 'atoms'


def _rows(path: Path, skip: int):
    with open(path, newline='') as f:
        rows = list(csv.reader(f))
    return rows[:skip], rows[skip:]


def read_tables(directory: Path | None = None) -> dict:
    d = directory or tables_dir()
    _, scat = _rows(d / 'scattering_parameters.csv', 0)
    wh, weights = _rows(d / 'atomic_weights.csv', 2)
    mh, masses = _rows(d / 'atomic_masses.csv', 2)

    def rec(row):
        return {'name': row[0], 'cp': [ord(ch) for ch in row[0]], 'f': row[1:]}

    headers = sorted({cell for hdr in (wh, mh) for line in hdr for cell in line}
                     | {cell.split()[0] for hdr in (wh, mh) for line in hdr for cell in line if cell.split()})
    return {
        'scat': [rec(r) for r in scat],
        'weights': [rec(r) for r in weights],
        'masses': [rec(r) for r in masses],
        'headers': [[ord(ch) for ch in h] for h in headers if len(h) <= 24],
    }


def mini_tables(t: dict) -> dict:
    """A small sub-table for the state machine (the linear scans of the model are quadratic in TLC):
    rows whose names are cut/extended into each other (H/He/Hf/Hg..., C/Ca/Cd/Cf/Co...)."""
    el = {'H', 'He', 'Li', 'C', 'Ca', 'Cf', 'Co', 'Cu', 'N', 'Ni', 'O', 'Os', 'Tc', 'Og', 'V', 'Cd', 'Gd'}
    w = [r for r in t['weights'] if r['name'] in el]
    m = [r for r in t['masses'] if r['name'].lstrip('0123456789') in el and len(r['name']) <= 4][:60]
    s = [r for r in t['scat'] if r['name'].lstrip('0123456789') in el]
    return {'scat': s, 'weights': w, 'masses': m, 'headers': t['headers'][:6]}


def write_json(path: Path, t: dict):
    path.write_text(json.dumps(t))


def dec(text: str) -> F:
    """Exact rational value of a decimal text of the table."""
    return F(text)
