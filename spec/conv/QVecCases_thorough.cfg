CONSTANTS
  BeamSeeds <- Seeds_thorough
  Quats <- Q12
  Bs <- BsAll
  Hkls <- H_thorough
