SPECIFICATION Spec
CONSTANTS
  NPix = {0, 1, 9, 10, 20}
  Chunks = {1, 9, 10, 100}
  Shapes <- MC_Shapes_quick
  RegSize <- MC_RegSize
  ByteOrders <- MC_BO_big
  Prev <- MC_Prev_none
  MaxGen = 1
  Bug = "none"
INVARIANT TypeOK
INVARIANT HeaderFirst
INVARIANT Sequential
INVARIANT BlockAtDeclaredPosition
INVARIANT Tiling
INVARIANT NothingSurvives
INVARIANT EachBlockOnce
INVARIANT CanonicalOrder
INVARIANT PixBytes
INVARIANT KindsAndSizes
INVARIANT ByteOrderReopened
INVARIANT EmitBehaviour
CHECK_DEADLOCK FALSE
