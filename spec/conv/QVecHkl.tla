------------------------------ MODULE QVecHkl ------------------------------
(* C08, second half: hkl from the momentum transfer.  State = crystal orientation U       *)
(* (quaternion), reciprocal-lattice matrix B (integer, non-singular), goniometer rotation  *)
(* R (quaternion).  Actions change one of them.  For every state and every hkl of the      *)
(* grid: inverting R U B once and applying it to Q_lab = 2 pi R U B hkl returns hkl;      *)
(* UB is the product U B; the product is associative.                                      *)
EXTENDS QVecDefs

CONSTANTS Quats, Bs, Hkls,
          Bug        \* "none" | "order" | "no_rotation" | "stale_rotation"

VARIABLES qr, qu, B,
          rused      \* the goniometer rotation the implementation actually uses when it inverts (history):
                     \* always qr, unless something derived from an earlier call is reused (Bug "stale_rotation":
                     \* the inverse is remembered per UB, so turning the goniometer alone goes unnoticed)
vars == <<qr, qu, B, rused>>

(* implementation-shaped matrix that gets inverted *)
IMat == IF Bug = "order" THEN MatMul(MatMul(QuatMat(qu), QuatMat(qr)), B)
        ELSE IF Bug = "no_rotation" THEN MatScale(QuatN(qr), UBNum(qu, B))
        ELSE MatMul(QuatMat(rused), UBNum(qu, B))       \* R * (U B): what hkl_vec_from_Q_vec forms
IDen == QuatN(rused) * QuatN(qu)

Init == qr \in Quats /\ qu \in Quats /\ B \in Bs /\ rused = qr
Goniometer == \E q \in Quats : qr' = q /\ rused' = (IF Bug = "stale_rotation" THEN rused ELSE q) /\ UNCHANGED <<qu, B>>
Orient     == \E q \in Quats : qu' = q /\ rused' = qr /\ UNCHANGED <<qr, B>>
Lattice_   == \E M \in Bs : B' = M /\ rused' = qr /\ UNCHANGED <<qr, qu>>
Next == Goniometer \/ Orient \/ Lattice_
Spec == Init /\ [][Next]_vars

-----------------------------------------------------------------------------
NonSingular == Det3(B) # 0 /\ Det3(RUBNum(qr, qu, B)) # 0

(* hkl = Solve(R UB, Q) for Q = R U B hkl *)
HklInverse ==
    \A h \in Hkls :
        Solve(IMat, IDen, QLabNum(qr, qu, B, h), RUBDen(qr, qu)) = RatVec(h, 1)

(* UB = U * B, and (R U) B = R (U B) *)
UBProduct == /\ RUBNum(qr, qu, B) = MatMul(QuatMat(qr), UBNum(qu, B))
             /\ Adj3(RUBNum(qr, qu, B)) = MatMul(Adj3(B), MatMul(Adj3(QuatMat(qu)), Adj3(QuatMat(qr))))

(* a rotation does not change the length of Q: |Q_lab|^2 = |U B hkl|^2 (scaled)           *)
RotationKeepsNorm ==
    \A h \in Hkls :
        Norm2(QLabNum(qr, qu, B, h)) = QuatN(qr) * QuatN(qr) * Norm2(MatVec(UBNum(qu, B), h))

(* whatever happened before, the rotation used is the current one *)
NoHistory == rused = qr

(* the coordinate-graph route beams -> Q -> hkl: lambda * hkl = Solve(R UB, e_i - e_f) solves     *)
(* R UB x = e_i - e_f exactly, for every pair of graph beams                                      *)
RatDot(row, x) == RatAdd(RatAdd(RatMul(<<row[1], 1>>, x[1]), RatMul(<<row[2], 1>>, x[2])), RatMul(<<row[3], 1>>, x[3]))
GraphRoute ==
    \A b1 \in GInc, b2 \in GSc :
        LET x == HklTimesLambda(qr, qu, B, b1, b2)
            A == RUBNum(qr, qu, B)
        IN  \A i \in 1..3 : RatDot(A[i], x) = RatMul(QDir(b1, b2)[i], <<RUBDen(qr, qu), 1>>)

(* split / reassemble of the hkl vector *)
Lossless == \A h \in Hkls : Join(Split(h)) = h /\ Split(h).x = h[1] /\ Split(h).y = h[2] /\ Split(h).z = h[3]
=============================================================================
