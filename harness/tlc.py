"""Run TLC / SANY under a timeout and parse what the checks need from the output."""

from __future__ import annotations

import json
import os
import re
import shutil
import subprocess
import time
import uuid
from dataclasses import dataclass, field
from pathlib import Path

from .core import SPEC, MachineryError

JAVA_CP = '/opt/veriftools/tla/tla2tools.jar:/opt/veriftools/tla/CommunityModules-deps.jar'


@dataclass
class TlcResult:
    ok: bool  # TLC finished without reporting an error
    rc: int
    generated: int = 0
    distinct: int = 0
    depth: int = 0
    out: str = ''
    printed: list = field(default_factory=list)  # parsed PrintT values (tuples as lists)
    error: str = ''  # 'invariant X violated' etc.
    actions: dict = field(default_factory=dict)  # action name -> (taken, distinct)
    wall: float = 0.0
    cmd: str = ''

    def tagged(self, tag):
        return [p for p in self.printed if isinstance(p, list) and p and p[0] == tag]


# ---------------------------------------------------------------- TLA+ value parser (PrintT output)
_tok = re.compile(
    r'\s*(<<|>>|\{|\}|\[|\]|\(|\)|,|\|->|:>|@@|"(?:[^"\\]|\\.)*"|-?\d+|[A-Za-z_][A-Za-z_0-9]*)'
)


def parse_tla(s: str):
    toks = _tok.findall(s)
    pos = 0

    def peek():
        return toks[pos] if pos < len(toks) else None

    def take(t=None):
        nonlocal pos
        v = toks[pos]
        if t is not None and v != t:
            raise ValueError(f'expected {t} got {v} in {s[:80]}')
        pos += 1
        return v

    def val():
        t = peek()
        if t == '<<':
            take()
            out = []
            while peek() != '>>':
                out.append(val())
                if peek() == ',':
                    take()
            take('>>')
            return out
        if t == '{':
            take()
            out = []
            while peek() != '}':
                out.append(val())
                if peek() == ',':
                    take()
            take('}')
            return {'$set': out}
        if t == '[':
            take()
            rec = {}
            while peek() != ']':
                k = take()
                take('|->')
                rec[k] = val()
                if peek() == ',':
                    take()
            take(']')
            return rec
        if t == '(':
            # function displayed as (a :> b @@ c :> d)
            take()
            fn = []
            while peek() != ')':
                k = val()
                take(':>')
                v = val()
                fn.append([k, v])
                if peek() == '@@':
                    take()
            take(')')
            return {'$fn': fn}
        take()
        if t.startswith('"'):
            return json.loads(t)
        if re.fullmatch(r'-?\d+', t):
            return int(t)
        if t == 'TRUE':
            return True
        if t == 'FALSE':
            return False
        return t

    v = val()
    return v


def _parse_printed(out: str):
    """PrintT lines may span several lines; collect balanced << >> / records starting a line."""
    printed = []
    buf = None
    depth = 0
    for line in out.splitlines():
        if buf is None:
            if line.startswith('<<') or line.startswith('[') and '|->' in line:
                buf = ''
                depth = 0
            else:
                continue
        buf += line + ' '
        depth += line.count('<<') + line.count('[') + line.count('{') + line.count('(')
        depth -= line.count('>>') + line.count(']') + line.count('}') + line.count(')')
        if depth <= 0:
            try:
                printed.append(parse_tla(buf))
            except Exception:  # noqa: BLE001
                pass
            buf = None
    return printed


_re_states = re.compile(r'(\d+) states generated, (\d+) distinct states found')
_re_depth = re.compile(r'depth of the complete state graph search is (\d+)')
_re_action = re.compile(r'^<(\w+) line \d+, col \d+ to line \d+, col \d+ of module (\w+)>: (\d+):(\d+)', re.M)


def sany(path: Path) -> None:
    p = subprocess.run(
        ['java', '-cp', JAVA_CP, 'tla2sany.SANY', path.name],
        cwd=path.parent, capture_output=True, text=True, timeout=120,
    )
    if p.returncode != 0 or 'error' in p.stdout.lower() and 'Semantic errors' in p.stdout:
        raise MachineryError(f'SANY failed on {path}:\n{p.stdout[-2000:]}')


def run(ctx, module: str, cfg: str | None = None, *, workers: int | str = 16, timeout: int = 900,
        env: dict | None = None, simulate: str | None = None, depth: int | None = None,
        coverage: bool = False, expect_error: bool = False, deadlock: bool = True,
        count: bool = True, extra: list | None = None, dfs: bool = False) -> TlcResult:
    """Run TLC on SPEC/<module> (e.g. 'chopper/Plateaus.tla').

    expect_error=True is for negative controls: TLC *must* report a violation; the states of
    such runs are not accumulated into the evidence.
    """
    mpath = SPEC / module
    if not mpath.exists():
        raise MachineryError(f'missing spec {mpath}')
    cfgpath = mpath.with_suffix('.cfg') if cfg is None else mpath.parent / cfg
    if not cfgpath.exists():
        raise MachineryError(f'missing cfg {cfgpath}')
    meta = ctx.tmp / f'tlc-{uuid.uuid4().hex}'   # unique also when drivers run TLC from several threads
    meta.mkdir(parents=True, exist_ok=True)
    jopts = ['-XX:+UseParallelGC', '-Xmx8g', '-Dtlc2.tool.fp.FPSet.impl=tlc2.tool.fp.OffHeapDiskFPSet']
    jopts = ['-XX:+UseParallelGC', '-Xmx8g']
    if dfs:
        jopts.append('-Dtlc2.tool.queue.IStateQueue=StateDeque')
    cmd = ['java', *jopts, '-cp', JAVA_CP, 'tlc2.TLC', '-workers', str(workers), '-metadir', str(meta),
           '-noGenerateSpecTE', '-config', str(cfgpath)]
    if not deadlock:
        cmd += ['-deadlock']
    if coverage:
        cmd += ['-coverage', '1']
    if simulate:
        cmd += ['-simulate', simulate]
    if depth:
        cmd += ['-depth', str(depth)]
    if extra:
        cmd += extra
    cmd += [mpath.name]
    e = dict(os.environ)
    e.pop('JAVA_TOOL_OPTIONS', None)
    if env:
        e.update({k: str(v) for k, v in env.items()})
    t0 = time.time()
    try:
        p = subprocess.run(cmd, cwd=mpath.parent, env=e, capture_output=True, text=True,
                           timeout=timeout)
    except subprocess.TimeoutExpired as ex:
        subprocess.run(['pkill', '-f', str(meta)], check=False)
        shutil.rmtree(meta, ignore_errors=True)
        raise MachineryError(f'TLC timeout after {timeout}s on {module}') from ex
    wall = time.time() - t0
    shutil.rmtree(meta, ignore_errors=True)
    out = p.stdout + p.stderr
    r = TlcResult(ok=False, rc=p.returncode, out=out, wall=wall, cmd=' '.join(cmd[0:1] + cmd[4:]))
    m = _re_states.findall(out)
    if m:
        r.generated, r.distinct = int(m[-1][0]), int(m[-1][1])
    m = _re_depth.search(out)
    if m:
        r.depth = int(m.group(1))
    for am in _re_action.finditer(out):
        r.actions[am.group(1)] = (int(am.group(3)), int(am.group(4)))
    r.printed = _parse_printed(out)
    finished = 'Model checking completed. No error has been found.' in out or (
        simulate is not None and 'Error' not in out and p.returncode == 0)
    r.ok = finished and p.returncode == 0
    if not r.ok:
        m = re.search(r'Error: (.*)', out)
        r.error = m.group(1).strip() if m else f'rc={p.returncode}'
        m2 = re.search(r'Invariant (\w+) is violated', out)
        if m2:
            r.error = f'Invariant {m2.group(1)} is violated'
        m3 = re.search(r'Action property (\w+) is violated', out) or re.search(
            r'Temporal properties were violated', out)
        if m3:
            r.error = m3.group(0)
    run_rec = {'module': module, 'cfg': cfgpath.name, 'generated': r.generated, 'distinct': r.distinct,
               'depth': r.depth, 'wall_s': round(wall, 2), 'ok': r.ok, 'negative_control': expect_error,
               'mode': 'simulate' if simulate else 'exhaustive'}
    if r.actions:
        run_rec['actions'] = {k: v[0] for k, v in r.actions.items()}
    ctx.tlc_runs.append(run_rec)
    if expect_error:
        if r.ok:
            raise MachineryError(
                f'negative control {module}/{cfgpath.name} was NOT rejected by TLC: the invariant is vacuous')
        if not (re.search(r'is violated', out) or 'Assumption' in out and 'is false' in out):
            raise MachineryError(
                f'negative control {module}/{cfgpath.name} failed for another reason: {r.error}\n{out[-1500:]}')
        return r
    # an evaluation error / parse error is a machinery failure, a property violation is a result
    if not r.ok and not re.search(r'is violated|Assumption .* is false|Deadlock reached', out):
        raise MachineryError(f'TLC failed on {module}/{cfgpath.name}: {r.error}\n{out[-3000:]}')
    if count:
        ctx.states += r.generated
        ctx.distinct_states += r.distinct
        ctx.transitions += max(r.generated - 1, 0)
    return r


def require_ok(ctx, res: TlcResult, what: str):
    """The *model* violating its own invariant on the unchanged spec is a machinery failure
    (the spec is wrong), not a verdict about the code."""
    if not res.ok:
        raise MachineryError(f'{what}: TLC reported: {res.error}\n{res.out[-3000:]}')


def require_actions(res: TlcResult, names):
    missing = [n for n in names if res.actions.get(n, (0, 0))[0] == 0]
    if missing:
        raise MachineryError(f'vacuity: actions never taken: {missing}')


def write_ndjson(path: Path, records):
    with open(path, 'w') as f:
        for r in records:
            f.write(json.dumps(r) + '\n')
