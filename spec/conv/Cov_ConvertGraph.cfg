SPECIFICATION Spec
CONSTANTS
  Heads <- AllHeads
  Masks <- MC_NegMasks
  Bug = "none"
INVARIANT TypeOK
INVARIANT OutcomeIsDeclarative
