"""C05 — inelastic energy transfer conserves energy; NaN exactly for unphysical times; never infinite.

Spec: spec/conv/KinematicsInel.tla (flight of a neutron source -> sample -> detector, recording of
an arrival time, conversion), KinematicsInelDefs.tla (documented kernels in exact rationals, class
abstraction nan / num / inf), Trace_KinematicsInel.tla (judge of recorded executions).

1. TLC, exhaustive over rational speeds x integer lengths: the clock at the detector is
   L1/v(Ei) + L2/v(Ef) and later than t0 of either leg; both kernels return exactly Ei - Ef there
   (EnergyConservation); the class is NaN iff t <= t0 (Boundary) and never Inf (NoInf); the same pair
   of energies is then flown to a second detector bank (other L1, L2) and converted with the same
   supplied energy, with the same invariants (second use).
   Negative controls: `<` instead of `<=` at the boundary (yields Inf at t = t0); a t0 remembered per
   supplied energy and reused for the second bank (stale_t0).
2. spec -> code (M1): every flight TLC enumerates (with its exact Ei - Ef and its exact arrival time)
   is replayed into energy_transfer_direct_from_tof / energy_transfer_indirect_from_tof and into
   convert(..., 'energy_transfer'), with the supplied energy in ueV / meV / eV / keV / J, every length
   and time unit, float32 / float64 operands (all eight combinations), and the layouts
     scalar | dense (1-d tof, scalar lengths) | pixels (2-d tof, per-pixel lengths, one supplied energy or one
     per pixel; also with the dims
     listed in the other order, as a transposed view and as a window of a larger table) |
     bcast (1-d or 0-d tof shared by pixels with per-pixel lengths: flights of the specification that
     arrive at the same time at different pixels, so that the result is the 2-d broadcast) |
     events (tof as event data binned over the pixels, also with events outside the bins) |
     convert (dense and event data).
   Energies and lengths are spec rationals times scale factors with short mantissas, so the floats
   handed over are the spec values exactly and the expected result is the spec's rational times the
   energy scale.
3. code -> spec (M2): every real call is one NDJSON event judged by TLC; boundary scans step through
   the 33 floats around the exact t0 plus far points, listed in ascending, descending or shuffled
   order; TLC applies the specification's class rule to the side of every scanned time.
4. second use: every second call takes the supplied energy (and the lengths) from variable objects
   that live across calls and are overwritten in place; the same energy is supplied again with other
   lengths / length units (one instrument, several detector banks); at the end of the run a sample of
   the flight blocks and scans is replayed and judged once more in another order.

Numeric parts decided by the harness, not by TLC: the arrival time (irrational, 60-digit mpmath, rounded
once to the operand dtype), the closeness bound and the side of a scanned time relative to t0.
Bound for the returned energy transfer (derived, not tuned): the result is  E_fix -/+ E_var'  with
E_var' = m L^2 / (2 (t - t0)^2); a relative perturbation eps of t (rounding of the arrival time to a
float) changes E_var' by 2 eps t/(t - t0), so  |result - (Ei - Ef)| <= tau (E_fix + E_var (1 + 2 t/(t - t0)))
with tau = 1e-11 (double) / 1e-5 (single): the accumulated-rounding figures of the property family (C01).
Guard band at the NaN boundary (DESIGN §3.4): +-8 eps around the exact t0; inside it NaN or a number
is accepted, +-inf never.  For operand units other than (s, m, J) the implementation has to convert
m_n/2 into a derived unit and scipp's own conversion factors are only accurate to ~1e-13, so the
band is widened there by 1e-11 (documented deviation); points at 2^-30 ... 2^-3 relative distance
are scanned in addition so that both sides outside the band are always exercised.
"""

from __future__ import annotations

import os
from fractions import Fraction

import mpmath
import numpy as np
import scipp as sc

from .. import lib_conv as lc
from ..core import MachineryError
from ..refmap import MN, check_constants, mpf
from ..tlc import require_ok

TAU = {'float64': 1e-11, 'float32': 1e-5}
EPS = {'float64': 2.0 ** -52, 'float32': 2.0 ** -23}
BAND_ULPS = 8
UNIT_ALLOWANCE = 1e-11
ENERGY_UNITS = ('ueV', 'meV', 'eV', 'keV', 'J')
LAYOUTS = ('scalar', 'dense', 'pixels', 'bcast', 'events', 'convert')
RULE = ('flight (vi, vf, L1, L2, geometry) enumerated by TLC x energy unit x length units x tof unit x '
        'operand dtypes (8 combinations) x layout {scalar, dense, per-pixel (plain / dims in the other order / '
        'transposed view / window), broadcast of a shared time axis over per-pixel lengths, event data, '
        'convert() on dense and event data}; boundary scans: 33 adjacent floats around the exact t0 + far points '
        '(ascending / descending / shuffled) + exact-boundary family (E = m_n 2^(2j-1) J, dyadic L, seconds); '
        'operand objects reused across calls, the same energy supplied again with other lengths; a sample '
        'replayed at the end in another order. non-trivial = call returned and (flight: Ei != Ef or elastic '
        'line; scan: both NaN and numbers occur), distinct by all of the above')


short = lc.short


def speed(E_SI):
    return mpmath.sqrt(2 * E_SI / mpf(MN))


def prec_of(*dts):
    return 'float32' if 'float32' in dts else 'float64'


def kernel(mode):
    from scippneutron.conversion import tof as K

    return K.energy_transfer_direct_from_tof if mode == 'direct' else K.energy_transfer_indirect_from_tof


const_class = lc.const_class


def cls_of(arr) -> list[str]:
    try:
        return [lc.classify(float(v)) for v in np.asarray(arr, dtype='float64').ravel()]
    except Exception:  # noqa: BLE001   (non-numeric result: no class is allowed for it)
        return ['malformed']


def worst_cls(classes):
    for c in ('malformed', 'inf', 'nan'):
        if c in classes:
            return c
    return 'num'


# ------------------------------------------------------------------------------------ flights
class Flights:
    def __init__(self, printed):
        self.tab = {}
        self.arrival = {}
        for p in printed:
            if isinstance(p, list) and p and p[0] == 'FLIGHT':
                _, vi, vf, L1, L2, mode, val, clock = p
                key = (Fraction(*vi), Fraction(*vf), L1, L2, mode)
                self.tab[key] = Fraction(*val)
                self.arrival[key] = Fraction(*clock)
        if not self.tab:
            raise MachineryError('specification emitted no flights')
        self.speeds = sorted({k[0] for k in self.tab})
        self.lengths = sorted({k[2] for k in self.tab})
        for (vi, vf, L1, L2, _m), t in self.arrival.items():
            if t != Fraction(L1) / vi + Fraction(L2) / vf:
                raise MachineryError('arrival time emitted by the specification is not L1/vi + L2/vf')
        # flights of the specification that reach different pixels at the same time (same supplied
        # energy): (mode, v_fix) -> {arrival time -> {(L1, L2): v_var}}
        self.same_time: dict = {}
        for (vi, vf, L1, L2, m), t in self.arrival.items():
            v_fix, v_var = (vi, vf) if m == 'direct' else (vf, vi)
            self.same_time.setdefault((m, v_fix), {}).setdefault(t, {})[(L1, L2)] = v_var

    def key(self, mode, v_fix, v_var, L1, L2):
        return (v_fix, v_var, L1, L2, mode) if mode == 'direct' else (v_var, v_fix, L1, L2, mode)

    def shared_axis(self, rng, mode, v_fix, npix, nx):
        """Pixels (L1, L2) and arrival times such that every (pixel, time) is a flight of the specification."""
        from itertools import combinations

        times = self.same_time[(mode, v_fix)]
        for k in range(min(nx, len(times)), 0, -1):
            cands = []
            for ts in combinations(sorted(times), k):
                common = set.intersection(*(set(times[t]) for t in ts))
                if len(common) >= npix:
                    cands.append((ts, sorted(common)))
                if len(cands) > 200:
                    break
            if cands:
                ts, common = rng.choice(cands)
                ts = list(ts)
                rng.shuffle(ts)
                pix = rng.sample(common, npix)
                return pix, ts, [[times[t][p] for t in ts] for p in pix]
        return None


class Last:
    """What the previous call of the same kind was given (second use: same energy, other lengths)."""

    def __init__(self):
        self.energy: dict = {}
        self.pool = lc.OperandPool()


def draw_flight(ctx, fl, mode, layout, dts, units, last):
    """Parameters of one real call on a block of TLC flights sharing the supplied energy."""
    rng = ctx.rng
    dt_t, dt_E, dt_L = dts
    eunit, u1, u2, tunit = units
    variant = ''
    if layout == 'pixels':
        variant = rng.choice(['', 'T', 'view', 'slice'])
    elif layout == 'bcast':
        variant = rng.choice(['', '', 'scalar-tof'])
    elif layout in ('events', 'convert'):
        variant = rng.choice(['', 'gaps']) if layout == 'events' else rng.choice(['', 'events'])
    nx = 1 if layout == 'scalar' or variant == 'scalar-tof' else (3 if layout == 'bcast' else min(4, len(fl.speeds)))
    npix = {'scalar': 1, 'dense': 1, 'pixels': 3, 'bcast': 2, 'events': 3, 'convert': 3}[layout]
    if variant in ('T', 'view', 'slice'):
        npix, nx = 2, 3                  # npix != nx: a transposed table cannot pass for the table
    reuse = last.energy.get((eunit, dt_E)) if rng.random() < 0.5 else None
    if reuse:
        # the energy supplied by the previous call in this unit / dtype, now with other lengths / units
        kappa, v_fix = reuse
    else:
        v_fix = rng.choice(fl.speeds)
        # energy scale: natural energy 1 <-> kappa [eunit]; 8-bit mantissa keeps v^2/2 * kappa exact in float32
        kappa_meV = 10 ** rng.uniform(-1.4, 3.0)   # Ei, Ef stay inside 1e-3..1e4 meV
        kappa = short(kappa_meV * float(lc.si('meV') / lc.si(eunit)), 8)
    last.energy[(eunit, dt_E)] = (kappa, v_fix)
    if layout == 'bcast':
        got = fl.shared_axis(rng, mode, v_fix, npix, nx)
        if got is None:
            return None
        pix, _ts, v_var = got
        nx = len(v_var[0])
        if nx == 1:
            variant = 'scalar-tof' if rng.random() < 0.5 else '1-tof'      # a 0-d / one-element time axis
        u2 = u1                          # one physical scale for both legs keeps the coincidence exact
    else:
        row = rng.sample(fl.speeds, nx)
        pix = [(rng.choice(fl.lengths), rng.choice(fl.lengths)) for _ in range(npix)]
        if layout == 'convert':          # one beamline: L1 common to all pixels
            pix = [(pix[0][0], p[1]) for p in pix]
            u2 = u1
        if layout in ('pixels', 'events', 'convert'):
            v_var = [[row[(x + p) % nx] for x in range(nx)] for p in range(npix)]   # every pixel its own axis
        else:
            v_var = [list(row) for _ in range(npix)]
    s1 = short(10 ** rng.uniform(-1, 1.9) / float(lc.si(u1)), 8)
    s2 = s1 if layout == 'bcast' else short(10 ** rng.uniform(-1, 1.9) / float(lc.si(u2)), 8)
    # the supplied energy is one number for the instrument, or one per pixel (analysers of an indirect-geometry
    # spectrometer, repetition-rate multiplication on a direct-geometry one)
    v_fix_p = [v_fix] * npix
    if layout in ('pixels', 'events') and rng.random() < 0.4:
        v_fix_p = [rng.choice(fl.speeds) for _ in range(npix)]
        v_fix_p[0] = v_fix
    return {'mode': mode, 'layout': layout, 'variant': variant, 'dts': tuple(dts), 'units': (eunit, u1, u2, tunit),
            'v_fix': v_fix, 'v_fix_p': v_fix_p, 'energy_per_pixel': len(set(v_fix_p)) > 1 or (
                layout in ('pixels', 'events') and rng.random() < 0.1),
            'v_var': v_var, 'pix': pix, 'kappa': kappa, 's1': s1, 's2': s2,
            'pooled': rng.random() < 0.5, 'same_energy_as_previous_call': bool(reuse),
            'gaps': [rng.randrange(3) for _ in range(npix + 1)] if variant in ('gaps', 'events') else None}


def run_flight(ctx, fl, prm, last, events, details, tid, again=False):
    """One real call on a block of TLC flights; one event.  Returns True if the call returned."""
    mode, layout, variant = prm['mode'], prm['layout'], prm['variant']
    dt_t, dt_E, dt_L = dts = prm['dts']
    prec = prec_of(*dts)
    eunit, u1, u2, tunit = prm['units']
    v_fix, v_var, pix, kappa, s1, s2 = (prm[k] for k in ('v_fix', 'v_var', 'pix', 'kappa', 's1', 's2'))
    v_fix_p, e_per_pixel = prm['v_fix_p'], prm['energy_per_pixel']
    npix, nx = len(pix), len(v_var[0])

    def energy(v):
        x = Fraction(v) ** 2 / 2 * Fraction(kappa)
        xf = np.asarray(float(x)).astype(dt_E)
        if Fraction(float(xf)) != x:
            raise MachineryError(f'energy {x} not exactly representable as {dt_E}')
        return x

    E_fix_p = [energy(v) for v in v_fix_p]
    E_var = [[energy(v) for v in row] for row in v_var]
    L1v = [Fraction(p[0]) * Fraction(s1) for p in pix]
    L2v = [Fraction(p[1]) * Fraction(s2) for p in pix]
    for L in L1v + L2v:
        if Fraction(float(np.asarray(float(L)).astype(dt_L))) != L:
            raise MachineryError(f'length {L} not exactly representable as {dt_L}')
    # arrival times
    tof = np.empty((npix, nx))
    ratio = np.empty((npix, nx))   # t / (t - t0)
    for p in range(npix):
        L1_SI, L2_SI = mpf(L1v[p] * lc.si(u1)), mpf(L2v[p] * lc.si(u2))
        E_fix_SI = mpf(E_fix_p[p] * lc.si(eunit))
        for x in range(nx):
            Ev_SI = mpf(E_var[p][x] * lc.si(eunit))
            if mode == 'direct':
                t0, tv = L1_SI / speed(E_fix_SI), L2_SI / speed(Ev_SI)
            else:
                t0, tv = L2_SI / speed(E_fix_SI), L1_SI / speed(Ev_SI)
            tof[p, x] = float((t0 + tv) / mpf(lc.si(tunit)))
            ratio[p, x] = float((t0 + tv) / tv)
    tof = lc.cast_values(tof, dt_t)
    if layout == 'bcast' and not all(np.array_equal(tof[0], tof[p]) for p in range(npix)):
        # the flights coincide exactly in the specification; as floats the rows may differ in the last place
        # (irrational factor rounded per pixel): hand over row 0, the bound below covers one rounding of t
        if float(np.max(np.abs(tof - tof[0]) / tof[0])) > 4 * EPS[dt_t]:
            raise MachineryError('coincident flights of the specification do not coincide in the harness')
    # expected = spec rational * kappa (exactly the difference of the floats handed over / implied)
    want = np.empty((npix, nx), dtype=object)
    for p in range(npix):
        for x in range(nx):
            w = fl.tab[fl.key(mode, v_fix_p[p], v_var[p][x], pix[p][0], pix[p][1])] * Fraction(kappa)
            chk = (E_fix_p[p] - E_var[p][x]) if mode == 'direct' else (E_var[p][x] - E_fix_p[p])
            if w != chk:
                raise MachineryError('refinement mapping inconsistent: spec dE * kappa != Ei - Ef')
            want[p, x] = w
    via = 'convert' if layout == 'convert' else 'kernel'
    ev = {'ev': 'flight', 'tid': tid, 'mode': mode, 'via': via, 'layout': layout + ('/' + variant if variant else ''),
          'status': 'ok', 'unit_in': eunit, 'unit_out': '', 'cls': 'num', 'close': True, 'shape_ok': True,
          'again': bool(again), 'energy_per_pixel': bool(e_per_pixel)}
    det = {'layout': ev['layout'], 'dtypes(tof,E,L)': dts, 'units(E,L1,L2,tof)': [eunit, u1, u2, tunit],
           'v_fix': str(v_fix) if not e_per_pixel else str([str(v) for v in v_fix_p]), 'v_var': [[str(v) for v in row] for row in v_var], 'pixels(L1,L2)': pix,
           'kappa': kappa, 's1': s1, 's2': s2, 'const_class': const_class(dt_E, eunit, tunit, (u1, u2)),
           'operand_objects_reused': prm['pooled'], 'same_energy_as_previous_call': prm['same_energy_as_previous_call']}
    ename = 'incident_energy' if mode == 'direct' else 'final_energy'

    def operand(name, values, dims, unit, dt):
        if prm['pooled']:
            return last.pool.get(name, values, dims, unit, dt)
        return lc.var(values, dims, unit, dt)

    E_sc = operand('E', [float(e) for e in E_fix_p], ['spectrum'], eunit, dt_E) if e_per_pixel else operand(
        'E', float(E_fix_p[0]), [], eunit, dt_E)
    try:
        if layout == 'convert':
            import scippneutron as scn

            z = sc.vector([0.0, 0.0, 1.0])
            xdir = sc.vector([1.0, 0.0, 0.0])
            coords = {'source_position': (-float(L1v[0])) * z * sc.scalar(1.0, unit=lc.scu(u1)),
                      'sample_position': 0.0 * z * sc.scalar(1.0, unit=lc.scu(u1)),
                      'position': sc.concat([float(L) * xdir for L in L2v], 'spectrum')
                      * sc.scalar(1.0, unit=lc.scu(u2)),
                      ename: E_sc}
            if variant == 'events':
                tb = lc.binned_var(tof, tunit, dt_t, prm['gaps'])
                parts = tb.bins.constituents
                buf = sc.DataArray(sc.ones(dims=['event'], shape=[parts['data'].sizes['event']]),
                                   coords={'tof': parts['data']})
                da = sc.DataArray(sc.bins(begin=parts['begin'], end=parts['end'], dim='event', data=buf),
                                  coords=coords)
                out = scn.convert(da, origin='tof', target='energy_transfer', scatter=True)
                res = out.bins.coords['energy_transfer']
            else:
                da = sc.DataArray(sc.ones(dims=['spectrum', 'tof'], shape=[npix, nx]),
                                  coords=dict(coords, tof=lc.var(tof, ['spectrum', 'tof'], tunit, dt_t)))
                out = scn.convert(da, origin='tof', target='energy_transfer', scatter=True)
                res = out.coords['energy_transfer']
            dims_in = None        # convert() may rename the time dim: only the shape is looked at
        else:
            if layout == 'scalar':
                kw = {'tof': lc.var(tof[0, 0], [], tunit, dt_t), 'L1': operand('L1', float(L1v[0]), [], u1, dt_L),
                      'L2': operand('L2', float(L2v[0]), [], u2, dt_L)}
            elif layout == 'dense':
                kw = {'tof': lc.var(tof[0], ['tof'], tunit, dt_t), 'L1': operand('L1', float(L1v[0]), [], u1, dt_L),
                      'L2': operand('L2', float(L2v[0]), [], u2, dt_L)}
            else:
                if layout == 'bcast':
                    t_op = lc.var(tof[0, 0], [], tunit, dt_t) if variant == 'scalar-tof' else lc.var(
                        tof[0], ['tof'], tunit, dt_t)
                elif layout == 'events':
                    t_op = lc.binned_var(tof, tunit, dt_t, prm['gaps'])
                elif variant:
                    t_op = lc.strided_view(tof, ['spectrum', 'tof'], tunit, dt_t, variant)
                else:
                    t_op = lc.var(tof, ['spectrum', 'tof'], tunit, dt_t)
                kw = {'tof': t_op,
                      'L1': operand('L1', [float(v) for v in L1v], ['spectrum'], u1, dt_L),
                      'L2': operand('L2', [float(v) for v in L2v], ['spectrum'], u2, dt_L)}
            kw[ename] = E_sc
            dims_in = set().union(*(set(v.dims) for v in kw.values()))
            snapshot = {k: v.copy() for k, v in kw.items()}
            res = kernel(mode)(**kw)
            for k, v in kw.items():
                if not sc.identical(v, snapshot[k]):
                    raise RuntimeError(f'operand {k} was modified by the call')
    except Exception as e:  # noqa: BLE001
        ev['status'] = 'raised'
        det['exc'] = repr(e)[:300]
        events.append(ev)
        details.append(det)
        return False
    vals = None
    try:
        ev['unit_out'] = lc.elem_unit_name(res)
        binned_in = layout == 'events' or (layout, variant) == ('convert', 'events')
        if lc.is_binned(res) != binned_in or (dims_in is not None and set(res.dims) != dims_in):
            ev['shape_ok'] = False
        elif lc.is_binned(res):
            rows = lc.bin_rows(res)
            if len(rows) == npix and all(len(r) == nx for r in rows):
                vals = np.asarray(rows, dtype='float64')
        else:
            v = res.values if res.ndim else np.asarray(res.value)
            if res.ndim == 2 and list(res.dims)[1] == 'spectrum':
                v = np.asarray(v).T
            elif res.ndim == 1 and list(res.dims) == ['spectrum']:
                v = np.asarray(v)[:, None]
            v = np.asarray(v, dtype='float64')
            if v.size == npix * nx:
                vals = v.reshape(npix, nx)
    except Exception as e:  # noqa: BLE001
        det['exc'] = f'malformed result: {e!r}'[:300]
    if vals is None:
        ev['shape_ok'] = False
        det.setdefault('exc', f'result dims {getattr(res, "sizes", None)} for operand dims {sorted(dims_in or [])}, '
                              f'{npix} pixels x {nx} times')
        events.append(ev)
        details.append(det)
        return False
    ev['cls'] = worst_cls(cls_of(vals))
    tau = TAU[prec]
    worst = 0.0
    for p in range(npix):
        for x in range(nx):
            if not np.isfinite(vals[p, x]):
                ev['close'] = False
                continue
            bound = tau * (float(E_fix_p[p]) + float(E_var[p][x]) * (1 + 2 * ratio[p, x]))
            err = abs(Fraction(float(vals[p, x])) - want[p, x])
            r = float(err) / bound
            if r > worst:
                worst = r
                det['worst'] = {'got': float(vals[p, x]), 'want': float(want[p, x]), 'bound': bound,
                                'Ei_or_Ef_supplied': float(E_fix_p[p]), 'other_energy': float(E_var[p][x]),
                                'tof': float(tof[p, x]), 'L1': float(L1v[p]), 'L2': float(L2v[p])}
    ev['close'] = bool(ev['close'] and worst <= 1.0)
    det['worst_error_over_bound'] = worst
    events.append(ev)
    details.append(det)
    return True


# ------------------------------------------------------------------------------------ scans
def run_scan(ctx, prm, last, events, details, tid, again=False):
    """Scan arrival times around the exact t0 of the fixed-energy leg (one real call)."""
    mode, E_val, eunit, Lfix, ufix, Lvar, uvar, tunit, dts, t0_exact, coherent = (
        prm[k] for k in ('mode', 'E', 'eunit', 'Lfix', 'ufix', 'Lvar', 'uvar', 'tunit', 'dts', 't0_exact',
                         'coherent'))
    dt_t, dt_E, dt_L = dts
    prec = prec_of(*dts)
    E_SI = mpf(Fraction(E_val) * lc.si(eunit))
    L_SI = mpf(Fraction(Lfix) * lc.si(ufix))
    t0 = mpf(t0_exact) if t0_exact is not None else L_SI / speed(E_SI)
    tu = mpf(lc.si(tunit))
    f = np.asarray(float(t0 / tu)).astype(dt_t)[()]
    pts = [f]
    lo = hi = f
    zero = f.dtype.type(0)
    inf = f.dtype.type(np.inf)
    for _ in range(16):
        lo = np.nextafter(lo, zero)
        hi = np.nextafter(hi, inf)
        pts += [lo, hi]
    for k in (30, 20, 10, 3):
        pts += [f.dtype.type(float(f) * (1 - 2.0 ** -k)), f.dtype.type(float(f) * (1 + 2.0 ** -k))]
    pts += [zero, f.dtype.type(float(f) / 2), f.dtype.type(float(f) * 3)]
    pts = sorted(set(float(p) for p in pts))
    # a time axis need not be sorted (item "listing order"): the order is part of the scan's parameters
    pts = [pts[i] for i in prm['order']] if len(prm['order']) == len(pts) else pts
    band = BAND_ULPS * EPS[prec] + (0.0 if coherent else UNIT_ALLOWANCE)
    sides = []
    for p in pts:
        pe = Fraction(p) * lc.si(tunit)
        if t0_exact is not None and pe == t0_exact:
            sides.append('at')
            continue
        rel = (mpf(pe) - t0) / t0
        sides.append('band' if abs(rel) <= band else ('below' if rel < 0 else 'above'))
    ename = 'incident_energy' if mode == 'direct' else 'final_energy'

    def operand(name, value, unit, dt):
        if prm['pooled']:
            return last.pool.get(name, value, [], unit, dt)
        return lc.var(value, [], unit, dt)

    kw = {'tof': lc.var(np.asarray(pts), ['tof'], tunit, dt_t), ename: operand('E', E_val, eunit, dt_E)}
    kw['L1' if mode == 'direct' else 'L2'] = operand('L1' if mode == 'direct' else 'L2', Lfix, ufix, dt_L)
    kw['L2' if mode == 'direct' else 'L1'] = operand('L2' if mode == 'direct' else 'L1', Lvar, uvar, dt_L)
    ev = {'ev': 'scan', 'tid': tid, 'mode': mode, 'status': 'ok', 'unit_in': eunit, 'unit_out': '',
          'sides': sides, 'cls': [], 'order': prm['order_name'], 'again': bool(again)}
    det = {'dtypes(tof,E,L)': dts, 'units(E,Lfix,Lvar,tof)': [eunit, ufix, uvar, tunit], 'E': E_val,
           'Lfix': Lfix, 'Lvar': Lvar, 't0': mpmath.nstr(t0 / tu, 25), 'times': pts,
           'exact_boundary_family': t0_exact is not None, 'band_rel': band,
           'const_class': const_class(dt_E, eunit, tunit, (ufix, uvar)), 'operand_objects_reused': prm['pooled']}
    try:
        res = kernel(mode)(**kw)
        ev['unit_out'] = lc.elem_unit_name(res)
        ev['cls'] = cls_of(res.values)
        det['values'] = [float(v) for v in np.asarray(res.values, dtype='float64').ravel()]
    except Exception as e:  # noqa: BLE001
        ev['status'] = 'raised'
        ev['cls'] = []
        det['exc'] = repr(e)[:300]
        events.append(ev)
        details.append(det)
        return
    events.append(ev)
    details.append(det)
    both = 'nan' in ev['cls'] and 'num' in ev['cls']
    ctx.case(nontrivial_id=('scan', mode, dts, eunit, ufix, uvar, tunit, E_val, Lfix, prm['order_name'])
             if both and not again else None)


N_SCAN_POINTS = 44      # upper bound of distinct points of one scan (33 neighbours + 8 + 3)


def draw_order(rng):
    """Order in which the scanned times are listed: as a permutation of the sorted points (applied only if
    its length matches, i.e. drawn lazily by run_scan through `order_for`)."""
    return rng.choice(['ascending', 'descending', 'shuffled', 'shuffled'])


def order_for(rng, name, n):
    idx = list(range(n))
    if name == 'descending':
        idx.reverse()
    elif name == 'shuffled':
        rng.shuffle(idx)
    return idx


def n_points(prm):
    """Number of distinct scan points of a scan (depends on the dtype only through coincidences): computed by
    a dry run of the point construction."""
    dt_t = prm['dts'][0]
    E_SI = mpf(Fraction(prm['E']) * lc.si(prm['eunit']))
    t0 = mpf(prm['t0_exact']) if prm['t0_exact'] is not None else mpf(
        Fraction(prm['Lfix']) * lc.si(prm['ufix'])) / speed(E_SI)
    f = np.asarray(float(t0 / mpf(lc.si(prm['tunit'])))).astype(dt_t)[()]
    pts = [f]
    lo = hi = f
    for _ in range(16):
        lo = np.nextafter(lo, f.dtype.type(0))
        hi = np.nextafter(hi, f.dtype.type(np.inf))
        pts += [lo, hi]
    for k in (30, 20, 10, 3):
        pts += [f.dtype.type(float(f) * (1 - 2.0 ** -k)), f.dtype.type(float(f) * (1 + 2.0 ** -k))]
    pts += [f.dtype.type(0), f.dtype.type(float(f) / 2), f.dtype.type(float(f) * 3)]
    return len(set(float(p) for p in pts))


def run(ctx):
    ctx.rule = RULE
    check_constants()
    ctx.assume('m_n is the float scipp.constants exposes, taken as an exact rational; eV = 1.602176634e-19 J')
    ctx.assume('energies / lengths handed to the code are spec rationals times 8-bit scale factors, exactly '
               'representable in the operand dtype; the arrival time is rounded once to the tof dtype')
    ctx.assume('NaN boundary: guard band of +-8 eps (eps of the coarsest operand dtype) around the exact t0, '
               'widened by 1e-11 when operand units are not (s, m, J) because scipp converts m_n/2 into a '
               'derived unit with ~1e-13 accuracy; +-inf is never accepted')
    ctx.assume('the result of a call has the dims of its operands (in any order) and is event data iff the '
               'arrival times are: needed to address "the result for pixel p and time x"')
    rng = ctx.rng
    workers = int(os.environ.get('VERIF_TLC_WORKERS', 16))   # other builders share the machine
    # ---- 1. design
    cfg = 'MC_KinematicsInel_thorough.cfg' if ctx.thorough else 'MC_KinematicsInel.cfg'
    res = ctx.tlc('conv/MC_KinematicsInel.tla', cfg, workers=workers, timeout=1200)
    require_ok(ctx, res, 'KinematicsInel model')
    ctx.tlc('conv/MC_KinematicsInel.tla', 'Neg_KinematicsInel.cfg', workers=4, expect_error=True, timeout=300)
    ctx.tlc('conv/MC_KinematicsInel.tla', 'Neg_KinematicsInel_stale_t0.cfg', workers=4, expect_error=True,
            timeout=300)
    ecfg = 'Emit_KinematicsInel_thorough.cfg' if ctx.thorough else 'Emit_KinematicsInel.cfg'
    em = ctx.tlc('conv/MC_KinematicsInel.tla', ecfg, workers=1, timeout=1200, count=False)
    require_ok(ctx, em, 'KinematicsInel flight emission')
    fl = Flights(em.printed)
    ctx.extra['spec_flights'] = len(fl.tab)
    ctx.extra['spec_arrival_times_shared_by_several_pixels'] = sum(
        1 for d in fl.same_time.values() for pixels in d.values() if len(pixels) > 1)

    # ---- 2. flights through the real kernels and convert()
    events, details = [], []
    tid = 0
    last = Last()
    # all-single first, all-double second (hostile order for anything remembered between calls), then the mixtures
    dt_combos = [(a, b, c) for a in ('float32', 'float64') for b in ('float32', 'float64')
                 for c in ('float32', 'float64')]
    dt_combos.insert(1, dt_combos.pop())
    nrep = 8 if ctx.thorough else 2
    returned = 0
    by_layout: dict = {}
    done_flights, done_scans = [], []
    for mode in ('direct', 'indirect'):
        for layout in LAYOUTS:
            for dts in dt_combos:
                for eunit in ENERGY_UNITS:
                    for _ in range(nrep):
                        units = (eunit, rng.choice(lc.LENGTH_UNITS), rng.choice(lc.LENGTH_UNITS),
                                 rng.choice(lc.TIME_UNITS))
                        prm = draw_flight(ctx, fl, mode, layout, dts, units, last)
                        if prm is None:
                            continue
                        n0 = len(events)
                        ok = run_flight(ctx, fl, prm, last, events, details, tid)
                        returned += bool(ok)
                        by_layout[events[n0]['layout']] = by_layout.get(events[n0]['layout'], 0) + bool(ok)
                        ctx.case(nontrivial_id=(mode, events[n0]['layout'], dts, prm['units'], details[-1]['v_fix'],
                                                str(details[-1]['v_var'])) if ok else None)
                        if ok:
                            done_flights.append(prm)
                        if tid < 2:
                            ctx.sample({'event': events[n0], 'context': details[n0]})
                        tid += 1
    n_flight_calls = tid
    ctx.extra['flight_calls'] = tid
    ctx.extra['flight_calls_returned'] = returned
    ctx.extra['flight_calls_returned_by_layout'] = dict(sorted(by_layout.items()))
    ctx.extra['flight_calls_with_one_supplied_energy_per_pixel'] = sum(
        1 for e in events if e.get('energy_per_pixel') and e['status'] == 'ok')

    # ---- 3. boundary scans
    nscan = 40 if ctx.thorough else 10
    n_scan0 = len(events)

    def do_scan(prm):
        nonlocal tid
        prm['order_name'] = draw_order(rng)
        prm['order'] = order_for(rng, prm['order_name'], n_points(prm))
        prm['pooled'] = rng.random() < 0.5
        run_scan(ctx, prm, last, events, details, tid)
        done_scans.append(prm)
        tid += 1

    for mode in ('direct', 'indirect'):
        for dts in dt_combos:
            for _ in range(nscan):
                eunit = rng.choice(ENERGY_UNITS)
                ufix, uvar, tunit = rng.choice(lc.LENGTH_UNITS), rng.choice(lc.LENGTH_UNITS), rng.choice(lc.TIME_UNITS)
                if rng.random() < 0.25:
                    eunit, ufix, tunit = 'J', 'm', 's'
                E_meV = 10 ** rng.uniform(-3, 4)
                E_val = float(np.asarray(short(E_meV * float(lc.si('meV') / lc.si(eunit)), 20)).astype(dts[1]))
                Lfix = float(np.asarray(short(10 ** rng.uniform(-1, 3) / float(lc.si(ufix)), 12)).astype(dts[2]))
                Lvar = float(np.asarray(short(10 ** rng.uniform(-1, 3) / float(lc.si(uvar)), 12)).astype(dts[2]))
                do_scan({'mode': mode, 'E': E_val, 'eunit': eunit, 'Lfix': Lfix, 'ufix': ufix, 'Lvar': Lvar,
                         'uvar': uvar, 'tunit': tunit, 'dts': dts, 't0_exact': None,
                         'coherent': (eunit, ufix, tunit) == ('J', 'm', 's')})
        # exact boundary family: E = m_n 2^(2j-1) J  =>  v = 2^j m/s exactly, t0 = L / 2^j exactly
        for dts in (('float64', 'float64', 'float64'), ('float32', 'float64', 'float64'),
                    ('float32', 'float64', 'float32')):
            for j in range(4, 16):
                E_val = float(MN * 2 ** (2 * j - 1))
                if Fraction(E_val) != MN * 2 ** (2 * j - 1):
                    raise MachineryError('exact family: energy not representable')
                for _ in range(4 if ctx.thorough else 1):
                    Lfix = short(rng.choice([1, 3, 5, 7, 9, 25]) * 2.0 ** rng.randrange(-3, 6), 12)
                    if not 0.1 <= Lfix <= 1000:
                        Lfix = 8.0
                    Lvar = short(rng.choice([1, 3, 5]) * 2.0 ** rng.randrange(-2, 5), 12)
                    t0 = Fraction(Lfix) / 2 ** j
                    if Fraction(float(np.asarray(float(t0)).astype(dts[0]))) != t0:
                        continue
                    do_scan({'mode': mode, 'E': E_val, 'eunit': 'J', 'Lfix': Lfix, 'ufix': 'm', 'Lvar': Lvar,
                             'uvar': 'm', 'tunit': 's', 'dts': dts, 't0_exact': t0, 'coherent': True})
    n_first = len(events)
    ctx.extra['scan_calls'] = n_first - n_scan0
    ctx.extra['scanned_times'] = sum(len(e['sides']) for e in events[n_scan0:])
    ctx.extra['scanned_exactly_at_t0'] = sum(e['sides'].count('at') for e in events[n_scan0:])
    ctx.extra['scan_orders'] = {o: sum(1 for e in events[n_scan0:] if e['order'] == o)
                                for o in ('ascending', 'descending', 'shuffled')}
    ctx.sample({'event': events[n_scan0], 'context': {k: v for k, v in details[n_scan0].items() if k != 'values'}})
    ctx.sample({'event': events[-1], 'context': {k: v for k, v in details[-1].items() if k != 'values'}})

    # ---- 4. second use: a sample of the calls made so far, once more, in another order
    rng.shuffle(done_flights)
    rng.shuffle(done_scans)
    for prm in done_flights[:600 if ctx.thorough else 150]:
        run_flight(ctx, fl, prm, last, events, details, tid, again=True)
        ctx.case()
        tid += 1
    for prm in done_scans[:200 if ctx.thorough else 60]:
        run_scan(ctx, prm, last, events, details, tid, again=True)
        tid += 1
    ctx.extra['calls_replayed_at_the_end'] = len(events) - n_first
    ctx.extra['calls_with_reused_operand_objects'] = last.pool.reused
    ctx.extra['max_error_over_bound'] = max((d.get('worst_error_over_bound', 0.0) for d in details), default=0)

    # ---- 5. TLC judges every event
    nviol = 0
    for line, _tid, clause in lc.run_trace(ctx, 'conv/Trace_KinematicsInel.tla', events, 'Trace_KinematicsInel'):
        ev, det = events[line - 1], details[line - 1]
        dts = det['dtypes(tof,E,L)']
        what = f'energy_transfer_{ev["mode"]}_from_tof'
        ops = f'{prec_of(*dts)} operands'
        nviol += 1
        if det['const_class'] != 'normal':
            # one stable signature per kernel for this input class, whatever clause / path shows it
            key = f'{what}: wrong t0 / result for float32 energy when {det["const_class"]}'
            ctx.violation(key, {'clause': clause, 'event': ev, 'context': det})
            continue
        if ev['ev'] == 'flight':
            lay = ev['layout'].split('/')[0]
            key = f'{what} ({ev["via"]}): {clause} ({ops})'
            if lay not in ('scalar', 'dense', 'pixels', 'convert') or '/' in ev['layout'] or ev['energy_per_pixel']:
                lname = ev['layout'] + (', one supplied energy per pixel' if ev['energy_per_pixel'] else '')
                key = f'{what} ({ev["via"]}, layout {lname}): {clause} ({ops})'
        else:
            fam = 'exact-boundary family' if det['exact_boundary_family'] else 'scan around t0'
            if ev['order'] != 'ascending':
                fam += ', times not in ascending order'
            key = f'{what}: {clause} ({fam}, {ops})'
        if ev['again'] and not any(k.startswith(key) for k, _ in ctx.violations):
            key += ' [only when replayed at the end of the run]'
        ctx.violation(key, {'event': ev, 'context': det})
    # vacuity last and only on a tree without violations (a broken implementation must end as a violation)
    if nviol == 0:
        if returned < n_flight_calls // 2 or ctx.extra['scanned_exactly_at_t0'] == 0:
            raise MachineryError('vacuous run')
        for lay in LAYOUTS:
            if not any(k.split('/')[0] == lay and v for k, v in by_layout.items()):
                raise MachineryError(f'vacuous run: no flight call of layout {lay} returned')
        if not ctx.extra['flight_calls_with_one_supplied_energy_per_pixel']:
            raise MachineryError('vacuous run: no flight call with per-pixel supplied energies returned')
    elif ctx.extra['scanned_exactly_at_t0'] == 0:
        raise MachineryError('vacuous run: no scan hit t0 exactly (independent of the implementation)')

    # ---------------------------------------------------------------- growth: time_at_sample_from_tof as a
    # flight state machine (spec/conv/Growth_TimeAtSample.tla; deviations are GROWTH-FINDINGs, not
    # violations of C05)
    from .. import lib_growth_timeatsample
    ctx.run_growth(lib_growth_timeatsample.run, 'lib_growth_timeatsample')


META = {
    'design_ref': 'DESIGN.md §5 C05',
    'technique': 'TLA+ state machine of a neutron flight and the conversion of recorded times (exact rationals), '
                 'model-checked by TLC; TLC-enumerated flights replayed into the real kernels and convert(); '
                 'boundary scans recorded and judged by a TLC trace specification with the same class rule',
    'text': 'TLC proves energy conservation for both geometries, NaN iff t <= t0 and no Inf on all rational '
            'flights. Every flight is replayed with exactly representable energies/lengths in all energy, '
            'length and time units, float32/float64 operands, scalar / dense / per-pixel (also transposed and '
            'strided) / broadcast / event layouts and through convert() on dense and event data; the result must '
            'be a number in the unit of the supplied energy within a derived rounding bound of the spec\'s '
            'Ei - Ef. Scans over the 33 floats around the exact t0, far points and an exactly-representable '
            'boundary family, listed in any order, are classified nan/num/inf and judged by TLC. Operand objects '
            'are reused across calls and a sample of all calls is replayed at the end in another order.',
    'note': 'Trusted: TLC, scipp operand construction, mpmath. Closeness and the side of a scanned time are '
            'computed by the harness. Guard band +-8 eps (+1e-11 for non-(s,m,J) units, deviation from DESIGN '
            '§3.4 caused by the accuracy of scipp unit conversion factors).',
}
