from .. import lib_growth_nexusmeta


def run(ctx):
    lib_growth_nexusmeta.run(ctx)
