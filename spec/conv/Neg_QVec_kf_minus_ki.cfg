SPECIFICATION Spec
CONSTANTS
  Beams0 <- MC_Beams_quick
  Quats <- MC_Quats_quick
  Scales = {2, 3}
  MaxNorm = 12
  Bug = "kf_minus_ki"
INVARIANT TypeOK
INVARIANT NormIdentity
INVARIANT Direction
INVARIANT Rotations
INVARIANT Lossless
PROPERTY LengthIndependent
PROPERTY Covariant
CHECK_DEADLOCK FALSE
