------------------------------ MODULE XyeDefs ------------------------------
(* XYE files (scippneutron.io.xye): an ASCII table X Y E, one line per data point,       *)
(* preceded by header lines that all start with '#'.  Written from the docstrings of     *)
(* save_xye / load_xye, not from the code.                                               *)
(*                                                                                        *)
(* Symbols are integers: 1 'a', 2 '#', 3 LF, 4 SP, 5 a digit character, 6 CR (a line     *)
(* break for every reader that opens the file with universal newlines); every integer     *)
(* >= 1000000 is a number cell standing for one distinguished double (value-id).  A line  *)
(* is a sequence of symbols (without the line end), a file a sequence of lines.           *)
(*   x-id of row i of coordinate c : (c+1)*1000000 + i  (c = 0 is the dimension-coord.)   *)
(*   y-id of row i                 : 6000000 + i                                           *)
(*   e-id of row i                 : 7000000 + i  (file: sqrt(variance), data: variance)   *)
(*   8000000 = a number that is none of the supplied ones                                  *)
EXTENDS Integers, Sequences, FiniteSets, SequencesExt

CA == 1  CHASH == 2  CLF == 3  CSP == 4  CDIG == 5  CCR == 6
IsNumCell(s) == s >= 1000000
XId(c, i) == (c + 1) * 1000000 + i
YId(i) == 6000000 + i
EId(i) == 7000000 + i

MinOf(S) == CHOOSE i \in S : \A j \in S : i <= j

(* split a symbol sequence at every occurrence of sep: k separators give k+1 pieces *)
RECURSIVE SplitAt(_, _)
SplitAt(s, sep) ==
    LET ps == { i \in 1..Len(s) : s[i] = sep } IN
    IF ps = {} THEN <<s>>
    ELSE LET i == MinOf(ps) IN <<SubSeq(s, 1, i - 1)>> \o SplitAt(SubSeq(s, i + 1, Len(s)), sep)

(* split at LF and at CR *)
SplitAtBreaks(s) == FlattenSeq([k \in 1..Len(SplitAt(s, CLF)) |-> SplitAt(SplitAt(s, CLF)[k], CCR)])
(* the lines a universal-newline reader sees: a CR left inside a written line breaks it *)
IsDataShape(line) == /\ Len(line) = 5 /\ line[1] >= 1000000 /\ line[2] = CSP /\ line[3] >= 1000000
                     /\ line[4] = CSP /\ line[5] >= 1000000
ReaderLines(lines) ==
    \* only the lines up to the last one that is not a plain data line can contain a CR: split
    \* those, keep the (possibly very long) table behind them as it is
    LET odd == { k \in 1..Len(lines) : ~IsDataShape(lines[k]) }
        h == IF odd = {} THEN 0 ELSE CHOOSE k \in odd : \A j \in odd : j <= k
    IN IF h = 0 THEN lines
       ELSE FlattenSeq([k \in 1..h |-> SplitAt(lines[k], CCR)]) \o SubSeq(lines, h + 1, Len(lines))

-----------------------------------------------------------------------------
(* What is to be saved.  cfg = [hasvar, ndim, masks, coords (set of coordinate numbers,   *)
(* 0 = the coordinate named like the dimension), arg (requested coordinate number or -1   *)
(* for "not given"), edges (set of coordinates that are bin edges), nrows, header         *)
(* (symbols) or <<-1>> for "generate the default header"].                                *)
Chosen(cfg) ==      \* the coordinate that is written, or -1 if none can be chosen
    IF cfg.arg # -1 THEN (IF cfg.arg \in cfg.coords THEN cfg.arg ELSE -1)
    ELSE IF Cardinality(cfg.coords) = 1 THEN CHOOSE c \in cfg.coords : TRUE
    ELSE IF 0 \in cfg.coords THEN 0
    ELSE -1

(* refusal conditions, each stated on its own (docstring of save_xye + the property) *)
RNoVariances(cfg) == ~cfg.hasvar
RNot1d(cfg)       == cfg.ndim # 1
RMasks(cfg)       == cfg.masks
RNoCoord(cfg)     == cfg.coords = {}
RAmbiguous(cfg)   == cfg.arg = -1 /\ Cardinality(cfg.coords) > 1 /\ 0 \notin cfg.coords
RUnknown(cfg)     == cfg.arg # -1 /\ cfg.arg \notin cfg.coords
REdges(cfg)       == Chosen(cfg) # -1 /\ Chosen(cfg) \in cfg.edges

(* the decision procedure: first matching row of the table *)
Decide(cfg) ==
    IF RNoVariances(cfg) THEN "no_variances"
    ELSE IF RNot1d(cfg) THEN "not_one_dimensional"
    ELSE IF RMasks(cfg) THEN "masks"
    ELSE IF RNoCoord(cfg) THEN "no_coordinate"
    ELSE IF RUnknown(cfg) THEN "coordinate_not_found"
    ELSE IF RAmbiguous(cfg) THEN "ambiguous_coordinate"
    ELSE IF REdges(cfg) THEN "bin_edges"
    ELSE "write"

(* declarative: the data is representable as an XYE table *)
Writable(cfg) ==
    /\ cfg.hasvar /\ cfg.ndim = 1 /\ ~cfg.masks
    /\ \E c \in cfg.coords :
          /\ c \notin cfg.edges
          /\ \/ cfg.arg = c
             \/ cfg.arg = -1 /\ (cfg.coords = {c} \/ c = 0)

-----------------------------------------------------------------------------
DefaultHeader == <<CA, CSP, CA, CSP, CA>>      \* "x [unit]  Y [unit]  E [unit]"

(* every line of the header text becomes a comment line; "" gives no line at all *)
HeaderLines(h, bug) ==
    LET hh == IF h = <<-1>> THEN DefaultHeader ELSE h IN
    IF hh = <<>> THEN <<>>
    ELSE LET pieces == IF bug = "cr_kept" THEN SplitAt(hh, CLF)     \* negative control
                       ELSE SplitAtBreaks(hh) IN
         [k \in 1..Len(pieces) |->
            IF bug = "first_line_only" /\ k > 1 THEN pieces[k]      \* negative control
            ELSE <<CHASH, CSP>> \o pieces[k]]

DataLine(c, i) == <<XId(c, i), CSP, YId(i), CSP, EId(i)>>

Save(cfg, bug) ==
    LET d == Decide(cfg) IN
    IF d # "write" THEN [k |-> "refuse", kind |-> d, lines |-> <<>>]
    ELSE [k |-> "file", kind |-> "",
          lines |-> HeaderLines(cfg.header, bug) \o [i \in 1..cfg.nrows |-> DataLine(Chosen(cfg), i)]]

-----------------------------------------------------------------------------
(* Reader: '#' starts a comment that runs to the end of the line; blank lines are        *)
(* skipped; the remaining lines are rows of blank-separated numbers.  A run of digit      *)
(* characters is a number too (that is how header text could leak into the table): it is  *)
(* reported as the id 0.                                                                  *)
CutComment(line) ==
    LET ps == { i \in 1..Len(line) : line[i] = CHASH } IN
    IF ps = {} THEN line ELSE SubSeq(line, 1, MinOf(ps) - 1)

Fields(line) == SelectSeq(SplitAt(line, CSP), LAMBDA f : f # <<>>)
FieldValue(f) ==      \* -1 = not a number
    IF Len(f) = 1 /\ IsNumCell(f[1]) THEN f[1]
    ELSE IF \A i \in 1..Len(f) : f[i] = CDIG THEN 0
    ELSE -1

Load(written) ==
    LET lines == ReaderLines(written)
        content == SelectSeq([k \in 1..Len(lines) |-> Fields(CutComment(lines[k]))], LAMBDA fs : fs # <<>>)
        rows == [k \in 1..Len(content) |-> [q \in 1..Len(content[k]) |-> FieldValue(content[k][q])]]
        ok == /\ Len(rows) >= 1
              /\ \A k \in 1..Len(rows) : Len(rows[k]) = 3 /\ \A q \in 1..3 : rows[k][q] # -1
    IN [ok |-> ok, rows |-> rows]

(* structure of a written file: comment lines first, then exactly the data lines *)
WellFormed(written, nrows) ==
    LET lines == ReaderLines(written)
        nh == Len(lines) - nrows IN
       /\ nh >= 0
       /\ \A k \in 1..nh : Len(lines[k]) >= 1 /\ lines[k][1] = CHASH
       /\ \A k \in (nh + 1)..Len(lines) :
             /\ Len(lines[k]) = 5
             /\ IsNumCell(lines[k][1]) /\ lines[k][2] = CSP /\ IsNumCell(lines[k][3])
             /\ lines[k][4] = CSP /\ IsNumCell(lines[k][5])

Expected(cfg) == [i \in 1..cfg.nrows |-> <<XId(Chosen(cfg), i), YId(i), EId(i)>>]
ExpectedRows(nrows, chosen) == [i \in 1..nrows |-> <<XId(chosen, i), YId(i), EId(i)>>]

-----------------------------------------------------------------------------
(* What load_xye is asked for and what the returned DataArray must therefore look like   *)
(* (docstring of load_xye): req = [dim, cname ("" = not given: the coordinate is named    *)
(* like the dimension), unit, cunit] (strings; "<none>" = unit None).  The file carries   *)
(* neither names nor units, so they come from the request alone - never from what an      *)
(* earlier call asked for.                                                                *)
ExpectedMeta(req) == [dim |-> req.dim, cname |-> IF req.cname = "" THEN req.dim ELSE req.cname,
                      unit |-> req.unit, cunit |-> req.cunit]
=============================================================================
