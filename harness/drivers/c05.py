"""C05 — inelastic energy transfer conserves energy; NaN exactly for unphysical times; never infinite.

Spec: spec/conv/KinematicsInel.tla (flight of a neutron source -> sample -> detector, recording of
an arrival time, conversion), KinematicsInelDefs.tla (documented kernels in exact rationals, class
abstraction nan / num / inf), Trace_KinematicsInel.tla (judge of recorded executions).

1. TLC, exhaustive over rational speeds x integer lengths: the clock at the detector is
   L1/v(Ei) + L2/v(Ef) and later than t0 of either leg; both kernels return exactly Ei - Ef there
   (EnergyConservation); the class is NaN iff t <= t0 (Boundary) and never Inf (NoInf).
   Negative control: `<` instead of `<=` at the boundary (yields Inf at t = t0).
2. spec -> code (M1): every flight TLC enumerates (with its exact Ei - Ef) is replayed into
   energy_transfer_direct_from_tof / energy_transfer_indirect_from_tof and into
   convert(..., 'energy_transfer'), with the supplied energy in ueV / meV / eV / J, every length and
   time unit, float32 / float64 operands, scalar / dense / per-pixel layouts.  Energies and lengths
   are spec rationals times scale factors with short mantissas, so the floats handed over are the
   spec values exactly and the expected result is the spec's rational times the energy scale.
3. code -> spec (M2): every real call is one NDJSON event judged by TLC; boundary scans step through
   the 33 floats around the exact t0 plus far points; TLC applies the specification's class rule to
   the side of every scanned time.

Numeric parts decided by the harness, not by TLC: the arrival time (irrational, 60-digit mpmath, rounded
once to the operand dtype), the closeness bound and the side of a scanned time relative to t0.
Bound for the returned energy transfer (derived, not tuned): the result is  E_fix -/+ E_var'  with
E_var' = m L^2 / (2 (t - t0)^2); a relative perturbation eps of t (rounding of the arrival time to a
float) changes E_var' by 2 eps t/(t - t0), so  |result - (Ei - Ef)| <= tau (E_fix + E_var (1 + 2 t/(t - t0)))
with tau = 1e-11 (double) / 1e-5 (single): the accumulated-rounding figures of the property family (C01).
Guard band at the NaN boundary (DESIGN §3.4): +-8 eps around the exact t0; inside it NaN or a number
is accepted, +-inf never.  For operand units other than (s, m, J) the implementation has to convert
m_n/2 into a derived unit and scipp's own conversion factors are only accurate to ~1e-13, so the
band is widened there by 1e-11 (documented deviation); points at 2^-30 ... 2^-3 relative distance
are scanned in addition so that both sides outside the band are always exercised.
"""

from __future__ import annotations

import math
from fractions import Fraction

import mpmath
import numpy as np
import scipp as sc

from .. import lib_conv as lc
from ..core import MachineryError
from ..refmap import MN, check_constants, mpf
from ..tlc import require_ok

TAU = {'float64': 1e-11, 'float32': 1e-5}
EPS = {'float64': 2.0 ** -52, 'float32': 2.0 ** -23}
BAND_ULPS = 8
UNIT_ALLOWANCE = 1e-11
ENERGY_UNITS = ('ueV', 'meV', 'eV', 'J')
RULE = ('flight (vi, vf, L1, L2, geometry) enumerated by TLC x energy unit x length units x tof unit x '
        'operand dtypes x layout {scalar, dense, per-pixel, convert()}; boundary scans: 33 adjacent floats '
        'around the exact t0 + far points + exact-boundary family (E = m_n 2^(2j-1) J, dyadic L, seconds). '
        'non-trivial = call returned and (flight: Ei != Ef or elastic line; scan: both NaN and numbers occur), '
        'distinct by all of the above')


short = lc.short


def speed(E_SI):
    return mpmath.sqrt(2 * E_SI / mpf(MN))


def prec_of(*dts):
    return 'float32' if 'float32' in dts else 'float64'


def kernel(mode):
    from scippneutron.conversion import tof as K

    return K.energy_transfer_direct_from_tof if mode == 'direct' else K.energy_transfer_indirect_from_tof


const_class = lc.const_class


def cls_of(arr) -> list[str]:
    return [lc.classify(float(v)) for v in np.asarray(arr, dtype='float64').ravel()]


def worst_cls(classes):
    return 'inf' if 'inf' in classes else ('nan' if 'nan' in classes else 'num')


# ------------------------------------------------------------------------------------ flights
class Flights:
    def __init__(self, printed):
        self.tab = {}
        for p in printed:
            if isinstance(p, list) and p and p[0] == 'FLIGHT':
                _, vi, vf, L1, L2, mode, val = p
                self.tab[(Fraction(*vi), Fraction(*vf), L1, L2, mode)] = Fraction(*val)
        if not self.tab:
            raise MachineryError('specification emitted no flights')
        self.speeds = sorted({k[0] for k in self.tab})
        self.lengths = sorted({k[2] for k in self.tab})


def flight_block(ctx, fl, mode, layout, dts, units, events, details, tid):
    """One real call on a block of TLC flights sharing the supplied energy."""
    rng = ctx.rng
    dt_t, dt_E, dt_L = dts
    prec = prec_of(*dts)
    eunit, u1, u2, tunit = units
    nx = 1 if layout == 'scalar' else min(4, len(fl.speeds))
    npix = 3 if layout in ('pixels', 'convert') else 1
    v_fix = rng.choice(fl.speeds)
    v_var = rng.sample(fl.speeds, nx)
    pix = [(rng.choice(fl.lengths), rng.choice(fl.lengths)) for _ in range(npix)]
    if layout == 'convert':     # one beamline: L1 common to all pixels
        pix = [(pix[0][0], p[1]) for p in pix]
    # energy scale: natural energy 1 <-> kappa [eunit]; 8-bit mantissa keeps v^2/2 * kappa exact in float32
    kappa_meV = 10 ** rng.uniform(-1.4, 3.0)   # Ei, Ef stay inside 1e-3..1e4 meV
    kappa = short(kappa_meV * float(lc.si('meV') / lc.si(eunit)), 8)
    s1 = short(10 ** rng.uniform(-1, 1.9) / float(lc.si(u1)), 8)
    s2 = short(10 ** rng.uniform(-1, 1.9) / float(lc.si(u2)), 8)
    if layout == 'convert':
        u2 = u1
        s2 = short(10 ** rng.uniform(-1, 1.9) / float(lc.si(u2)), 8)

    def energy(v):
        x = Fraction(v) ** 2 / 2 * Fraction(kappa)
        xf = np.asarray(float(x)).astype(dt_E)
        if Fraction(float(xf)) != x:
            raise MachineryError(f'energy {x} not exactly representable as {dt_E}')
        return x

    E_fix = energy(v_fix)
    E_var = [energy(v) for v in v_var]
    E_fix_SI = mpf(E_fix * lc.si(eunit))
    L1v = [Fraction(p[0]) * Fraction(s1) for p in pix]
    L2v = [Fraction(p[1]) * Fraction(s2) for p in pix]
    for L in L1v + L2v:
        if Fraction(float(np.asarray(float(L)).astype(dt_L))) != L:
            raise MachineryError(f'length {L} not exactly representable as {dt_L}')
    # arrival times
    tof = np.empty((npix, nx))
    ratio = np.empty((npix, nx))   # t / (t - t0)
    for p in range(npix):
        L1_SI, L2_SI = mpf(L1v[p] * lc.si(u1)), mpf(L2v[p] * lc.si(u2))
        for x in range(nx):
            Ev_SI = mpf(E_var[x] * lc.si(eunit))
            if mode == 'direct':
                t0, tv = L1_SI / speed(E_fix_SI), L2_SI / speed(Ev_SI)
            else:
                t0, tv = L2_SI / speed(E_fix_SI), L1_SI / speed(Ev_SI)
            tof[p, x] = float((t0 + tv) / mpf(lc.si(tunit)))
            ratio[p, x] = float((t0 + tv) / tv)
    tof = lc.cast_values(tof, dt_t)
    # expected = spec rational * kappa (exactly the difference of the floats handed over / implied)
    want = np.empty((npix, nx), dtype=object)
    for p in range(npix):
        for x in range(nx):
            key = (v_fix, v_var[x], pix[p][0], pix[p][1], mode) if mode == 'direct' else (
                v_var[x], v_fix, pix[p][0], pix[p][1], mode)
            w = fl.tab[key] * Fraction(kappa)
            chk = (E_fix - E_var[x]) if mode == 'direct' else (E_var[x] - E_fix)
            if w != chk:
                raise MachineryError('refinement mapping inconsistent: spec dE * kappa != Ei - Ef')
            want[p, x] = w
    ev = {'ev': 'flight', 'tid': tid, 'mode': mode, 'via': 'convert' if layout == 'convert' else 'kernel',
          'status': 'ok', 'unit_in': eunit, 'unit_out': '', 'cls': 'num', 'close': True}
    det = {'layout': layout, 'dtypes(tof,E,L)': dts, 'units(E,L1,L2,tof)': [eunit, u1, u2, tunit],
           'v_fix': str(v_fix), 'v_var': [str(v) for v in v_var], 'pixels(L1,L2)': pix,
           'kappa': kappa, 's1': s1, 's2': s2, 'const_class': const_class(dt_E, eunit, tunit, (u1, u2))}
    ename = 'incident_energy' if mode == 'direct' else 'final_energy'
    E_var_sc = lc.var(float(E_fix), [], eunit, dt_E)
    try:
        if layout == 'convert':
            import scippneutron as scn

            z = sc.vector([0.0, 0.0, 1.0])
            xdir = sc.vector([1.0, 0.0, 0.0])
            da = sc.DataArray(
                sc.ones(dims=['spectrum', 'tof'], shape=[npix, nx]),
                coords={'tof': lc.var(tof, ['spectrum', 'tof'], tunit, dt_t),
                        'source_position': (-float(L1v[0])) * z * sc.scalar(1.0, unit=lc.scu(u1)),
                        'sample_position': 0.0 * z * sc.scalar(1.0, unit=lc.scu(u1)),
                        'position': sc.concat([float(L) * xdir for L in L2v], 'spectrum')
                        * sc.scalar(1.0, unit=lc.scu(u2)),
                        ename: E_var_sc})
            out = scn.convert(da, origin='tof', target='energy_transfer', scatter=True)
            res = out.coords['energy_transfer']
        else:
            if layout == 'scalar':
                kw = {'tof': lc.var(tof[0, 0], [], tunit, dt_t), 'L1': lc.var(float(L1v[0]), [], u1, dt_L),
                      'L2': lc.var(float(L2v[0]), [], u2, dt_L)}
            elif layout == 'dense':
                kw = {'tof': lc.var(tof[0], ['tof'], tunit, dt_t), 'L1': lc.var(float(L1v[0]), [], u1, dt_L),
                      'L2': lc.var(float(L2v[0]), [], u2, dt_L)}
            else:
                kw = {'tof': lc.var(tof, ['spectrum', 'tof'], tunit, dt_t),
                      'L1': lc.var([float(v) for v in L1v], ['spectrum'], u1, dt_L),
                      'L2': lc.var([float(v) for v in L2v], ['spectrum'], u2, dt_L)}
            kw[ename] = E_var_sc
            res = kernel(mode)(**kw)
    except Exception as e:  # noqa: BLE001
        ev['status'] = 'raised'
        det['exc'] = repr(e)[:300]
        events.append(ev)
        details.append(det)
        return False
    ev['unit_out'] = lc.unit_name(res.unit)
    vals = res.values if res.ndim else np.asarray(res.value)
    if res.ndim == 2 and list(res.dims) == ['tof', 'spectrum']:
        vals = np.asarray(vals).T
    vals = np.asarray(vals, dtype='float64').reshape(npix, nx)
    ev['cls'] = worst_cls(cls_of(vals))
    tau = TAU[prec]
    worst = 0.0
    for p in range(npix):
        for x in range(nx):
            if not np.isfinite(vals[p, x]):
                ev['close'] = False
                continue
            bound = tau * (float(E_fix) + float(E_var[x]) * (1 + 2 * ratio[p, x]))
            err = abs(Fraction(float(vals[p, x])) - want[p, x])
            r = float(err) / bound
            if r > worst:
                worst = r
                det['worst'] = {'got': float(vals[p, x]), 'want': float(want[p, x]), 'bound': bound,
                                'Ei_or_Ef_supplied': float(E_fix), 'other_energy': float(E_var[x]),
                                'tof': float(tof[p, x]), 'L1': float(L1v[p]), 'L2': float(L2v[p])}
    ev['close'] = bool(ev['close'] and worst <= 1.0)
    det['worst_error_over_bound'] = worst
    events.append(ev)
    details.append(det)
    return True


# ------------------------------------------------------------------------------------ scans
def scan(ctx, mode, E_val, eunit, Lfix, ufix, Lvar, uvar, tunit, dts, t0_exact, events, details, tid,
         coherent):
    """Scan arrival times around the exact t0 of the fixed-energy leg (one real call)."""
    dt_t, dt_E, dt_L = dts
    prec = prec_of(*dts)
    E_SI = mpf(Fraction(E_val) * lc.si(eunit))
    L_SI = mpf(Fraction(Lfix) * lc.si(ufix))
    t0 = mpf(t0_exact) if t0_exact is not None else L_SI / speed(E_SI)
    tu = mpf(lc.si(tunit))
    f = np.asarray(float(t0 / tu)).astype(dt_t)[()]
    pts = [f]
    lo = hi = f
    zero = f.dtype.type(0)
    inf = f.dtype.type(np.inf)
    for _ in range(16):
        lo = np.nextafter(lo, zero)
        hi = np.nextafter(hi, inf)
        pts += [lo, hi]
    for k in (30, 20, 10, 3):
        pts += [f.dtype.type(float(f) * (1 - 2.0 ** -k)), f.dtype.type(float(f) * (1 + 2.0 ** -k))]
    pts += [zero, f.dtype.type(float(f) / 2), f.dtype.type(float(f) * 3)]
    pts = sorted(set(float(p) for p in pts))
    band = BAND_ULPS * EPS[prec] + (0.0 if coherent else UNIT_ALLOWANCE)
    sides = []
    for p in pts:
        pe = Fraction(p) * lc.si(tunit)
        if t0_exact is not None and pe == t0_exact:
            sides.append('at')
            continue
        rel = (mpf(pe) - t0) / t0
        sides.append('band' if abs(rel) <= band else ('below' if rel < 0 else 'above'))
    ename = 'incident_energy' if mode == 'direct' else 'final_energy'
    kw = {'tof': lc.var(np.asarray(pts), ['tof'], tunit, dt_t), ename: lc.var(E_val, [], eunit, dt_E)}
    kw['L1' if mode == 'direct' else 'L2'] = lc.var(Lfix, [], ufix, dt_L)
    kw['L2' if mode == 'direct' else 'L1'] = lc.var(Lvar, [], uvar, dt_L)
    ev = {'ev': 'scan', 'tid': tid, 'mode': mode, 'status': 'ok', 'unit_in': eunit, 'unit_out': '',
          'sides': sides, 'cls': []}
    det = {'dtypes(tof,E,L)': dts, 'units(E,Lfix,Lvar,tof)': [eunit, ufix, uvar, tunit], 'E': E_val,
           'Lfix': Lfix, 'Lvar': Lvar, 't0': mpmath.nstr(t0 / tu, 25), 'times': pts,
           'exact_boundary_family': t0_exact is not None, 'band_rel': band,
           'const_class': const_class(dt_E, eunit, tunit, (ufix, uvar))}
    try:
        res = kernel(mode)(**kw)
    except Exception as e:  # noqa: BLE001
        ev['status'] = 'raised'
        det['exc'] = repr(e)[:300]
        events.append(ev)
        details.append(det)
        return
    ev['unit_out'] = lc.unit_name(res.unit)
    ev['cls'] = cls_of(res.values)
    det['values'] = [float(v) for v in np.asarray(res.values, dtype='float64')]
    events.append(ev)
    details.append(det)
    both = 'nan' in ev['cls'] and 'num' in ev['cls']
    ctx.case(nontrivial_id=('scan', mode, dts, eunit, ufix, uvar, tunit, E_val, Lfix) if both else None)


def run(ctx):
    ctx.rule = RULE
    check_constants()
    ctx.assume('m_n is the float scipp.constants exposes, taken as an exact rational; eV = 1.602176634e-19 J')
    ctx.assume('energies / lengths handed to the code are spec rationals times 8-bit scale factors, exactly '
               'representable in the operand dtype; the arrival time is rounded once to the tof dtype')
    ctx.assume('NaN boundary: guard band of +-8 eps (eps of the coarsest operand dtype) around the exact t0, '
               'widened by 1e-11 when operand units are not (s, m, J) because scipp converts m_n/2 into a '
               'derived unit with ~1e-13 accuracy; +-inf is never accepted')
    rng = ctx.rng
    # ---- 1. design
    cfg = 'MC_KinematicsInel_thorough.cfg' if ctx.thorough else 'MC_KinematicsInel.cfg'
    res = ctx.tlc('conv/MC_KinematicsInel.tla', cfg, workers=16, timeout=1200)
    require_ok(ctx, res, 'KinematicsInel model')
    ctx.tlc('conv/MC_KinematicsInel.tla', 'Neg_KinematicsInel.cfg', workers=4, expect_error=True, timeout=300)
    ecfg = 'Emit_KinematicsInel_thorough.cfg' if ctx.thorough else 'Emit_KinematicsInel.cfg'
    em = ctx.tlc('conv/MC_KinematicsInel.tla', ecfg, workers=1, timeout=1200, count=False)
    require_ok(ctx, em, 'KinematicsInel flight emission')
    fl = Flights(em.printed)
    ctx.extra['spec_flights'] = len(fl.tab)

    # ---- 2. flights through the real kernels and convert()
    events, details = [], []
    tid = 0
    dt_combos = [('float64', 'float64', 'float64'), ('float32', 'float32', 'float32'),
                 ('float32', 'float64', 'float64'), ('float64', 'float32', 'float64'),
                 ('float64', 'float64', 'float32'), ('float32', 'float32', 'float64')]
    nrep = 12 if ctx.thorough else 3
    returned = 0
    for mode in ('direct', 'indirect'):
        for layout in ('scalar', 'dense', 'pixels', 'convert'):
            for dts in dt_combos:
                for eunit in ENERGY_UNITS:
                    for _ in range(nrep):
                        units = (eunit, rng.choice(lc.LENGTH_UNITS), rng.choice(lc.LENGTH_UNITS),
                                 rng.choice(lc.TIME_UNITS))
                        n0 = len(events)
                        ok = flight_block(ctx, fl, mode, layout, dts, units, events, details, tid)
                        returned += bool(ok)
                        ctx.case(nontrivial_id=(mode, layout, dts, units, details[-1]['v_fix'],
                                                tuple(details[-1]['v_var'])) if ok else None)
                        if tid < 2:
                            ctx.sample({'event': events[n0], 'context': details[n0]})
                        tid += 1
    ctx.extra['flight_calls'] = tid
    ctx.extra['flight_calls_returned'] = returned
    ctx.extra['max_error_over_bound'] = max((d.get('worst_error_over_bound', 0.0) for d in details), default=0)

    # ---- 3. boundary scans
    nscan = 60 if ctx.thorough else 15
    n_scan0 = len(events)
    for mode in ('direct', 'indirect'):
        for dts in dt_combos:
            for _ in range(nscan):
                eunit = rng.choice(ENERGY_UNITS)
                ufix, uvar, tunit = rng.choice(lc.LENGTH_UNITS), rng.choice(lc.LENGTH_UNITS), rng.choice(lc.TIME_UNITS)
                if rng.random() < 0.25:
                    eunit, ufix, tunit = 'J', 'm', 's'
                E_meV = 10 ** rng.uniform(-3, 4)
                E_val = float(np.asarray(short(E_meV * float(lc.si('meV') / lc.si(eunit)), 20)).astype(dts[1]))
                Lfix = float(np.asarray(short(10 ** rng.uniform(-1, 3) / float(lc.si(ufix)), 12)).astype(dts[2]))
                Lvar = float(np.asarray(short(10 ** rng.uniform(-1, 3) / float(lc.si(uvar)), 12)).astype(dts[2]))
                scan(ctx, mode, E_val, eunit, Lfix, ufix, Lvar, uvar, tunit, dts, None, events, details, tid,
                     coherent=(eunit, ufix, tunit) == ('J', 'm', 's'))
                tid += 1
        # exact boundary family: E = m_n 2^(2j-1) J  =>  v = 2^j m/s exactly, t0 = L / 2^j exactly
        for dts in (('float64', 'float64', 'float64'), ('float32', 'float64', 'float64'),
                    ('float32', 'float64', 'float32')):
            for j in range(4, 16):
                E_val = float(MN * 2 ** (2 * j - 1))
                if Fraction(E_val) != MN * 2 ** (2 * j - 1):
                    raise MachineryError('exact family: energy not representable')
                for _ in range(4 if ctx.thorough else 1):
                    Lfix = short(rng.choice([1, 3, 5, 7, 9, 25]) * 2.0 ** rng.randrange(-3, 6), 12)
                    if not 0.1 <= Lfix <= 1000:
                        Lfix = 8.0
                    Lvar = short(rng.choice([1, 3, 5]) * 2.0 ** rng.randrange(-2, 5), 12)
                    t0 = Fraction(Lfix) / 2 ** j
                    if Fraction(float(np.asarray(float(t0)).astype(dts[0]))) != t0:
                        continue
                    scan(ctx, mode, E_val, 'J', Lfix, 'm', Lvar, 'm', 's', dts, t0, events, details, tid,
                         coherent=True)
                    tid += 1
    ctx.extra['scan_calls'] = len(events) - n_scan0
    ctx.extra['scanned_times'] = sum(len(e['sides']) for e in events[n_scan0:])
    ctx.extra['scanned_exactly_at_t0'] = sum(e['sides'].count('at') for e in events[n_scan0:])
    ctx.sample({'event': events[n_scan0], 'context': {k: v for k, v in details[n_scan0].items() if k != 'values'}})
    ctx.sample({'event': events[-1], 'context': {k: v for k, v in details[-1].items() if k != 'values'}})
    if returned < tid // 10 or ctx.extra['scanned_exactly_at_t0'] == 0:
        raise MachineryError('vacuous run')

    # ---- 4. TLC judges every event
    for line, _tid, clause in lc.run_trace(ctx, 'conv/Trace_KinematicsInel.tla', events, 'Trace_KinematicsInel'):
        ev, det = events[line - 1], details[line - 1]
        dts = det['dtypes(tof,E,L)']
        what = f'energy_transfer_{ev["mode"]}_from_tof'
        ops = f'{prec_of(*dts)} operands'
        if det['const_class'] != 'normal':
            # one stable signature per kernel for this input class, whatever clause / path shows it
            key = f'{what}: wrong t0 / result for float32 energy when {det["const_class"]}'
            ctx.violation(key, {'clause': clause, 'event': ev, 'context': det})
            continue
        if ev['ev'] == 'flight':
            key = f'{what} ({ev["via"]}): {clause} ({ops})'
        else:
            fam = 'exact-boundary family' if det['exact_boundary_family'] else 'scan around t0'
            key = f'{what}: {clause} ({fam}, {ops})'
        ctx.violation(key, {'event': ev, 'context': det})

    # ---------------------------------------------------------------- growth: time_at_sample_from_tof as a
    # flight state machine (spec/conv/Growth_TimeAtSample.tla; deviations are GROWTH-FINDINGs, not
    # violations of C05)
    from .. import lib_growth_timeatsample
    lib_growth_timeatsample.run(ctx)


META = {
    'design_ref': 'DESIGN.md §5 C05',
    'technique': 'TLA+ state machine of a neutron flight and the conversion of recorded times (exact rationals), '
                 'model-checked by TLC; TLC-enumerated flights replayed into the real kernels and convert(); '
                 'boundary scans recorded and judged by a TLC trace specification with the same class rule',
    'text': 'TLC proves energy conservation for both geometries, NaN iff t <= t0 and no Inf on all rational '
            'flights. Every flight is replayed with exactly representable energies/lengths in all energy, '
            'length and time units, float32/float64 operands, scalar/dense/per-pixel layouts and through '
            'convert(); the result must be a number in the unit of the supplied energy within a derived '
            'rounding bound of the spec\'s Ei - Ef. Scans over the 33 floats around the exact t0, far points and '
            'an exactly-representable boundary family are classified nan/num/inf and judged by TLC.',
    'note': 'Trusted: TLC, scipp operand construction, mpmath. Closeness and the side of a scanned time are '
            'computed by the harness. Guard band +-8 eps (+1e-11 for non-(s,m,J) units, deviation from DESIGN '
            '§3.4 caused by the accuracy of scipp unit conversion factors).',
}
