SPECIFICATION Spec
CONSTANTS
  MaxEvents = 3
  Shapes <- MC_ShapesQuick
  FullPermBins = 4
  Bug = "none"
INVARIANT LayoutWellFormed
INVARIANT ResultPerEvent
