------------------------ MODULE Growth_NexusMetadata ------------------------
(* GROWTH G07, layer (b): an entry is BUILT item by item in any order (groups, the name       *)
(* fields of the groups, the string and time fields of the entry), and READ by a procedure    *)
(* that walks the file in creation order - the way a reader iterates over an HDF5 group with  *)
(* creation-order tracking:                                                                    *)
(*   Add(i)        create item i of the Universe (a group needs its parent, a name field its  *)
(*                 group, a key exists once)                                                   *)
(*   ReadEntry     Beamline.from_nexus_entry for every instrument_name argument of ArgSeq and *)
(*                 Measurement.from_nexus_entry; at most twice, nothing is created afterwards  *)
(* The procedure:  instrument_name given -> look the child up by name;  otherwise collect the  *)
(* NXinstrument children in creation order, refuse unless there is exactly one;  read its      *)
(* `name` field; fold the text to lower case and look it up in the library's table LibKnown;   *)
(* read the five NXentry fields; parse the time texts (wall clock, minus the offset with one   *)
(* borrow / carry of a day).                                                                    *)
(* Invariants tie the procedure to the order-free decision table of the Defs module (layer a): *)
(*   Admitted        every outcome is one the table admits                                     *)
(*   OrderFree       the outcome is the outcome of the canonical creation order of the same    *)
(*                   content: it depends on the final content only                             *)
(*   ReadsStable     reading again gives the same result, equal to a fresh read                *)
(*   ReadsDoNotWrite (action property) a read leaves the file as it is                         *)
(*   CaseInsensitive recognition of an instrument does not depend on letter case               *)
(* Bug selects a wrong variant of one step (negative controls).                                *)
EXTENDS Growth_NexusMetadataDefs, TLC

CONSTANTS Universe,   \* sequence of items; ids ascending = canonical creation order
          ArgSeq,     \* sequence of instrument_name arguments tried by every read
          MaxSteps,   \* an entry has at most this many items
          LibKnown,   \* instruments the modelled library knows
          Bug,        \* "none" | "first" | "ignore_arg" | "swap_ids" | "end_from_start" | "tz_dropped" | "case_sensitive"
          Export      \* TRUE: print every first read (simulation runs of the generator)

VARIABLES order,      \* sequence of item ids in creation order
          reads       \* results of the reads so far
vars == <<order, reads>>

(* (zero-arity definitions: TLC evaluates them once, a cfg override is re-evaluated at every use) *)
UTab == Universe
Args == ArgSeq
Lib  == LibKnown
U(i) == UTab[i]
Ids  == 1..Len(UTab)
ItemsIn(s) == { s[k] : k \in 1..Len(s) }

ItemDefaults == [what |-> "", key |-> "", cls |-> "", nested |-> FALSE, parent |-> "", nf |-> NoName,
                 sv |-> NoStr, tv |-> NoTime]
GroupItem(g, cls)          == [ItemDefaults EXCEPT !.what = "group", !.key = g, !.cls = cls]
NestedItem(g, cls, parent) == [ItemDefaults EXCEPT !.what = "group", !.key = g, !.cls = cls, !.nested = TRUE,
                                                   !.parent = parent]
NameItem(g, nf)            == [ItemDefaults EXCEPT !.what = "name", !.key = g, !.nf = nf]
StrItem(k, sv)             == [ItemDefaults EXCEPT !.what = "str", !.key = k, !.sv = sv]
TimeItem(k, tv)            == [ItemDefaults EXCEPT !.what = "time", !.key = k, !.tv = tv]

Has(S, what, key) == \E j \in S : U(j).what = what /\ U(j).key = key
The(S, what, key) == U(CHOOSE j \in S : U(j).what = what /\ U(j).key = key)

CanAdd(i, S) == /\ i \notin S
                /\ ~Has(S, U(i).what, U(i).key)
                /\ U(i).what = "name" => Has(S, "group", U(i).key)
                /\ U(i).parent # "" => Has(S, "group", U(i).parent)

(* the canonical order of the universe is itself a legal creation order                        *)
ASSUME \A i \in Ids : /\ U(i).what = "name" => \E j \in 1..(i - 1) : U(j).what = "group" /\ U(j).key = U(i).key
                      /\ U(i).parent # "" => \E j \in 1..(i - 1) : U(j).what = "group" /\ U(j).key = U(i).parent

(* ---- the content of the file (order-free)                                                   *)
GroupsOf(S) == { [gname |-> U(j).key, cls |-> U(j).cls, nested |-> U(j).nested,
                  name |-> IF Has(S, "name", U(j).key) THEN The(S, "name", U(j).key).nf ELSE NoName]
                 : j \in { x \in S : U(x).what = "group" } }
ContentOf(S) == [ strs  |-> [k \in StrKeys  |-> IF Has(S, "str", k)  THEN The(S, "str", k).sv  ELSE NoStr],
                  times |-> [k \in TimeKeys |-> IF Has(S, "time", k) THEN The(S, "time", k).tv ELSE NoTime] ]
CanonOrder(S) == SelectSeq([i \in Ids |-> i], LAMBDA i : i \in S)

-----------------------------------------------------------------------------
(* ---- the reading procedure, a function of the creation order                                *)
FirstIndex(o, what, key) ==
    IF \E k \in 1..Len(o) : U(o[k]).what = what /\ U(o[k]).key = key
    THEN CHOOSE k \in 1..Len(o) : /\ U(o[k]).what = what /\ U(o[k]).key = key
                                  /\ \A m \in 1..(k - 1) : ~(U(o[m]).what = what /\ U(o[m]).key = key)
    ELSE 0

ChildrenOfClass(o, cls) == SelectSeq(o, LAMBDA i : U(i).what = "group" /\ U(i).cls = cls /\ ~U(i).nested)

Lookup(nf) ==
    IF nf.var = "padded" \/ nf.inst \notin Lib \/ (Bug = "case_sensitive" /\ nf.var # "lower") THEN NN
    ELSE IF Where(nf.inst) = "ess" THEN <<"ESS", "ESS">> ELSE <<"SINQ", "PSI">>

ProcBeamline(o, arg) ==
    LET insts == ChildrenOfClass(o, "NXinstrument")
        grp   == IF arg.given /\ Bug # "ignore_arg"
                 THEN (IF \E k \in 1..Len(o) : U(o[k]).what = "group" /\ ~U(o[k]).nested /\ U(o[k]).key = arg.target
                       THEN arg.target ELSE "")
                 ELSE IF Len(insts) = 1 THEN U(insts[1]).key
                 ELSE IF Len(insts) > 1 /\ Bug = "first" THEN U(insts[1]).key
                 ELSE ""
        at    == IF grp = "" THEN 0 ELSE FirstIndex(o, "name", grp)
    IN  IF at = 0 THEN Refused
        ELSE LET nf == U(o[at]).nf IN
             IF nf.sp \notin AdmissibleSp THEN Refused
             ELSE [out |-> "beamline", name |-> "raw", fac |-> Lookup(nf)[1], site |-> Lookup(nf)[2], rev |-> None]

ParseTime(tv) ==
    LET micro == tv.ns \div 1000 IN
    IF tv.zone = "naive" \/ Bug = "tz_dropped"
    THEN [kind |-> "naive", day |-> tv.day, sec |-> tv.sec, micro |-> micro, off |-> 0]
    ELSE LET u == tv.sec - tv.off * 60 IN
         [kind |-> "aware",
          day  |-> IF u < 0 THEN tv.day - 1 ELSE IF u >= 86400 THEN tv.day + 1 ELSE tv.day,
          sec  |-> IF u < 0 THEN u + 86400 ELSE IF u >= 86400 THEN u - 86400 ELSE u,
          micro |-> micro, off |-> tv.off]

ReadStr(o, k) ==
    LET at == FirstIndex(o, "str", k) IN
    IF at = 0 THEN ObsNone
    ELSE IF U(o[at]).sv.cls = "empty" THEN [src |-> "-", form |-> "empty"]
    ELSE [src |-> k, form |-> "raw"]
ReadTime(o, k) ==
    LET at == FirstIndex(o, "time", k) IN IF at = 0 THEN ObsNoTime ELSE ParseTime(U(o[at]).tv)

ProcMeasurement(o) ==
    LET S == ItemsIn(o)
        c == ContentOf(S)
    IN  IF ~MeasSpecified(c) \/ MeasMayRefuse(c) THEN MeasRefused
        ELSE [out |-> "measurement",
              title |-> ReadStr(o, "title"),
              run_number    |-> ReadStr(o, IF Bug = "swap_ids" THEN "experiment_identifier" ELSE "entry_identifier"),
              experiment_id |-> ReadStr(o, IF Bug = "swap_ids" THEN "entry_identifier" ELSE "experiment_identifier"),
              doi |-> None,
              start_time |-> ReadTime(o, "start_time"),
              end_time   |-> ReadTime(o, IF Bug = "end_from_start" THEN "start_time" ELSE "end_time")]

Result(o) == [ bl |-> [a \in 1..Len(Args) |-> ProcBeamline(o, Args[a])], ms |-> ProcMeasurement(o) ]

(* what the table says about the content, in the form the generator exports                    *)
BlRow(gs, arg) == LET v == BeamlineVerdict(gs, arg) IN
    [kind |-> v.kind, mayrefuse |-> v.mayrefuse, names |-> v.names, pairs |-> v.pairs, anyfac |-> v.anyfac,
     rev_none |-> v.rev_none, why |-> v.why]

-----------------------------------------------------------------------------
Init == order = <<>> /\ reads = <<>>

Add(i) == /\ reads = <<>>
          /\ Len(order) < MaxSteps
          /\ CanAdd(i, ItemsIn(order))
          /\ order' = order \o <<i>>
          /\ UNCHANGED reads

ReadEntry == /\ Len(reads) < 2
             /\ reads' = reads \o << Result(order) >>
             /\ UNCHANGED order
             /\ (Export /\ reads = <<>>) =>
                    PrintT(<<"BUILD", order,
                             [a \in 1..Len(Args) |-> BlRow(GroupsOf(ItemsIn(order)), Args[a])]>>)

Next == (\E i \in Ids : Add(i)) \/ ReadEntry
Spec == Init /\ [][Next]_vars

-----------------------------------------------------------------------------
Admitted ==
    LET S == ItemsIn(order)
        r == Result(order)
    IN  /\ \A a \in 1..Len(Args) :
              BeamlineClause(BeamlineVerdict(GroupsOf(S), Args[a]), r.bl[a]) = "ok"
        /\ MeasurementClause(ContentOf(S), r.ms)[1] = "ok"

(* whenever the documentation demands a value, the procedure delivers it (the model is not     *)
(* allowed to refuse its way through the table)                                                *)
Delivers ==
    LET S == ItemsIn(order)
        r == Result(order)
    IN  /\ \A a \in 1..Len(Args) :
              LET v == BeamlineVerdict(GroupsOf(S), Args[a]) IN
              (v.kind = "accept" /\ ~v.mayrefuse) => r.bl[a].out = "beamline"
        /\ (MeasSpecified(ContentOf(S)) /\ ~MeasMayRefuse(ContentOf(S))) => r.ms.out = "measurement"

OrderFree == Result(order) = Result(CanonOrder(ItemsIn(order)))

ReadsStable == \A k \in 1..Len(reads) : reads[k] = Result(order)

ReadsDoNotWrite == [][ Len(reads') > Len(reads) => order' = order ]_vars

(* the recognition of the instrument named in the file does not depend on the letter case the  *)
(* file writer chose                                                                            *)
CaseInsensitive ==
    \A k \in 1..Len(order) :
        LET it == U(order[k]) IN
        (it.what = "name" /\ it.nf.present) =>
            \A v \in CaseVars : Lookup([it.nf EXCEPT !.var = v]) = Lookup([it.nf EXCEPT !.var = "lower"])

(* the library's table agrees with where the instruments stand                                 *)
ASSUME LibraryTableAdmitted == \A i \in Lib : Lookup(NameF("str", i, "lower")) \in PairsOf(i)

TypeOK == /\ Len(order) <= MaxSteps
          /\ Len(reads) <= 2
          /\ \A k \in 1..Len(order) : order[k] \in Ids
          /\ Cardinality(ItemsIn(order)) = Len(order)
=============================================================================
