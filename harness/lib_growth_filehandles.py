"""Growth module G09: whose is a file handle? (spec/textio/Growth_FileHandles.tla), hosted by C14.

`scippneutron.io._files.open_or_pass` ("Open a file at a path or return an already open file") is the one
place where save_cif, Sqw.open and SqwBuilder.create decide whether they own the handle they write to.
TLC explores every session of the model (a path / StringIO / BytesIO / real text file / real binary file
used several times in a row; Enter, body steps write / read / raise, Exit) with the ownership invariants
(a caller's handle is never closed and never rewound or truncated, what the library opened it closes also
when the body raises, the body works on the caller's own object) and rejects three wrong variants; every
finished session is printed with the observable state after each step and replayed step by step into the
real function on real temporary files: closed flags, identity, size and position must equal the model's
after every step.  The same sessions are then driven through `save_cif` (a block written per use) to bind
the model to a caller.  Deviations are GROWTH-FINDINGs (beyond C14).
"""
from __future__ import annotations

import io
import os
import tempfile

from .core import MachineryError
from .tlc import require_ok


class _Body(Exception):
    pass


def _size_of(kind, target, handle):
    if kind == 'path':
        if handle is not None and not handle.closed:
            handle.flush()
        return os.path.getsize(target)
    if target.closed:
        return -1
    if kind in ('stringio', 'bytesio'):
        return len(target.getvalue())
    target.flush()
    return os.fstat(target.fileno()).st_size


def _replay(ctx, open_or_pass, tmp, n, kind, hist, binary_path):
    size0 = int(hist[0][1])
    binary = kind in ('bytesio', 'binfile') or (kind == 'path' and binary_path)
    unit = b'x' if binary else 'x'
    fn = os.path.join(tmp, f's{n}')
    if kind == 'path':
        with open(fn, 'wb') as f:
            f.write(b'x' * size0)
        target = fn
    elif kind == 'stringio':
        target = io.StringIO()
    elif kind == 'bytesio':
        target = io.BytesIO()
    elif kind == 'textfile':
        target = open(fn, 'w+', newline='')  # noqa: SIM115
    else:
        target = open(fn, 'w+b')  # noqa: SIM115
    if kind != 'path':
        target.write(unit * size0)
    cm = handle = None
    own = None          # the handle the library opened (known once entered with a path)
    pending = None
    try:
        for step in hist[1:]:
            act, mode, caller_open, m_own, same, size, pos = step
            pymode = mode + ('b' if binary else '')
            if act == 'enter':
                try:
                    cm = open_or_pass(target, pymode)
                    handle = cm.__enter__()
                except TypeError as e:
                    if kind in ('textfile', 'binfile'):
                        ctx.growth_finding(
                            'open_or_pass does not recognise an already open real file '
                            f'({type(target).__name__}) and tries to open it as a path: TypeError',
                            {'exc': str(e)[:200], 'mode': pymode})
                        return False
                    raise
                own = handle if kind == 'path' else None
                pending = None
            elif act == 'write':
                handle.write(unit)
            elif act == 'read':
                handle.read()
            elif act == 'raise':
                pending = _Body('body failed')
            elif act == 'exit':
                if pending is not None:
                    swallowed = cm.__exit__(_Body, pending, None)
                    if swallowed:
                        ctx.growth_finding('open_or_pass swallows an exception raised in the body', {'kind': kind})
                else:
                    cm.__exit__(None, None, None)
            else:
                raise MachineryError(f'unknown step {act}')
            # ---- observable state after the step vs the model's
            got = {
                'callerOpen': 'na' if kind == 'path' else ('closed' if target.closed else 'open'),
                'own': 'none' if own is None else ('closed' if own.closed else 'open'),
                'same': (handle is target) if act != 'exit' else False,
                'size': _size_of(kind, target, own),
            }
            want = {'callerOpen': caller_open, 'own': m_own, 'same': bool(same), 'size': size}
            live = own if kind == 'path' else target
            if live is not None and not live.closed:
                got['pos'] = live.tell()
                want['pos'] = pos
            ctx.case(nontrivial_id=('fh', kind, act, mode, m_own, size, pos))
            for k in want:
                if got[k] != want[k]:
                    ctx.growth_finding(
                        f'open_or_pass: {k} after {act} on a {kind} differs from the ownership model',
                        {'got': got, 'want': want, 'mode': pymode, 'hist': [s[0] for s in hist[1:]]})
                    return False
        return True
    finally:
        for h in (own, target if kind != 'path' else None):
            try:
                if h is not None and not h.closed:
                    h.close()
            except Exception:  # noqa: BLE001
                pass


def _save_cif_sessions(ctx, tmp):
    """The caller side: save_cif(fname) writes through open_or_pass(fname, 'w')."""
    from scippneutron.io import cif

    def doc(i):
        return cif.CIF(f'd{i}').with_reducers(f'reducer {i}')

    for kind in ('path', 'stringio'):
        target = os.path.join(tmp, 'c.cif') if kind == 'path' else io.StringIO()
        texts = []
        for i in range(3):
            doc(i).save(target)
            if kind == 'path':
                with open(target, encoding='utf-8') as f:
                    texts.append(f.read())
            else:
                if target.closed:
                    ctx.growth_finding('save_cif closes the StringIO it was given', {})
                    break
                texts.append(target.getvalue())
            ctx.case(nontrivial_id=('fh-cif', kind, i))
        if len(texts) < 3:
            continue
        if kind == 'path':
            ok = all(t.count('data_d') == 1 and f'data_d{i}' in t for i, t in enumerate(texts))
            what = 'save_cif to a path does not replace the file'
        else:
            ok = all(texts[i + 1].startswith(texts[i]) and texts[i + 1].count('data_d') == i + 2 for i in range(2))
            what = 'save_cif to an open StringIO does not append at the handle position'
        if not ok:
            ctx.growth_finding(what, {'lengths': [len(t) for t in texts]})


def run(ctx):
    from scippneutron.io._files import open_or_pass

    cfg = 'Growth_MC_FileHandles_thorough.cfg' if ctx.thorough else 'Growth_MC_FileHandles.cfg'
    res = ctx.tlc('textio/Growth_FileHandles.tla', cfg, workers=1, timeout=900)
    require_ok(ctx, res, 'FileHandles model')
    for b in ('close_callers', 'leak_on_raise', 'truncate_handle'):
        ctx.tlc('textio/Growth_FileHandles.tla', f'Growth_Neg_FileHandles_{b}.cfg', workers=1,
                expect_error=True, timeout=300)
    sessions = res.tagged('SESSION')
    if len(sessions) < 500:
        raise MachineryError(f'only {len(sessions)} sessions exported')
    if ctx.thorough and len(sessions) > 60000:
        sessions = [s for i, s in enumerate(sessions) if i % (len(sessions) // 60000 + 1) == 0]
    done = refused = 0
    with tempfile.TemporaryDirectory(prefix='verif-fh-') as tmp:
        for n, (_, kind, hist) in enumerate(sessions):
            ok = _replay(ctx, open_or_pass, tmp, n % 64, kind, hist, binary_path=bool(n % 2))
            done += 1
            refused += (not ok)
        # the binding itself: a model session with one observation corrupted must be noticed
        probe = next(s for s in sessions if s[1] == 'stringio')
        bad = [list(x) for x in probe[2]]
        bad[-1][2] = 'closed'
        before = dict(ctx._growth_keys)
        _replay(ctx, open_or_pass, tmp, 0, 'stringio', bad, False)
        key = 'open_or_pass: callerOpen after exit on a stringio differs from the ownership model'
        if ctx._growth_keys.get(key, 0) != before.get(key, 0) + 1:
            raise MachineryError('corrupted FileHandles session was not rejected')
        ctx._growth_keys[key] -= 1
        if not ctx._growth_keys[key]:
            del ctx._growth_keys[key]
            ctx.growth[:] = [g for g in ctx.growth if g[0] != key]
        _save_cif_sessions(ctx, tmp)
    ctx.extra['filehandle_sessions_replayed'] = done
    ctx.extra['filehandle_sessions_refused_at_enter'] = refused
    ctx.sample({'filehandle_session': [probe[1], [list(x) for x in probe[2]][:6]]})
