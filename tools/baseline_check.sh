#!/bin/sh
# Run the repository's test suite on /repo with the guard OFF and compare with BASELINE.json's stable_pass list.
out=${1:-/tmp/baseline_check}
mkdir -p "$out"
cd /repo && env -u SCIPPNEUTRON_VERIF /venv/bin/python -m pytest -ra -q -p no:cacheprovider --timeout=900 --continue-on-collection-errors --junitxml="$out/junit.xml" > "$out/pytest.txt" 2>&1
/venv/bin/python - "$out" <<'PY'
import json, sys, xml.etree.ElementTree as ET
out = sys.argv[1]
base = set(json.load(open('/root/.vp/BASELINE.json'))['stable_pass'])
passed = set()
for tc in ET.parse(out + '/junit.xml').iter('testcase'):
    if not any(c.tag in ('failure', 'error', 'skipped') for c in tc):
        passed.add(tc.get('classname') + '::' + tc.get('name'))
missing = sorted(base - passed)
print(f'baseline stable_pass: {len(base)}; passing now: {len(base & passed)}; missing: {missing[:20]}')
sys.exit(1 if missing else 0)
PY
