-------------------------------- MODULE QVec --------------------------------
(* C08, first half: the momentum-transfer vector.  State = the two beams (integer vectors  *)
(* with their integer norms).  Actions: rescale either beam by a positive integer, rotate the     *)
(* whole beamline by a rational rotation.  Properties: Q does not depend on the beam       *)
(* lengths, rotates with the beamline, its norm equals the scalar Q = 4 pi sin(theta)/     *)
(* lambda of the same beams, and it points from e_f to e_i.                                *)
EXTENDS QVecDefs

CONSTANTS Beams0,    \* initial beams
          Quats,     \* integer quaternions <<w, x, y, z>>
          Scales,    \* positive integers
          MaxNorm,   \* bound on the beam norms (keeps the state space finite)
          Bug        \* "none" | "unnormalised" | "kf_minus_ki"

VARIABLES b1, b2
vars == <<b1, b2>>

(* implementation-shaped direction (with the seeded mistakes) *)
IDirN(u, v) == IF Bug = "unnormalised" THEN VSub(VScale(u.n * v.n, u.v), VScale(u.n * v.n, v.v))
               ELSE IF Bug = "kf_minus_ki" THEN VNeg(QDirN(u, v))
               ELSE QDirN(u, v)
IDir(u, v)  == RatVec(IDirN(u, v), QDirD(u, v))

Small(b) == b.n <= MaxNorm

Init == b1 \in Beams0 /\ b2 \in Beams0

ScaleIncident(k)  == Small(ScaleBeam(k, b1)) /\ b1' = ScaleBeam(k, b1) /\ UNCHANGED b2
ScaleScattered(k) == Small(ScaleBeam(k, b2)) /\ b2' = ScaleBeam(k, b2) /\ UNCHANGED b1
RotateLab(q)      == /\ Small(RotBeam(q, b1)) /\ Small(RotBeam(q, b2))
                     /\ b1' = RotBeam(q, b1) /\ b2' = RotBeam(q, b2)

Next == \/ \E k \in Scales : ScaleIncident(k) \/ ScaleScattered(k)
        \/ \E q \in Quats : RotateLab(q)
Spec == Init /\ [][Next]_vars

-----------------------------------------------------------------------------
TypeOK == IsBeam(b1) /\ IsBeam(b2)

(* |Q lambda/2pi|^2 = 4 sin^2 theta, and cos(2theta) is the cosine of C03's angle class *)
NormIdentity ==
    /\ Reduce(Norm2(IDirN(b1, b2)), QDirD(b1, b2) * QDirD(b1, b2)) = FourSin2(b1, b2)
    /\ AngleClass(b1.v, b2.v) = <<Sgn(Dot(b1.v, b2.v)), Reduce(Dot(b1.v, b2.v) * Dot(b1.v, b2.v), QDirD(b1, b2) * QDirD(b1, b2))>>
    /\ RatLe(FourSin2(b1, b2), <<4, 1>>) /\ RatLe(<<0, 1>>, FourSin2(b1, b2))

(* Q = k_i - k_f: along +e_i and against e_f; zero exactly for forward scattering *)
Direction ==
    /\ Dot(IDirN(b1, b2), b1.v) >= 0 /\ Dot(IDirN(b1, b2), b2.v) <= 0
    /\ (IDirN(b1, b2) = Zero3 <=> SameDirection(b1.v, b2.v))

(* every quaternion of the model is a proper rotation *)
Rotations == \A q \in Quats : IsRotation(q)

(* split / reassemble *)
Lossless == Join(Split(IDirN(b1, b2))) = IDirN(b1, b2)

-----------------------------------------------------------------------------
LengthIndependent ==
    [][(\E k \in Scales : ScaleIncident(k) \/ ScaleScattered(k)) => IDir(b1', b2') = IDir(b1, b2)]_vars

Covariant ==
    [][\A q \in Quats : RotateLab(q) =>
          IDir(b1', b2') = RotRat(q, IDirN(b1, b2), QDirD(b1, b2))]_vars
=============================================================================
