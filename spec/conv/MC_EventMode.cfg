SPECIFICATION Spec
CONSTANTS
  MaxEvents = 4
  Shapes <- MC_ShapesQuick
  FullPermBins = 4
  MaxCalls = 1
  Bug = "none"
INVARIANT LayoutWellFormed
INVARIANT ResultPerEvent
INVARIANT MembershipPreserved
INVARIANT OrderPreserved
INVARIANT WeightsUntouched
INVARIANT EdgesSameFunction
INVARIANT InputUntouched
INVARIANT Repeatable
