SPECIFICATION Spec
CONSTANTS
  Detectors <- MC_DetectorsAll
  PixelSizes = {0}
  Names = {"sample"}
  Types = {"box", "cylinder", "disk", "sphere"}
  Centers <- MC_CentersAll
  Sizes <- MC_SizesAll
  Styles <- MC_StylesAll
  MaxComps = 1
  Bug = "none"
INVARIANT Aligned
INVARIANT OneShapeOneLabel
INVARIANT TypeAndPlace
INVARIANT BoundingBox
INVARIANT DiskFacesBeam
INVARIANT LabelAbove
INVARIANT StyleAsRequested
INVARIANT CloudOnce
INVARIANT PixelGuess
INVARIANT FarReaches
INVARIANT NothingWithoutComponents
INVARIANT UnknownRefused
INVARIANT OrderIndependent
PROPERTY EarlierObjectsKept
PROPERTY FarMonotone
PROPERTY InputUnchanged
PROPERTY RefusalLeavesScene
CHECK_DEADLOCK FALSE
INVARIANT Emit
