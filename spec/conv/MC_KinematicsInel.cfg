SPECIFICATION Spec
CONSTANTS
  Speeds <- MC_SpeedsQuick
  Lengths = {1, 2, 3}
  Deltas <- MC_Deltas
  Bug = "none"
  MaxBanks = 2
  Emit = FALSE
INVARIANT TypeOK
INVARIANT ArrivalAfterT0
INVARIANT T0Linear
INVARIANT EnergyConservation
INVARIANT Boundary
INVARIANT NoInf
INVARIANT ClassAbstraction
CHECK_DEADLOCK FALSE
