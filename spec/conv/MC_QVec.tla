------------------------------- MODULE MC_QVec -------------------------------
EXTENDS QVec
SignedPermsOf(v) == { [v |-> MatVec(M, v), n |-> CHOOSE n \in 1..20 : n * n = Norm2(v)] : M \in Rot24 \cup Refl24 }
MC_Beams_quick == SignedPermsOf(<<1, 0, 0>>) \cup SignedPermsOf(<<1, 2, 2>>) \cup SignedPermsOf(<<0, 3, 4>>)
MC_Beams_thorough == MC_Beams_quick \cup SignedPermsOf(<<2, 3, 6>>) \cup SignedPermsOf(<<1, 4, 8>>)
MC_Quats_quick == { <<1, 0, 0, 0>>, <<1, 1, 0, 0>>, <<1, 1, 1, 1>>, <<2, 1, 0, 0>>, <<1, 1, 1, 0>>, <<0, 1, -1, 2>> }
MC_Quats_thorough == MC_Quats_quick \cup { <<1, 0, 0, 1>>, <<0, 0, 1, 0>>, <<2, -1, 1, 0>>, <<1, 2, 2, 0>>, <<1, -1, 1, -1>>,
                                           <<3, 1, 1, 1>>, <<2, 2, 1, 0>>, <<0, 1, 1, 1>>, <<1, 0, -1, 0>>, <<2, 0, 0, 1>> }
=============================================================================
