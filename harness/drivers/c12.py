"""C12 — every SQW file written is a structurally complete, self-consistent container.

Spec: spec/sqw/SqwBuilder.tla (state machine of the builder: the five public calls in any order and
subset, then Create = WriteHeader, SerializeBlocks, WriteBAT, WriteBlock(i), PixChunk; the target may
hold an earlier file of any length and create() may be called again on the same builder), with the
state-free layout definitions in SqwBuilderDefs.tla; Trace_SqwBuilder.tla judges recorded files.

1. TLC, exhaustive over all orders and subsets of the calls x pixel counts x chunk sizes x histogram
   shapes x byte order (and, in a second configuration, x what the target held before x one or two
   create() calls): HeaderFirst, Sequential, BlockAtDeclaredPosition, Tiling, NothingSurvives,
   EachBlockOnce, CanonicalOrder, PixBytes, KindsAndSizes, ByteOrderReopened.  Five negative
   controls must be rejected: chunk loop bounded by the row count, table in call order, positions
   not patched, target not truncated, pixel data let go of after the first create().  (Quick tier:
   the main configuration writes big-endian and the second one little-endian files; thorough: both
   in both.)
2. spec -> code (M1/M3): every complete behaviour of the model is exported by TLC (call order +
   abstract arguments + the block count / pixel / histogram sizes the model computed); the driver
   performs a stratified sample of them (all of them for small models) on the real SqwBuilder with a
   recording io.BytesIO, decodes the bytes with the independent decoder (harness/sqwdecode.py, no
   package code) and compares the model's numbers directly.
3. code -> spec (M2): seeded random configurations far beyond the model's bounds (0..1e5 pixels, chunk
   1..1e5 or default, 1..20 runs, ASCII titles / file names of any length incl. empty, BytesIO and
   real files given as str and Path, native/little/big, each configuration also with permuted call
   order).  One NDJSON event per file (integers / strings only: header, table entries, extents,
   consumed length and decoded type per block, file length, what Sqw.open reports, run-length
   encoded write log); TLC replays the calls on the spec's operators and evaluates every clause.
   The configurations also vary HOW things are handed over without changing what is supplied (pixel
   table as a slice / strided view of a larger array, float32 / int32 rows, integer- or float-typed
   bin counts, byte order as enum member, other dimension name, titles of 2^16 characters) and what
   the target path held before (a shorter / longer unrelated file, the builder's own first output).
4. History: a sample of the configurations already judged is performed again at the end, in reversed
   order and onto the same paths, and judged by the same clauses.
"""

from __future__ import annotations

import itertools

import os

from .. import lib_sqw as L
from .. import sqwdecode as D
from ..core import MachineryError
from ..tlc import require_actions, require_ok, write_ndjson

WORKERS = int(os.environ.get('VERIF_TLC_WORKERS', '16'))  # fewer while sharing the machine

RULE = ('configuration = (ordered subset of the 5 builder calls, pixel count, chunk size or default, runs, '
        'histogram shape, byte order, target kind, title/file name); non-trivial = the builder returned and the '
        'file holds at least 3 blocks or pixel data; classes stratified over chunk <,=,> pixel count and row count')

# clauses that are read off the final bytes / Sqw.open; the two log clauses only add detail
LOG_CLAUSES = ('log_no_unwritten_holes', 'log_pix_extent_fully_written')


def _one_file(ctx, cfg, tid, gid, events, cfgs, tag=None):
    b = L.build_file(cfg, ctx.tmp, tag or f'c{tid}')
    if b.error is not None:
        ctx.violation(f'SqwBuilder raised {type(b.error).__name__} for an admissible configuration '
                      f'[{L.input_class(cfg)}]', {'cfg': _brief(cfg), 'exc': repr(b.error)})
        L.cleanup(b)
        return None
    dec = D.decode_file(b.data)
    op = L.open_package(b, read_blocks=False)
    ev = L.layout_event(b, dec, op, tid, gid)
    L.cleanup(b)
    if not ev['fits32']:
        raise MachineryError('file larger than 2^31 bytes generated')
    del ev['fits32']
    events.append(ev)
    cfgs[tid] = cfg
    nblocks = len(dec.entries)
    ctx.case(nontrivial_id=(tid,) if nblocks >= 3 or 'pix' in cfg['calls'] else None)
    return ev, dec


def _brief(cfg):
    return {k: cfg.get(k) for k in ('calls', 'npix', 'nruns', 'chunk', 'bo', 'where', 'n_dims', 'prev', 'twice',
                                    'pix_view', 'pix_dim', 'bo_enum')} | {
        'title_len': len(cfg['title']), 'fname_len': len(cfg['fname']), 'subdirs': [len(s) for s in cfg['subdirs']],
        'dnd_shape': cfg['dnd']['shape'], 'pix_recipe': cfg['pix']}


def _synthetic_event():
    """A consistent layout built by hand from the format description (independent of the code under test)."""
    names = [('', 'main_header', 'main_header_cl'), ('', 'detpar', 'unique_references_container'),
             ('experiment_info', 'instruments', 'unique_references_container')]
    sizes = [100, 50, 70]
    batlen = 8 + sum(4 + len('data_block') + 4 + len(n1) + 4 + len(n2) + 16 for n1, n2, _ in names)
    pos, bat, dec = 26 + batlen, [], []
    for (n1, n2, sn), size in zip(names, sizes, strict=True):
        bat.append({'type': 'data_block', 'n1': n1, 'n2': n2, 'pos': pos, 'size': size, 'locked': 0})
        dec.append({'ok': True, 'consumed': size, 'sn': sn, 'nrows': -1, 'npix': -1, 'shape': [], 'err': ''})
        pos += size
    return {'tid': 0, 'gid': 1, 'calls': ['inst', 'det'], 'npix': 0, 'shape': [], 'chunk': 8192, 'bo': 'little',
            'where': 'bytesio', 'out': 'ok', 'flen': pos, 'prev': 0, 'gen': 1, 'hdrok': True, 'dec_bo': 'little',
            'hdr': {'name': 'horace', 'v4': True, 'type': 1, 'ndims': 0, 'len': 26}, 'batok': True,
            'batsize': batlen - 4, 'batbegin': 26, 'batend': 26 + batlen, 'bat': bat, 'dec': dec,
            'open': {'out': 'ok', 'bo': 'little', 'name': 'horace', 'v4': True, 'type': 1, 'ndims': 0,
                     'names': [[n1, n2] for n1, n2, _ in names]},
            'haslog': True, 'log': [[0, 26, 1], [26, batlen, 1], [26 + batlen, 220, 1]]}


def _corruption_control(ctx):
    """The trace specification must accept a hand-made consistent layout and reject it when the file
    length is off by one byte, resp. when the table lists the blocks in another order than its sibling of
    the same configuration, resp. when bytes of an earlier file follow the last extent."""
    import copy

    g = _synthetic_event()
    a = copy.deepcopy(g)
    a['flen'] += 1
    b = copy.deepcopy(g)
    b['bat'][1], b['bat'][2] = b['bat'][2], b['bat'][1]
    b['dec'][1], b['dec'][2] = b['dec'][2], b['dec'][1]
    b['open']['names'][1], b['open']['names'][2] = b['open']['names'][2], b['open']['names'][1]
    c = copy.deepcopy(g)
    c.update(prev=5000, flen=5000, gid=2, where='file_str', haslog=False, log=[])
    d = copy.deepcopy(g)
    d.update(prev=5000, gen=2, gid=3, where='file_str', haslog=False, log=[])   # overwritten properly: accepted
    seq = [g, a, copy.deepcopy(g), b, c, d]
    for i, e in enumerate(seq):
        e['tid'] = i
    tf = ctx.tmp / 'c12-corrupt.ndjson'
    write_ndjson(tf, seq)
    tr = ctx.tlc('sqw/Trace_SqwBuilder.tla', workers=1, env={'TRACE_FILE': str(tf)}, timeout=300, count=False)
    require_ok(ctx, tr, 'Trace_SqwBuilder (corruption control)')
    rej = {r[1]: r[3] for r in tr.tagged('REJECT')}
    if set(rej) != {2, 4, 5} or 'extents_end_at_eof' not in rej[2] \
            or rej[4] != ['table_order_independent_of_call_order'] \
            or rej[5] != ['extents_end_at_eof', 'nothing_survives_of_an_earlier_file']:
        raise MachineryError(f'corruption control: the trace specification judged {rej}')
    ctx.extra['corruption_control'] = ('hand-made layout accepted (also as second file at a path); file length +1, '
                                       'permuted table and surviving tail of an earlier file rejected')


def run(ctx):
    ctx.rule = RULE
    ctx.assume('the container layout is the one of docs/developer/file-formats/sqw.md and the literal header '
               'fixtures of tests/io/sqw; a misunderstanding of Horace shared by those is out of scope')
    ctx.assume('titles, names and paths are ASCII of any length incl. empty (DESIGN 3.4); file sizes < 2^31')
    ctx.assume('the order of the table is judged only for independence of the call order (events of one '
               'configuration differing only in call order must list the blocks identically), not against a '
               'particular order')
    rng = ctx.rng

    # ---- 1. design: exhaustive model + negative controls ------------------------------------------
    cfgname = 'MC_SqwBuilder_thorough.cfg' if ctx.thorough else 'MC_SqwBuilder.cfg'
    res = ctx.tlc('sqw/MC_SqwBuilder.tla', cfgname, timeout=1500, workers=WORKERS, coverage=True)
    require_ok(ctx, res, 'SqwBuilder model')
    require_actions(res, ['AddPixelData', 'AddEmptyDndData', 'AddSimple', 'Create', 'WriteHeader', 'SerializeBlocks',
                          'WriteBAT', 'WriteRegular', 'WriteDnd', 'WritePixHead', 'PixChunk', 'PixDone'])
    behs = res.tagged('BEH')
    if len(behs) < 1000:
        raise MachineryError(f'only {len(behs)} behaviours exported by TLC')
    # the same machine with something at the target before create() and with create() called twice
    cfgname = 'MC_SqwBuilder_reuse_thorough.cfg' if ctx.thorough else 'MC_SqwBuilder_reuse.cfg'
    res2 = ctx.tlc('sqw/MC_SqwBuilder.tla', cfgname, timeout=1500, workers=WORKERS, coverage=True)
    require_ok(ctx, res2, 'SqwBuilder model (existing target, create() twice)')
    require_actions(res2, ['Create', 'CreateAgain', 'WriteHeader', 'WriteBAT', 'PixChunk', 'PixDone'])
    behs2 = res2.tagged('BEH')
    if len(behs2) < 300 or not any(b[10] > 0 for b in behs2) or not any(b[11] == 2 for b in behs2):
        raise MachineryError(f'only {len(behs2)} behaviours with an existing target / a second create() exported')
    for neg in ('rows', 'callorder', 'nopatch', 'notrunc', 'release'):
        ctx.tlc('sqw/MC_SqwBuilder.tla', f'Neg_SqwBuilder_{neg}.cfg', expect_error=True, timeout=300, workers=WORKERS)
    ctx.extra['behaviours_exported'] = len(behs) + len(behs2)

    events, cfgs = [], {}
    tid = 0
    gid = 0
    L.hostile_first_build(ctx.tmp)      # unjudged first use of the library (single precision, views, big-endian)

    # ---- 2. spec -> code: perform TLC's behaviours ------------------------------------------------
    groups = {}
    for _, order, npix, shape, chunk, bo, nblocks, pixsize, dndsize, nchunks, _prev, _gen in behs:
        key = (frozenset(order), npix, tuple(shape), chunk, bo)
        groups.setdefault(key, []).append((tuple(order), nblocks, pixsize, dndsize, nchunks))
    keys = sorted(groups, key=lambda k: (sorted(k[0]), k[1:]))
    budget = 12000 if ctx.thorough else 750
    # stratified: every call SET with every (npix, chunk) at least once; then random fill
    chosen = []
    seen_strata = set()
    rng.shuffle(keys)
    for k in keys:
        stratum = (k[0], k[1], k[3])
        small = (len(k[0]), k[1], k[3], k[4])
        if stratum not in seen_strata and (ctx.thorough or small not in seen_strata):
            seen_strata.add(stratum)
            seen_strata.add(small)
            chosen.append(k)
    chosen_set = set(chosen)
    chosen += [k for k in keys if k not in chosen_set]   # then the remaining groups until the budget is used
    replayed = 0
    m1_bad = 0
    for k in chosen:
        if replayed >= budget:
            break
        orders = groups[k]
        rng.shuffle(orders)
        take = orders[: (3 if ctx.thorough else 2)]
        base = L.config_from_behaviour(rng, take[0][0], k[1], k[2] or (1, 1, 1, 1), k[3], k[4],
                                       where='bytesio' if replayed % 7 else rng.choice(['file_str', 'file_path']))
        gid += 1
        for order, nblocks, pixsize, dndsize, _nchunks in take:
            cfg = dict(base, calls=list(order))
            r = _one_file(ctx, cfg, tid, gid, events, cfgs)
            tid += 1
            replayed += 1
            if r is None:
                continue
            ev, dec = r
            # direct comparison with the numbers of the model (refinement mapping: table entry by kind)
            got_pix = [e.size for e in dec.entries if e.block_type == 'pix_data_block']
            got_dnd = [e.size for e in dec.entries if e.block_type == 'dnd_data_block']
            want = (nblocks, [pixsize] if pixsize >= 0 else [], [dndsize] if dndsize >= 0 else [])
            if (len(dec.entries), got_pix, got_dnd) != want:
                m1_bad += 1
                ctx.violation('block count / computed pixel and histogram block sizes differ from the model '
                              f'[{L.input_class(cfg)}]',
                              {'cfg': _brief(cfg), 'model': want, 'file': (len(dec.entries), got_pix, got_dnd)})
    # behaviours whose target holds an earlier file (shorter / longer) and / or whose builder creates twice:
    # real files; the model's `prev` is the number of bytes put at the path beforehand
    groups2 = {}
    for _, order, npix, shape, chunk, bo, nblocks, pixsize, dndsize, _nchunks, prev, gen in behs2:
        if prev == 0 and gen == 1:
            continue                                     # that is the plain machine again
        groups2.setdefault((prev, gen, len(order), 'pix' in order), []).append(
            (tuple(order), npix, tuple(shape), chunk, bo, nblocks, pixsize, dndsize))
    per = 60 if ctx.thorough else 4
    replayed2 = 0
    for (prev, gen, _, _), lst in sorted(groups2.items()):
        rng.shuffle(lst)
        for order, npix, shape, chunk, bo, nblocks, pixsize, dndsize in lst[:per]:
            cfg = L.config_from_behaviour(rng, order, npix, shape or (1, 1, 1, 1), chunk, bo,
                                          where=rng.choice(['file_str', 'file_path']), prev=prev, twice=gen == 2)
            gid += 1
            r = _one_file(ctx, cfg, tid, gid, events, cfgs)
            tid += 1
            replayed2 += 1
            if r is None:
                continue
            ev, dec = r
            got_pix = [e.size for e in dec.entries if e.block_type == 'pix_data_block']
            got_dnd = [e.size for e in dec.entries if e.block_type == 'dnd_data_block']
            want = (nblocks, [pixsize] if pixsize >= 0 else [], [dndsize] if dndsize >= 0 else [])
            if (len(dec.entries), got_pix, got_dnd) != want:
                ctx.violation('block count / computed pixel and histogram block sizes differ from the model '
                              f'[{L.input_class(cfg)}] [existing target / second create()]',
                              {'cfg': _brief(cfg), 'model': want, 'file': (len(dec.entries), got_pix, got_dnd)})
    ctx.extra['behaviours_replayed'] = replayed + replayed2
    ctx.extra['behaviours_replayed_existing_target_or_second_create'] = replayed2
    ctx.extra['behaviour_groups'] = gid

    # ---- 3. code -> spec: random configurations ---------------------------------------------------
    nrand_small = 1500 if ctx.thorough else 120
    nrand_big = 300 if ctx.thorough else 24
    for i in range(nrand_small + nrand_big):
        cfg = L.random_config(rng, thorough=ctx.thorough, small=i < nrand_small)
        gid += 1
        perms = [list(cfg['calls'])]
        if len(cfg['calls']) > 1 and (i < nrand_small or i % 4 == 0):
            p2 = list(cfg['calls'])
            while p2 == perms[0]:
                rng.shuffle(p2)
            perms.append(p2)
        for calls in perms:
            _one_file(ctx, dict(cfg, calls=calls), tid, gid, events, cfgs)
            tid += 1
    for npix, chunk, where in ((100_000, 30_000, 'file_str'), (65_537, None, 'bytesio'), (65_536, 65_536, 'file_path'),
                               (40_000, 40_000, 'bytesio'), (100_000, 30_011, 'bytesio')):   # single writes above 1 MiB, in memory too
        gid += 1                       # the upper end of the pixel range in every run, not only by chance
        _one_file(ctx, L.large_config(rng, npix, chunk, where), tid, gid, events, cfgs)
        tid += 1
    for shape, where in (((71, 71, 71, 1), 'bytesio'), ((1, 350_000, 1, 1), 'file_path')) + (
            (((40, 50, 40, 40), 'file_str'),) if ctx.thorough else ()):
        gid += 1                       # images of > 349 525 bins: each image array is written in more than one piece
        _one_file(ctx, L.large_image_config(rng, shape, where), tid, gid, events, cfgs)
        tid += 1
    if ctx.thorough:
        # the extreme corner of the quantifier: 1e5 pixels written one at a time
        cfg = L.random_config(rng, thorough=True, small=True, force=['pix'])
        cfg.update(npix=100_000, chunk=1, where='bytesio')
        cfg['pix'] = L.rand_pix_recipe(rng, 100_000, cfg['nruns'], simple=True)
        gid += 1
        _one_file(ctx, cfg, tid, gid, events, cfgs)
        tid += 1

    # ---- 3b. history: a sample of the configurations above once more, last first, onto the same paths ----
    first_of_gid = {}
    for e in events:
        first_of_gid.setdefault(e['gid'], []).append(e['tid'])
    again = rng.sample(sorted(first_of_gid), min(len(first_of_gid), 400 if ctx.thorough else 45))
    n_again = 0
    for g in sorted(again, reverse=True):
        gid += 1
        for t in reversed(first_of_gid[g]):
            # same tag => same path as the first time
            r = _one_file(ctx, cfgs[t], tid, gid, events, cfgs, tag=f'c{t}')
            tid += 1
            n_again += r is not None
    ctx.extra['files_written_again_in_reversed_order'] = n_again

    for e in events[:1] + events[-1:]:
        ctx.sample({k: e[k] for k in ('calls', 'npix', 'shape', 'chunk', 'bo', 'where', 'flen', 'bat')})
    ctx.extra['files_written'] = len(events)

    # ---- 4. TLC judges every recorded file ------------------------------------------------------------
    tf = ctx.tmp / 'c12.ndjson'
    write_ndjson(tf, events)
    tr = ctx.tlc('sqw/Trace_SqwBuilder.tla', workers=1, env={'TRACE_FILE': str(tf)}, timeout=1500)
    require_ok(ctx, tr, 'Trace_SqwBuilder')
    done = tr.tagged('DONE')
    if not done or done[0][1] != len(events):
        raise MachineryError(f'trace validation incomplete: {done} vs {len(events)} events')
    ctx.traces(len(events))
    byline = {i + 1: e for i, e in enumerate(events)}
    _corruption_control(ctx)
    for _, line, rtid, clauses in tr.tagged('REJECT'):
        ev = byline[line]
        cfg = cfgs[rtid]
        primary = [c for c in clauses if c not in LOG_CLAUSES] or list(clauses)
        key = f'SqwBuilder.create: {"+".join(primary)} [{L.input_class(cfg)}]'
        declared_end = max([b['pos'] + b['size'] for b in ev['bat']], default=0)
        ctx.violation(key, {'cfg': _brief(cfg), 'failing_clauses': clauses, 'file_length': ev['flen'],
                            'declared_end': declared_end, 'table': ev['bat'], 'decoded': ev['dec'],
                            'open': ev['open'], 'write_log_rle': ev['log'][:12]})


META = {
    'design_ref': 'DESIGN.md §5 C12',
    'technique': 'TLA+ state machine of the SQW builder (all call orders/subsets x pixel counts x chunk sizes x '
                 'byte order; target holding an earlier file; create() twice) model-checked by TLC with five '
                 'negative controls; TLC-exported behaviours and '
                 'random configurations are performed on the real builder with a recording file object, the '
                 'bytes are decoded by an independent decoder and every file is judged by a TLC trace '
                 'specification that replays the calls on the specification\'s layout operators',
    'text': 'TLC proves on the model (all orders and subsets of the five builder calls, pixel counts and chunk '
            'sizes around the row count 9, three histogram shapes, both byte orders) that the header comes first, '
            'the table lists each block once in a call-order independent order, extents start after the table, '
            'tile the file and end at EOF (also when the path held a longer file before and when create() is '
            'called a second time), pixel bytes equal the declared size and the byte order is re-deduced; '
            'the same behaviours and seeded random configurations up to 1e5 pixels (BytesIO and real files, '
            'native/little/big, any title length, pixel tables handed over as views / in other dtypes, paths that '
            'already hold a file) are executed on the real SqwBuilder and each produced file, decoded '
            'independently of the package, is judged clause by clause by TLC; a sample is written again in '
            'reversed order at the end.',
    'note': 'Trusted: TLC, the independent decoder (written from docs/developer/file-formats/sqw.md and the header '
            'fixtures), numpy. The table order is judged only for independence of call order. The write log is '
            'available for in-memory targets only.',
}
