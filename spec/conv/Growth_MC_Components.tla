------------------------- MODULE Growth_MC_Components -------------------------
(* Model-checking instance of Growth_Components:                                              *)
(*   Growth_MC_Components.cfg            all 2^9 presence sets x 10 calls, every firing order  *)
(*                                       (exhaustive: the same run serves quick and thorough)  *)
(*   Growth_MC_Components_emit.cfg       one fixed firing order, every answered call printed   *)
(*   Growth_Neg_Components_<bug>.cfg     negative controls: TLC must reject                    *)
EXTENDS Growth_Components
=============================================================================
